"""C07 — a loss channel acts as independent photon loss at the point where it is placed.

Correspondence.  Random programs (unitary components BS/PS/PERM/Unitary interleaved with several LC channels on
interior modes, several on the same mode) are run through the public entry points
`Processor(...).probs()` and `SimulatorFactory.build(list).probs / probs_svd` at precision 0.  The Lean driver
(`Driver/C07.lean`) receives the very matrices the real leaves report (dyadic rationals) and the channel
amplitudes c = sqrt(1-loss), s = sqrt(loss) as exact rationals, builds the enlarged matrix *twice* — through its
model of `_simulate_losses_with_beam_splitters` and through the direct specification (two-mode block on
(mode, fresh mode)) —, checks they are equal, evaluates the exact Fock-space distribution and marginalises.
`DensityMatrix.apply_loss` is compared on the diagonal with the model of the Kraus weights and with the LC
simulation of the same loss.  Sessions keep ONE Processor / simulator alive over several queries while loss and
phase Parameters, the component list, the filter and the input change in between: every answer must be the one
for the values at the time of the query (Lean: `session_history_independent`).  A direct oracle independent of Lean (numpy permanents of the enlarged lossless
circuit) classifies disagreements.
"""
from __future__ import annotations

import copy
import glob
import itertools
import json
import math
import os
from fractions import Fraction

# tiny matrices only: BLAS/OpenMP worker threads cost more (system time) than they give
for _v in ("OMP_NUM_THREADS", "OPENBLAS_NUM_THREADS", "MKL_NUM_THREADS"):
    os.environ.setdefault(_v, "1")

import numpy as np  # noqa: E402

from . import core, gens  # noqa: E402

# c = a/h = sqrt(1 - loss), s = b/h = sqrt(loss)
LC_TRIPLES = [(3, 4, 5), (4, 3, 5), (5, 12, 13), (12, 5, 13), (8, 15, 17), (15, 8, 17), (7, 24, 25), (24, 7, 25),
              (20, 21, 29), (21, 20, 29)]
TOL = core.TOL


# ------------------------------------------------------------------------------------------------
# generation
# ------------------------------------------------------------------------------------------------
def gen_lc(rng):
    r = rng.random()
    if r < 0.10:
        a, b, h = 1, 0, 1          # loss 0
    elif r < 0.20:
        a, b, h = 0, 1, 1          # loss 1
    else:
        a, b, h = rng.choice(LC_TRIPLES)
    return {"t": "LC", "a": a, "b": b, "h": h}


def lc_loss(spec) -> Fraction:
    if "loss" in spec:
        return Fraction(spec["loss"])
    return Fraction(spec["b"] * spec["b"], spec["h"] * spec["h"])


def width(spec):
    return 1 if spec["t"] in ("LC", "TD") else gens.leaf_width(spec)


def gen_program(rng, chk, max_m=4, max_lc=4, max_n=3):
    m = rng.randint(2, max_m) if rng.random() < 0.9 else 1
    n_lc = rng.randint(1, max_lc)
    n_uni = rng.randint(0, 5)
    kinds = ["LC"] * n_lc + ["U"] * n_uni
    rng.shuffle(kinds)
    comps = []
    hot = rng.randrange(m)     # several channels on one mode
    for k in kinds:
        if k == "LC":
            r0 = hot if rng.random() < 0.35 else rng.randrange(m)
            comps.append([r0, gen_lc(rng)])
        else:
            leaf = gens.gen_leaf(rng, m, kinds=("BS", "BS", "PS", "PERM", "U", "UH") if m >= 2 else ("PS", "U"))
            w = gens.leaf_width(leaf)
            if w > m:
                continue
            comps.append([rng.randint(0, m - w), leaf])
    mode = rng.choice(["processor", "processor", "list"])
    if mode == "list":
        mm = max(r0 + width(c) for r0, c in comps)
    else:
        mm = m
    inputs = []
    for _ in range(rng.randint(1, 3)):
        n = rng.choice([0, 1, 1, 2, 2, 2, 3, 3]) if max_n >= 3 else rng.randint(0, max_n)
        s = [0] * mm
        for _ in range(n):
            s[rng.randrange(mm)] += 1
        if s not in inputs:
            inputs.append(s)
    return {"m": m, "mode": mode, "backend": rng.choice(["SLOS", "SLOS", "Naive", "SLAP"]), "comps": comps,
            "inputs": inputs, "filter": rng.choice([0, 0, 0, 0, 1, 2]), "malformed": None}


def gen_malformed(rng, chk):
    prog = gen_program(rng, chk)
    prog["mode"] = "processor"
    m = prog["m"]
    prog["inputs"] = [[1] + [0] * (m - 1)]
    kind = rng.choice(["loss-range", "lc-mode", "uni-mode", "input-size"])
    if kind == "loss-range":
        bad = rng.choice(["3/2", "-1/10", "101/100", "-1"])
        prog["comps"].insert(rng.randint(0, len(prog["comps"])), [rng.randrange(m), {"t": "LC", "loss": bad}])
    elif kind == "lc-mode":
        prog["comps"].insert(rng.randint(0, len(prog["comps"])), [m + rng.randint(0, 1), gen_lc(rng)])
    elif kind == "uni-mode":
        prog["comps"].insert(rng.randint(0, len(prog["comps"])), [m, {"t": "PS", "phi": gens.gen_cs(rng)}])
    else:
        prog["inputs"] = [[1] + [0] * (m - 2 if m >= 2 and rng.random() < 0.5 else m)]
    prog["malformed"] = kind
    return prog


# ------------------------------------------------------------------------------------------------
# the real code
# ------------------------------------------------------------------------------------------------
def build_comp(spec):
    from perceval.components import LC
    if spec["t"] == "LC":
        return LC(float(lc_loss(spec)))
    return gens.build_leaf(spec)


def snapshot_mats(comps, objs):
    """the leaves' own numeric matrices *now* (a parameter may change later): None for a loss channel"""
    out = []
    for (r0, spec), obj in zip(comps, objs):
        out.append(None if spec["t"] == "LC" else
                   np.array(obj.compute_unitary(use_symbolic=False), dtype=complex))
    return out


def lean_request(prog, mats):
    comps = []
    for (r0, spec), mat in zip(prog["comps"], mats):
        if spec["t"] == "LC":
            if "loss" in spec:
                comps.append({"r": r0, "lc": ["0", "0"], "loss": spec["loss"]})
            else:
                comps.append({"r": r0, "lc": [core.rat(Fraction(spec["a"], spec["h"])),
                                              core.rat(Fraction(spec["b"], spec["h"]))],
                              "loss": core.rat(lc_loss(spec))})
        else:
            if mat is None:
                raise ValueError("no matrix for a unitary component")
            comps.append({"r": r0, "k": int(mat.shape[0]), "U": core.mat(mat.tolist())})
    return {"op": "probs", "m": prog["m"] if prog["mode"] == "processor" else None, "comps": comps,
            "inputs": prog["inputs"]}


def bsd_to_dict(bsd):
    return {tuple(int(x) for x in k): float(v) for k, v in bsd.items()}


REAL_ERRORS = (AssertionError, ValueError, RuntimeError, TypeError, IndexError, KeyError)


def is_repo_error(e):
    return isinstance(e, REAL_ERRORS) or type(e).__module__.startswith(("perceval", "exqalibur"))


def query_processor(p, inputs):
    import perceval as pcvl
    runs = []
    for s in inputs:
        p.with_input(pcvl.BasicState(s))
        res = p.probs(precision=0)        # 2nd and later calls reuse the cached simulator (set_circuit path)
        runs.append({"input": s, "via": "Processor.probs", "results": bsd_to_dict(res["results"]),
                     "physical_perf": float(res["physical_perf"]), "logical_perf": float(res["logical_perf"])})
    return runs


def query_simulator(sim, inputs, f):
    import perceval as pcvl
    runs = []
    for s in inputs:
        # unfiltered distribution through probs(BasicState)
        sim.set_min_detected_photons_filter(0)
        d0 = bsd_to_dict(sim.probs(pcvl.BasicState(s)))
        runs.append({"input": s, "via": "build(list).probs", "results": d0, "physical_perf": None,
                     "logical_perf": None, "filter": 0})
        sim.set_min_detected_photons_filter(f)
        res = sim.probs_svd(pcvl.SVDistribution(pcvl.BasicState(s)))
        runs.append({"input": s, "via": "build(list).probs_svd", "results": bsd_to_dict(res["results"]),
                     "physical_perf": float(res["physical_perf"]), "logical_perf": float(res["logical_perf"])})
    return runs


def observe(prog):
    """Run the real code on a fresh object.
    -> {"err": cls, "mats"} or {"runs": [ {input, results, physical_perf, logical_perf} ], "mats": [...], "layer"}"""
    import perceval as pcvl
    from perceval.simulators import SimulatorFactory
    objs = []
    mats = []
    try:
        for r0, spec in prog["comps"]:
            objs.append(build_comp(spec))
        mats = snapshot_mats(prog["comps"], objs)
        f = prog["filter"]
        if prog["mode"] == "processor":
            p = pcvl.Processor(prog["backend"], prog["m"])
            for (r0, spec), obj in zip(prog["comps"], objs):
                p.add(r0, obj)
            p.min_detected_photons_filter(f)
            runs = query_processor(p, prog["inputs"])
            layer = None
        else:
            lst = [(tuple(range(r0, r0 + obj.m)), obj) for (r0, spec), obj in zip(prog["comps"], objs)]
            sim = SimulatorFactory.build(lst, prog["backend"])
            sim.set_precision(0)
            layer = type(sim).__name__
            runs = query_simulator(sim, prog["inputs"], f)
        return {"runs": runs, "mats": mats, "layer": layer}
    except Exception as e:   # incl. perceval's own exception classes (UnavailableModeException, ...)
        if is_repo_error(e):
            return {"err": type(e).__name__, "msg": str(e)[:200], "mats": mats}
        raise


# ------------------------------------------------------------------------------------------------
# expected values from an exact unfiltered distribution
# ------------------------------------------------------------------------------------------------
def expected_filtered(dist: dict, f: int):
    """dist: {state tuple: Fraction}.  -> (results dict, physical_perf) as the property states them."""
    if not f:
        return dict(dist), Fraction(1)
    kept = {k: v for k, v in dist.items() if sum(k) >= f}
    mass = sum(kept.values(), Fraction(0))
    if mass == 0:
        return {}, Fraction(0)
    return {k: v / mass for k, v in kept.items()}, mass


def dist_close(real: dict, exact: dict, tol=TOL):
    worst = 0.0
    for k in set(real) | set(exact):
        x = real.get(k, 0.0)
        xh = float(exact.get(k, 0))
        d = abs(x - xh)
        if d > tol + tol * abs(xh):
            worst = max(worst, d)
    return worst


# ------------------------------------------------------------------------------------------------
# direct oracle, independent of the Lean driver: numpy permanents of the enlarged lossless circuit
# ------------------------------------------------------------------------------------------------
def perm_np(a):
    n = a.shape[0]
    if n == 0:
        return 1.0 + 0j
    tot = 0j
    for sg in itertools.permutations(range(n)):
        pr = 1.0 + 0j
        for i in range(n):
            pr *= a[sg[i], i]
        tot += pr
    return tot


def all_states(m, n):
    if m == 0:
        return [[]] if n == 0 else []
    out = []
    for k in range(n, -1, -1):
        for r in all_states(m - 1, n - k):
            out.append([k] + r)
    return out


def oracle_matrix(prog, mats):
    """the property's enlarged lossless circuit: original components where they were placed; each channel a
    BS.H-type block [[c, s], [s, -c]] on (its mode, its own fresh mode)"""
    if prog["mode"] == "processor":
        M = prog["m"]
    else:
        M = max(r0 + width(c) for r0, c in prog["comps"])
    n_lc = sum(1 for _, c in prog["comps"] if c["t"] == "LC")
    N = M + n_lc
    u = np.eye(N, dtype=complex)
    fresh = M
    for (r0, spec), mat in zip(prog["comps"], mats):
        e = np.eye(N, dtype=complex)
        if spec["t"] == "LC":
            loss = float(lc_loss(spec))
            c, s = math.sqrt(1 - loss), math.sqrt(loss)
            e[r0, r0], e[r0, fresh], e[fresh, r0], e[fresh, fresh] = c, s, s, -c
            fresh += 1
        elif spec["t"] == "PS":
            # from the specification value, not from the (possibly parametrised, long-lived) object
            e[r0, r0] = complex(float(Fraction(spec["phi"][0])), float(Fraction(spec["phi"][1])))
        else:
            k = mat.shape[0]
            e[r0:r0 + k, r0:r0 + k] = mat
        u = e @ u
    return u, M, N


def oracle_dist(u, M, N, s):
    sp = list(s) + [0] * (N - M)
    n = sum(sp)
    cols = [i for i, c in enumerate(sp) for _ in range(c)]
    out = {}
    fs = math.prod(math.factorial(x) for x in sp)
    for t in all_states(N, n):
        rows = [i for i, c in enumerate(t) for _ in range(c)]
        a = u[np.ix_(rows, cols)] if n else np.zeros((0, 0))
        p = abs(perm_np(a)) ** 2 / (fs * math.prod(math.factorial(x) for x in t))
        key = tuple(t[:M])
        out[key] = out.get(key, 0.0) + p
    return out


# ------------------------------------------------------------------------------------------------
def judge(chk, prog):
    """a fresh Processor / simulator for this program -> None or (kind, signature, what)"""
    return judge_obs(chk, prog, observe(prog))


def judge_obs(chk, prog, obs):
    """`obs`: what the real code answered for the (effective) program `prog` -> None or (kind, signature, what)"""
    try:
        req = lean_request(prog, obs["mats"] + [None] * (len(prog["comps"]) - len(obs["mats"])))
    except Exception:
        req = None
    if "err" in obs:
        chk.branch("rejected")
        if req is None:
            # a component could not even be constructed (LC out of range): ask the model with placeholders
            comps = []
            for r0, spec in prog["comps"]:
                if spec["t"] == "LC":
                    comps.append({"r": r0, "lc": ["0", "0"] if "loss" in spec else
                                  [core.rat(Fraction(spec["a"], spec["h"])), core.rat(Fraction(spec["b"], spec["h"]))],
                                  "loss": spec.get("loss", core.rat(lc_loss(spec)))})
                else:
                    w = gens.leaf_width(spec)
                    comps.append({"r": r0, "k": w, "U": [[["1" if i == j else "0", "0"] for j in range(w)]
                                                         for i in range(w)]})
            req = {"op": "probs", "m": prog["m"] if prog["mode"] == "processor" else None, "comps": comps,
                   "inputs": prog["inputs"]}
        rep = chk.lean.ask(req)
        if "err" in rep:
            return None
        return ("violation", "rejects-admissible-program",
                f"the real API raised {obs['err']} ({obs.get('msg')}) on a program the model accepts")
    rep = chk.lean.ask(req)
    if "err" in rep:
        return ("violation", "accepts-inadmissible-program",
                f"the real API accepted a program the model rejects ({rep['err']})")
    if not rep["same"]:
        return ("broken", "rewrite-vs-spec",
                "the model of the rewrite and the two-mode-block specification give different matrices")
    if prog["mode"] == "list" and obs["layer"] != "LossSimulator":
        return ("violation", "loss-layer-missing", f"SimulatorFactory.build returned a {obs['layer']} for a list with LC")
    by_input = {}
    for s, dj, mass in zip(prog["inputs"], rep["dists"], rep["mass"]):
        if abs(float(Fraction(mass) - 1)) > 1e-12:   # leaves are float (dyadic) matrices: unitary up to rounding
            return ("broken", "enlarged-mass", f"the model's enlarged distribution has mass {mass}")
        by_input[tuple(s)] = {tuple(k): Fraction(v) for k, v in dj}
    umat = None
    for run in obs["runs"]:
        exact = by_input[tuple(run["input"])]
        f = run.get("filter", prog["filter"])
        probs = compare_run(run, exact, f, rep["M"], TOL)
        if not probs:
            continue
        # disagreement: evaluate the property directly on the implementation
        if "shape" in probs:
            return ("violation", "output-not-on-original-modes",
                    f"{run['via']} returned states that are not on the {rep['M']} original modes")
        if "norm" in probs:
            return ("violation", "not-normalised",
                    f"{run['via']} returned a distribution of total mass {sum(run['results'].values())!r}")
        if umat is None:
            umat = oracle_matrix(prog, obs["mats"])
        od = oracle_dist(*umat, run["input"])
        odf = {k: Fraction(*float(v).as_integer_ratio()) for k, v in od.items()}
        oprobs = compare_run(run, odf, f, rep["M"], 1e-7)
        if "dist" in oprobs:
            return ("violation", "loss-distribution-differs",
                    f"{run['via']} on input {run['input']} (photon filter {f}) differs from the enlarged lossless "
                    f"circuit (each LC a BS of transmission 1-loss to a fresh vacuum mode) by {oprobs['dist']:.3g}")
        if "perf" in oprobs:
            return ("violation", "loss-physical-perf",
                    f"{run['via']} on input {run['input']} reports physical_perf {run['physical_perf']!r}, "
                    f"the retained mass is {oprobs['perf']!r}")
        if "lperf" in probs:
            return ("violation", "loss-logical-perf", f"logical_perf {run['logical_perf']!r} without any post-selection")
        return ("broken", "model-vs-code", f"Lean model and {run['via']} disagree ({probs}) on input {run['input']} "
                                           "but the numpy oracle agrees with the implementation")
    return None


def compare_run(run, exact, f, M, tol):
    """Compare one observed run with an exact unfiltered distribution {state: Fraction}.

    Under a photon filter the implementation returns the conditional distribution and the retained mass
    (`physical_perf`).  The retained mass can be arbitrarily small (1e-11 happens with loss 1 next to the filter), and
    the simulator drops outcomes below its documented floor `min_p = 1e-16`; dividing by the retained mass would
    amplify that floor above any fixed tolerance.  So the comparison is made on the *joint* probabilities
    `results[t] * physical_perf` against the exact `p(t)` of the kept outcomes (absolute+relative 1e-9), on
    `physical_perf` against the exact retained mass, and on `sum(results) = 1`.  -> dict of problems (empty = agree)
    """
    out = {}
    res = run["results"]
    if any(len(k) != M for k in res):
        out["shape"] = True
        return out
    if res and not core.close(sum(res.values()), 1.0):
        out["norm"] = True
    want, mass = expected_filtered(exact, f)
    perf = run["physical_perf"]
    if perf is None:            # probs(): no performance returned; only used with filter 0
        perf = 1.0
    elif abs(perf - float(mass)) > tol + tol * float(mass):
        out["perf"] = float(mass)
    worst = 0.0
    for k in set(res) | set(want):
        x = res.get(k, 0.0) * perf
        xh = float(exact.get(k, 0)) if (k in want or (not f) or sum(k) >= f) else 0.0
        d = abs(x - xh)
        if d > tol + tol * abs(xh):
            worst = max(worst, d)
    if worst:
        out["dist"] = worst
    if run["logical_perf"] is not None and float(mass) > 1e-6 and not core.close(run["logical_perf"], 1.0):
        out["lperf"] = True
    return out


def shrink(chk, prog, sig):
    def fails(p):
        try:
            r = judge(chk, p)
        except core.LeanError:
            raise
        except Exception:
            return False
        return r is not None and r[1] == sig

    cur = copy.deepcopy(prog)
    # one input
    for s in list(cur["inputs"]):
        cand = dict(cur, inputs=[s])
        if fails(cand):
            cur = cand
            break

    def with_comps(cs):
        c = dict(cur, comps=cs)
        if cur["mode"] == "list":
            mm = max(r0 + width(sp) for r0, sp in cs)
            if any(len(s) != mm for s in c["inputs"]):
                return None
        return c

    def f2(cs):
        c = with_comps(cs)
        return c is not None and fails(c)

    cur["comps"] = gens.shrink_list(cur["comps"], f2, max_rounds=60)
    if cur["filter"]:
        cand = dict(cur, filter=0)
        if fails(cand):
            cur = cand
    return cur


def signature(prog):
    return (prog["m"], prog["mode"], tuple((r0, c["t"], (c.get("a"), c.get("h")) if c["t"] == "LC" else None)
                                           for r0, c in prog["comps"]), prog["filter"])


def nontrivial(prog):
    """several channels, at least one on an interior mode or two on the same mode, interleaved with a unitary"""
    lcs = [r0 for r0, c in prog["comps"] if c["t"] == "LC"]
    kinds = [c["t"] == "LC" for _, c in prog["comps"]]
    inter = any(kinds[i] != kinds[i + 1] for i in range(len(kinds) - 1))
    mm = prog["m"]
    return len(lcs) >= 2 and inter and (len(set(lcs)) < len(lcs) or any(r0 < mm - 1 for r0 in lcs))


def handle(chk, prog):
    lcs = [r0 for r0, c in prog["comps"] if c["t"] == "LC"]
    chk.count("m", prog["m"])
    chk.count("channels", len(lcs))
    chk.count("mode", prog["mode"])
    chk.count("backend", prog["backend"])
    chk.count("filter", prog["filter"])
    for r0, c in prog["comps"]:
        chk.count("kind", c["t"])
        if c["t"] == "LC" and "loss" not in c:
            chk.count("loss", str(lc_loss(c)))
    for s in prog["inputs"]:
        chk.count("n", sum(s))
    if prog["malformed"] is None:
        mm = len(prog["inputs"][0])
        nfm = mm
        for r0, c in prog["comps"]:
            if c["t"] == "LC":
                chk.branch("perm-branch" if r0 != nfm - 1 else "adjacent-branch")
                if nfm > mm and r0 != nfm - 1:
                    chk.branch("perm-after-earlier-channel")
                nfm += 1
        if len(set(lcs)) < len(lcs):
            chk.branch("two-channels-same-mode")
        if any(c["t"] == "LC" and c.get("b") == 0 for _, c in prog["comps"]):
            chk.branch("loss-0")
        if any(c["t"] == "LC" and c.get("a") == 0 for _, c in prog["comps"]):
            chk.branch("loss-1")
        chk.branch("via-" + prog["mode"])
        if prog["filter"]:
            chk.branch("photon-filter")
    res = judge(chk, prog)
    chk.case(signature(prog), nontrivial=nontrivial(prog) and prog["malformed"] is None,
             sample={"m": prog["m"], "mode": prog["mode"], "comps": [(r0, c["t"]) for r0, c in prog["comps"]][:8],
                     "inputs": prog["inputs"][:2]})
    if res is not None:
        kind, sig, what = res
        small = shrink(chk, prog, sig)
        try:
            again = judge(chk, small)          # describe the minimised case, not the original one
            if again is not None and again[1] == sig:
                what = again[2]
        except core.LeanError:
            raise
        except Exception:
            pass
        chk.fail(kind, sig, what, {"program": small})


# ------------------------------------------------------------------------------------------------
# sessions: ONE long-lived Processor / simulator queried several times while its loss (a variable Parameter), a
# phase, the component list, the photon filter or the input change between the queries.  Every answer must be
# the distribution of the enlarged lossless circuit for the values *at the time of the query*
# (Lean: `session_history_independent`).
# ------------------------------------------------------------------------------------------------
BAD_LOSS = ["3/2", "-1/10", "101/100"]


def lc_value(spec):
    return {"a": spec["a"], "b": spec["b"], "h": spec["h"]}


def comps_M(comps):
    return max(r0 + width(c) for r0, c in comps)


def gen_session(rng, chk, max_lc=3):
    prog = gen_program(rng, chk, max_m=4, max_lc=max_lc, max_n=3)
    m, mode, comps = prog["m"], prog["mode"], prog["comps"]
    M = m if mode == "processor" else comps_M(comps)
    lcs = [i for i, (_, c) in enumerate(comps) if c["t"] == "LC"]
    forced = rng.choice(lcs)
    first = {}                 # variable name -> the spec that carries its initial value
    for i, (r0, c) in enumerate(comps):
        if c["t"] == "LC" and (i == forced or rng.random() < 0.5):
            lvars = [v for v in first if v.startswith("eta")]
            if lvars and rng.random() < 0.3:      # one Parameter shared by several channels
                c["var"] = rng.choice(lvars)
                c.update(lc_value(first[c["var"]]))
            else:
                c["var"] = f"eta{i}"
                first[c["var"]] = c
        elif c["t"] == "PS" and rng.random() < 0.6:
            c["var"] = f"phi{i}"
            first[c["var"]] = c

    if not any(v.startswith("phi") for v in first) and rng.random() < 0.4:
        i = rng.randint(0, len(comps))
        c = {"t": "PS", "phi": gens.gen_cs(rng), "var": f"phi_{len(comps)}"}
        comps.insert(i, [rng.randrange(M), c])
        first[c["var"]] = c

    def new_inputs():
        out = []
        for _ in range(rng.randint(1, 2)):
            sst = [0] * M
            for _ in range(rng.choice([1, 2, 2, 3])):
                sst[rng.randrange(M)] += 1
            if sst not in out:
                out.append(sst)
        return out

    def new_comp(cur):
        if rng.random() < 0.6:
            c = gen_lc(rng)
            lvars = sorted({x["var"] for _, x in cur if x["t"] == "LC" and "var" in x})
            if lvars and rng.random() < 0.3:
                c["var"] = rng.choice(lvars)      # the value is the variable's current one (fixed up when run)
            return [rng.randrange(M), c]
        leaf = gens.gen_leaf(rng, M, kinds=("BS", "PS", "PERM", "U") if M >= 2 else ("PS", "U"))
        return [rng.randint(0, M - gens.leaf_width(leaf)), leaf]

    prog["inputs"] = new_inputs()
    cur = copy.deepcopy(comps)
    steps = []
    names = sorted(first)
    for k in range(rng.randint(1, 4)):
        r = rng.random()
        lvars = [v for v in names if v.startswith("eta")]
        if k == 0 and r < 0.7 or r < 0.45:
            v = rng.choice(lvars) if (rng.random() < 0.75 or len(lvars) == len(names)) else \
                rng.choice([x for x in names if not x.startswith("eta")])
            if v.startswith("eta"):
                steps.append({"op": "set", "var": v, "lc": lc_value(gen_lc(rng))})
            else:
                steps.append({"op": "set", "var": v, "phi": gens.gen_cs(rng)})
        elif r < 0.52:
            steps.append({"op": "set-bad", "var": rng.choice(lvars), "loss": rng.choice(BAD_LOSS)})
        elif r < 0.67:
            c = new_comp(cur)
            cur.append(c)
            steps.append({"op": "add", "comp": c})
        elif r < 0.75:
            steps.append({"op": "filter", "value": rng.choice([0, 1, 2])})
        elif r < 0.83:
            steps.append({"op": "inputs", "inputs": new_inputs()})
        elif r < 0.90 or mode == "processor":
            steps.append({"op": "query", "reset": rng.random() < 0.6})
        else:
            i = rng.randrange(len(cur))
            if rng.random() < 0.6:
                c = new_comp(cur)
                cand = cur[:i] + [c] + cur[i + 1:]
                st = {"op": "replace", "index": i, "comp": c}
            else:
                cand = cur[:i] + cur[i + 1:]
                st = {"op": "remove", "index": i}
            if cand and comps_M(cand) == M and any(x["t"] == "LC" for _, x in cand):
                cur = cand
                steps.append(st)
            else:
                steps.append({"op": "query", "reset": True})
    return {"m": m, "mode": mode, "backend": prog["backend"], "comps": comps, "inputs": prog["inputs"],
            "filter": prog["filter"], "steps": steps}


class SessionState:
    """the caller's view of a session: symbolic components + the current value of every variable"""

    def __init__(self, sess):
        self.comps = []
        self.values = {}
        self.filter = sess["filter"]
        self.inputs = sess["inputs"]
        for r0, spec in sess["comps"]:
            self.declare(spec)
            self.comps.append([r0, spec])

    def declare(self, spec):
        v = spec.get("var")
        if v is not None and v not in self.values:
            self.values[v] = lc_value(spec) if spec["t"] == "LC" else spec["phi"]

    def effective(self):
        out = []
        for r0, spec in self.comps:
            v = spec.get("var")
            if v is None:
                out.append([r0, spec])
            elif spec["t"] == "LC":
                out.append([r0, dict({"t": "LC"}, **self.values[v])])
            else:
                out.append([r0, {"t": "PS", "phi": self.values[v]}])
        return out


def observe_session(sess):
    """Run the real code: one long-lived object.  -> {"queries": [{"prog", "obs", "history"}], "layer"}"""
    import perceval as pcvl
    from perceval.components import LC, PS
    from perceval.simulators import SimulatorFactory
    st = SessionState(sess)
    params = {}
    history = ["new"]
    queries = []
    mode = sess["mode"]

    def set_param(v):
        val = st.values[v]
        params[v].set_value(float(lc_loss(val)) if v.startswith("eta") else gens.cs_angle(val))

    def build(spec):
        v = spec.get("var")
        if v is None:
            return build_comp(spec)
        if v not in params:
            params[v] = pcvl.P(v)
            set_param(v)
        return LC(params[v]) if spec["t"] == "LC" else PS(params[v])

    def effective_prog():
        return {"m": sess["m"], "mode": mode, "backend": sess["backend"], "comps": copy.deepcopy(st.effective()),
                "inputs": list(st.inputs), "filter": st.filter, "malformed": None}

    objs = []
    target = {}

    def query():
        prog = effective_prog()
        mats = []
        try:
            mats = snapshot_mats(prog["comps"], objs)
            if mode == "processor":
                runs = query_processor(target["p"], st.inputs)
            else:
                runs = query_simulator(target["sim"], st.inputs, st.filter)
            obs = {"runs": runs, "mats": mats, "layer": target.get("layer")}
        except Exception as e:
            if not is_repo_error(e):
                raise
            obs = {"err": type(e).__name__, "msg": str(e)[:200], "mats": mats}
        queries.append({"prog": prog, "obs": obs, "history": list(history)})
        history.append("query")
        return "err" not in obs

    try:
        for r0, spec in st.comps:
            objs.append(build(spec))
        if mode == "processor":
            p = pcvl.Processor(sess["backend"], sess["m"])
            for (r0, spec), obj in zip(st.comps, objs):
                p.add(r0, obj)
            p.min_detected_photons_filter(st.filter)
            target["p"] = p
        else:
            lst = [(tuple(range(r0, r0 + obj.m)), obj) for (r0, spec), obj in zip(st.comps, objs)]
            sim = SimulatorFactory.build(lst, sess["backend"])
            sim.set_precision(0)
            target["sim"] = sim
            target["layer"] = type(sim).__name__
    except Exception as e:
        if not is_repo_error(e):
            raise
        queries.append({"prog": effective_prog(), "obs": {"err": type(e).__name__, "msg": str(e)[:200], "mats": []},
                        "history": list(history)})
        return {"queries": queries}
    if not query():
        return {"queries": queries}
    for step in sess["steps"]:
        op = step["op"]
        reset = mode == "list"       # the owner of a list tells the simulator about it again
        try:
            if op == "set":
                st.values[step["var"]] = step["lc"] if "lc" in step else step["phi"]
                if step["var"] in params:
                    set_param(step["var"])
                history.append(f"{step['var']}.set_value")
            elif op == "set-bad":
                history.append(f"{step['var']}.set_value(out of range)")
                reset = False
                if step["var"] in params:
                    try:
                        params[step["var"]].set_value(float(Fraction(step["loss"])))
                    except ValueError:
                        pass
                    else:
                        queries.append({"prog": effective_prog(), "obs": {"accepted_bad": step["loss"]},
                                        "history": list(history)})
                        return {"queries": queries}
            elif op == "add":
                r0, spec = step["comp"]
                st.declare(spec)
                obj = build(spec)
                if mode == "processor":
                    target["p"].add(r0, obj)
                    history.append("Processor.add")
                else:
                    lst.append((tuple(range(r0, r0 + obj.m)), obj))
                    history.append("list.append")
                st.comps.append([r0, spec])
                objs.append(obj)
            elif op == "replace" and mode == "list" and step["index"] < len(objs):
                r0, spec = step["comp"]
                st.declare(spec)
                obj = build(spec)
                i = step["index"]
                lst[i] = (tuple(range(r0, r0 + obj.m)), obj)
                st.comps[i] = [r0, spec]
                objs[i] = obj
                history.append("list[i] = ...")
            elif op == "remove" and mode == "list" and step["index"] < len(objs) and len(objs) > 1:
                i = step["index"]
                del lst[i]
                del st.comps[i]
                del objs[i]
                history.append("del list[i]")
            elif op == "filter":
                st.filter = step["value"]
                reset = False
                if mode == "processor":
                    target["p"].min_detected_photons_filter(st.filter)
                history.append("filter")
            elif op == "inputs":
                st.inputs = step["inputs"]
                reset = False
                history.append("input")
            else:
                reset = reset and bool(step.get("reset"))
            if reset:
                target["sim"].set_circuit(lst)
                history.append("set_circuit(same list)")
        except Exception as e:
            if not is_repo_error(e):
                raise
            queries.append({"prog": effective_prog(), "obs": {"err": type(e).__name__, "msg": str(e)[:200],
                                                              "mats": []}, "history": list(history)})
            return {"queries": queries}
        if not query():
            break
    return {"queries": queries}


def judge_session(chk, sess):
    """-> None or (kind, signature, what)"""
    out = observe_session(sess)
    for k, q in enumerate(out["queries"]):
        if "accepted_bad" in q["obs"]:
            return ("violation", "accepts-inadmissible-program",
                    f"Parameter.set_value({q['obs']['accepted_bad']}) was accepted for the loss of an LC")
        res = judge_obs(chk, q["prog"], q["obs"])
        if res is None:
            continue
        kind, sig, what = res
        hist = " -> ".join(q["history"])
        if k > 0 and kind == "violation":
            # is it the history?  the same program on a fresh object
            try:
                fresh = judge(chk, q["prog"])
            except core.LeanError:
                raise
            if fresh is None:
                return (kind, "loss-result-depends-on-history",
                        f"long-lived {'Processor' if sess['mode'] == 'processor' else 'simulator'} after [{hist}]: "
                        f"{what}; a fresh one gives the right answer for the same components and values")
        return (kind, sig, f"after [{hist}]: {what}")
    return None


def shrink_session(chk, sess, sig):
    def fails(x):
        try:
            r = judge_session(chk, x)
        except core.LeanError:
            raise
        except Exception:
            return False
        return r is not None and r[1] == sig

    cur = copy.deepcopy(sess)
    for n in range(len(cur["steps"])):            # shortest failing prefix
        cand = dict(cur, steps=cur["steps"][:n])
        if fails(cand):
            cur = cand
            break
    cur["steps"] = gens.shrink_list(cur["steps"], lambda ss: fails(dict(cur, steps=ss)), max_rounds=30)
    for s in list(cur["inputs"]):
        cand = dict(cur, inputs=[s])
        if len(cur["inputs"]) > 1 and fails(cand):
            cur = cand
            break
    if not any(st["op"] in ("replace", "remove") for st in cur["steps"]):
        used = {st["var"] for st in cur["steps"] if "var" in st}

        def f2(cs):
            if not cs or (cur["mode"] == "list" and comps_M(cs) != len(cur["inputs"][0])):
                return False
            if not used <= {c.get("var") for _, c in cs}:
                return False
            return fails(dict(cur, comps=cs))
        cur["comps"] = gens.shrink_list(cur["comps"], f2, max_rounds=40)
    if cur["filter"]:
        cand = dict(cur, filter=0)
        if fails(cand):
            cur = cand
    return cur


def handle_session(chk, sess):
    ops = [st["op"] for st in sess["steps"]]
    chk.count("session_mode", sess["mode"])
    chk.count("session_steps", len(ops))
    for o in ops:
        chk.count("session_op", o)
    lvars = [c["var"] for _, c in sess["comps"] if c["t"] == "LC" and "var" in c]
    set_l = any(st["op"] == "set" and "lc" in st for st in sess["steps"])
    if set_l and sess["mode"] == "processor":
        chk.branch("session-loss-parameter-changed-processor")
    if set_l and sess["mode"] == "list":
        chk.branch("session-loss-parameter-changed-set-circuit-same-list")
    if any(st["op"] == "set" and "phi" in st for st in sess["steps"]):
        chk.branch("session-phase-parameter-changed")
    if len(set(lvars)) < len(lvars):
        chk.branch("session-shared-loss-parameter")
    if "add" in ops and sess["mode"] == "processor":
        chk.branch("session-processor-add-after-query")
    if sess["mode"] == "list" and any(o in ("add", "replace", "remove") for o in ops):
        chk.branch("session-list-edited-in-place")
    if "filter" in ops:
        chk.branch("session-filter-changed")
    if "inputs" in ops:
        chk.branch("session-input-changed")
    if "set-bad" in ops:
        chk.branch("session-out-of-range-loss-rejected")
    if "query" in ops:
        chk.branch("session-repeated-query")
    res = judge_session(chk, sess)
    chk.case(("session",) + signature(dict(sess, comps=[[r0, c] for r0, c in sess["comps"]]))
             + (json.dumps(sess["steps"], sort_keys=True),),
             nontrivial=any(o in ("set", "add", "replace", "remove") for o in ops),
             sample={"session": sess["mode"], "m": sess["m"],
                     "comps": [(r0, c["t"], c.get("var")) for r0, c in sess["comps"]][:8], "steps": ops})
    if res is not None:
        kind, sig, what = res
        small = shrink_session(chk, sess, sig)
        try:
            again = judge_session(chk, small)
            if again is not None and again[1] == sig:
                what = again[2]
        except core.LeanError:
            raise
        except Exception:
            pass
        chk.fail(kind, sig, what, {"session": small})


# ------------------------------------------------------------------------------------------------
# DensityMatrix.apply_loss
# ------------------------------------------------------------------------------------------------
def gen_dm_case(rng):
    m = rng.randint(1, 3)
    k = rng.randint(1, 3)
    states = []
    for _ in range(k):
        n = rng.randint(0, 3)
        s = [0] * m
        for _ in range(n):
            s[rng.randrange(m)] += 1
        if s not in states:
            states.append(s)
    kind = rng.choice(["bs", "sv", "svd"]) if len(states) > 1 else "bs"
    if kind == "bs":
        states = states[:1]
    weights = [rng.randint(1, 5) for _ in states]
    modes = sorted(rng.sample(range(m), rng.randint(1, m)))
    p = rng.choice([Fraction(0), Fraction(1), Fraction(9, 25), Fraction(16, 25), Fraction(1, 2), Fraction(1, 3),
                    Fraction(25, 169), Fraction(7, 10)])
    case = {"m": m, "kind": kind, "states": states, "weights": weights, "modes": modes,
            "p": core.rat(p), "as_int": len(modes) == 1 and rng.random() < 0.5}
    if rng.random() < 0.3:      # further losses applied to the same DensityMatrix object
        case["then"] = [{"modes": sorted(rng.sample(range(m), rng.randint(1, m))),
                         "p": core.rat(rng.choice([Fraction(0), Fraction(1), Fraction(9, 25), Fraction(1, 2),
                                                   Fraction(1, 3), Fraction(144, 169)]))}
                        for _ in range(rng.randint(1, 2))]
    return case


def dm_steps(case):
    """[(modes, p as Fraction)] in the order they are applied"""
    return [(case["modes"], Fraction(case["p"]))] + [(t["modes"], Fraction(t["p"])) for t in case.get("then", [])]


def dm_observe(case):
    import perceval as pcvl
    from perceval.utils.density_matrix import DensityMatrix
    sts = [pcvl.BasicState(s) for s in case["states"]]
    if case["kind"] == "bs":
        src = sts[0]
    elif case["kind"] == "sv":
        sv = pcvl.StateVector()
        for s, w in zip(sts, case["weights"]):
            sv += float(w) * pcvl.StateVector(s)
        src = sv
    else:
        tot = sum(case["weights"])
        src = pcvl.SVDistribution({pcvl.StateVector(s): w / tot for s, w in zip(sts, case["weights"])})
    dm = DensityMatrix.from_svd(src)
    inv = {i: tuple(int(x) for x in s) for s, i in dm.index.items()}
    d0 = dm.mat.toarray()
    before = {inv[i]: float(d0[i, i].real) for i in inv if d0[i, i] != 0}
    p = float(Fraction(case["p"]))
    dm.apply_loss(case["modes"][0] if case["as_int"] else list(case["modes"]), p)
    for modes, q in dm_steps(case)[1:]:
        dm.apply_loss(list(modes), float(q))
    d1 = dm.mat.toarray()
    after = {inv[i]: float(d1[i, i].real) for i in inv if abs(d1[i, i]) > 0}
    herm = float(np.max(np.abs(d1 - d1.conj().T))) if d1.size else 0.0
    return before, after, p, herm


def lc_reference(case, before):
    """the same loss through LC components (real code), mixture over the diagonal of the input"""
    import perceval as pcvl
    from perceval.components import LC
    out = {}
    for s, w in before.items():
        proc = pcvl.Processor("SLOS", case["m"])
        for modes, q in dm_steps(case):
            for md in modes:
                proc.add(md, LC(float(q)))
        proc.min_detected_photons_filter(0)
        proc.with_input(pcvl.BasicState(list(s)))
        for k, v in bsd_to_dict(proc.probs(precision=0)["results"]).items():
            out[k] = out.get(k, 0.0) + w * v
    return out


def handle_dm(chk, case):
    chk.count("dm_kind", case["kind"])
    chk.count("dm_p", case["p"])
    chk.branch("dm-apply-loss")
    if len(case["modes"]) > 1:
        chk.branch("dm-several-modes")
    if case.get("then"):
        chk.branch("dm-repeated-loss")
    before, after, p, herm = dm_observe(case)
    diag = [[list(k), core.rat(v)] for k, v in sorted(before.items())]
    cur = diag
    for modes, q in dm_steps(case):
        for md in modes:
            # the float the real code received (exact), so that the model sees the same number
            rep = chk.lean.ask({"op": "dmloss", "mode": md, "p": core.rat(float(q)), "diag": cur})
            if "err" in rep:
                chk.fail("broken", "dm-model-rejects", f"the model rejects a density-matrix case ({rep['err']})",
                         {"dm": case})
                return
            cur = rep["diag"]
    exact = {tuple(k): Fraction(v) for k, v in cur}
    chk.case(("dm", case["m"], case["kind"], tuple(case["modes"]), case["p"], tuple(map(tuple, case["states"])),
              json.dumps(case.get("then", []))),
             nontrivial=any(s[md] >= 1 for s in case["states"] for md in case["modes"]) and case["p"] not in ("0", "1"),
             sample=None)
    bad = dist_close(after, exact)
    tr = sum(after.values())
    if bad or not core.close(tr, sum(before.values())):
        # direct statement of the property: same statistics as the loss channel of the circuit model
        ref = lc_reference(case, before)
        rbad = dist_close(after, {k: Fraction(*v.as_integer_ratio()) for k, v in ref.items()}, 1e-7)
        if rbad or abs(tr - sum(before.values())) > 1e-7:
            chk.fail("violation", "dm-loss-differs-from-lc",
                     f"DensityMatrix.apply_loss {[(m_, float(q_)) for m_, q_ in dm_steps(case)]} gives a diagonal differing from the LC "
                     f"simulation of the same loss by {rbad:.3g} (trace {tr!r})", {"dm": case})
        else:
            chk.fail("broken", "dm-model-vs-code", f"model and DensityMatrix.apply_loss disagree by {bad:.3g}",
                     {"dm": case})
        return
    # cross-check on a subset: the LC simulation gives the same statistics (real code against real code via the model)
    if chk.rng.random() < 0.25:
        ref = lc_reference(case, before)
        if dist_close(ref, exact):
            chk.fail("violation", "dm-loss-differs-from-lc",
                     "LC simulation and DensityMatrix.apply_loss give different statistics for the same loss",
                     {"dm": case})


# ------------------------------------------------------------------------------------------------
# layer choice
# ------------------------------------------------------------------------------------------------
def handle_layers(chk):
    from perceval.components import BS, LC, TD
    from perceval.simulators import SimulatorFactory
    for has_lc in (False, True):
        for has_td in (False, True):
            lst = [((0, 1), BS())]
            if has_td:
                lst.append(((0,), TD(1)))
            if has_lc:
                lst.append(((1,), LC(0.36)))
            lst.append(((0, 1), BS()))
            sim = SimulatorFactory.build(lst)
            chain = [type(sim).__name__]
            cur = sim
            while hasattr(cur, "_simulator"):     # soft: private attribute, skipped when absent
                cur = cur._simulator
                chain.append(type(cur).__name__)
            rep = chk.lean.ask({"op": "layers", "lc": has_lc, "td": has_td, "polar": False, "ff": False})
            want = list(reversed(rep["layers"]))
            chk.case(("layers", has_lc, has_td), nontrivial=False)
            chk.branch("layer-choice")
            ok = chain[0] == want[0] and (len(chain) == 1 or chain == want)
            if not ok:
                chk.fail("violation" if has_lc and chain[0] != "LossSimulator" else "broken", "layer-choice",
                         f"SimulatorFactory.build(lc={has_lc}, td={has_td}) built {chain}, the model says {want}",
                         {"layers": [has_lc, has_td]})


def handle_thinning(chk):
    """model self-check: the closed form of theorem `binomial_thinning` against the permanents (exact)"""
    for n in range(0, 5):
        for a, b, h in [(3, 4, 5), (1, 0, 1), (0, 1, 1), (12, 5, 13)]:
            rep = chk.lean.ask({"op": "thin", "n": n, "c": core.rat(Fraction(a, h)), "s": core.rat(Fraction(b, h))})
            chk.case(("thin", n, a, h), nontrivial=False)
            if rep["perm"] != rep["closed"] or sum(Fraction(x) for x in rep["perm"]) != 1:
                chk.fail("broken", "thinning-closed-form", "permanent-based thinning law differs from C(n,k) t^k (1-t)^(n-k)",
                         {"n": n, "c": [a, h]})


# ------------------------------------------------------------------------------------------------
def load_corpus():
    out = []
    if os.environ.get("VERIF_C07_NO_CORPUS"):      # development aid: what does the generator find on its own?
        return out
    for p in sorted(glob.glob(os.path.join(core.VERIF, "corpus", "C07", "*.json"))):
        out.append(json.load(open(p)))
    return out


def silence_logger():
    try:
        from perceval.utils.logging import get_logger, channel, level
        for ch in (channel.user, channel.general, channel.resources):
            get_logger().set_level(level.off, ch)
    except Exception:
        pass


def run(chk: core.Check):
    silence_logger()
    chk.rule = ("random programs: 1-4 modes, 1-4 (thorough 6) LC channels with loss in {0, 1, (b/h)^2 for Pythagorean "
                "triples} interleaved with 0-5 BS/PS/PERM/Unitary leaves, 35% of channels on one 'hot' mode, 1-3 inputs "
                "with 0-3 photons, through Processor.probs (cached-simulator path on later inputs) and "
                "SimulatorFactory.build(list).probs/probs_svd, backends SLOS/Naive/SLAP, photon filter 0/1/2, 10% "
                "malformed; distinct = (m, entry point, positions+kinds+loss values, filter); non-trivial = at least two "
                "channels interleaved with a unitary, one on an interior mode or two on the same mode. "
                "Sessions (quick 90 / thorough 600): ONE long-lived Processor or SimulatorFactory.build(list) simulator "
                "queried after each of 1-4 steps: the loss of a channel given by a variable Parameter (possibly shared "
                "by several channels) or the phase of a PS changes (set_value, incl. to 0 and 1; an out-of-range value "
                "must be rejected and change nothing), a component is added (Processor.add / list.append), the list is "
                "edited in place (replace, delete) and handed again to set_circuit as the same object, the photon "
                "filter or the input changes, or nothing changes; every answer is compared with the model for the "
                "values at the time of the query, a failing one also with a fresh object; distinct = (program, steps), "
                "non-trivial = a value or the list changes between two queries. "
                "DensityMatrix.apply_loss cases (30% with 1-2 further losses on the same object): distinct (m, source "
                "kind, modes, p, states, further losses), non-trivial = a lossy mode is populated and 0 < p < 1")
    chk.assumptions = [
        "leaf matrices are taken from each leaf's own compute_unitary() (their correctness is C14)",
        "the strong-simulation backends return the Fock-space probabilities of the matrix they are given (C02)",
        "perfect source, Fock-state inputs, no heralds/post-selection (conditioning is C04, noisy sources C06)",
        "normalisation of the enlarged distribution (sum of |perm|^2/... = 1 for a unitary matrix) is not proved in "
        "Lean; the exact mass of the model's enlarged distribution is computed on every case and checked to be 1 "
        "up to the rounding of the float leaf matrices (1e-12)",
    ]
    chk.required_branches = ["perm-branch", "adjacent-branch", "perm-after-earlier-channel", "two-channels-same-mode",
                             "loss-0", "loss-1", "via-processor", "via-list", "photon-filter", "rejected",
                             "dm-apply-loss", "dm-several-modes", "dm-repeated-loss", "layer-choice",
                             "session-loss-parameter-changed-processor",
                             "session-loss-parameter-changed-set-circuit-same-list",
                             "session-phase-parameter-changed", "session-shared-loss-parameter",
                             "session-processor-add-after-query", "session-list-edited-in-place",
                             "session-filter-changed", "session-input-changed",
                             "session-out-of-range-loss-rejected", "session-repeated-query"]
    chk.lean = core.LeanDriver("C07")
    rng = chk.rng
    for item in load_corpus():
        replay_item(chk, item)
    guarded(chk, "layer-choice", {"layers": []}, handle_layers, chk)
    handle_thinning(chk)
    n = chk.pick(220, 2500)
    max_lc = chk.pick(4, 6)
    for i in range(n):
        if rng.random() < 0.1:
            prog = gen_malformed(rng, chk)
        else:
            prog = gen_program(rng, chk, max_lc=max_lc)
        handle(chk, prog)
    for i in range(chk.pick(90, 600)):
        handle_session(chk, gen_session(rng, chk, max_lc=chk.pick(3, 4)))
    for i in range(chk.pick(120, 1200)):
        case = gen_dm_case(rng)
        guarded(chk, "dm-apply-loss", {"dm": case}, handle_dm, chk, case)


def guarded(chk, what, replay, fn, *args):
    """an exception of the real code outside the program runner is a finding, not a harness crash"""
    try:
        fn(*args)
    except core.LeanError:
        raise
    except Exception as e:
        import traceback
        tb = traceback.extract_tb(e.__traceback__)
        in_repo = any("perceval" in (fr.filename or "") for fr in tb)
        if not in_repo:
            raise
        chk.fail("violation", what + "-raises", f"{what}: the implementation raised {type(e).__name__}: {str(e)[:160]}",
                 replay)


def replay_item(chk, item):
    if "program" in item:
        handle(chk, item["program"])
    elif "session" in item:
        handle_session(chk, item["session"])
    elif "dm" in item:
        guarded(chk, "dm-apply-loss", item, handle_dm, chk, item["dm"])
    elif "layers" in item:
        guarded(chk, "layer-choice", item, handle_layers, chk)
    else:
        handle_thinning(chk)


def replay(chk, data):
    silence_logger()
    chk.lean = core.LeanDriver("C07")
    chk.rule = "replay of one stored case"
    replay_item(chk, data["replay"])
