"""C07 — a loss channel acts as independent photon loss at the point where it is placed.

Correspondence.  Random programs (unitary components BS/PS/PERM/Unitary interleaved with several LC channels on
interior modes, several on the same mode) are run through the public entry points
`Processor(...).probs()` and `SimulatorFactory.build(list).probs / probs_svd` at precision 0.  The Lean driver
(`Driver/C07.lean`) receives the very matrices the real leaves report (dyadic rationals) and the channel
amplitudes c = sqrt(1-loss), s = sqrt(loss) as exact rationals, builds the enlarged matrix *twice* — through its
model of `_simulate_losses_with_beam_splitters` and through the direct specification (two-mode block on
(mode, fresh mode)) —, checks they are equal, evaluates the exact Fock-space distribution and marginalises.
`DensityMatrix.apply_loss` is compared on the diagonal with the model of the Kraus weights and with the LC
simulation of the same loss, and as a whole complex matrix with the model of the Kraus map.  The amplitude-level
paths `LossSimulator.evolve` (`_postprocess_sv_impl`) and `LC.apply`, and a noisy source in front of loss channels,
are compared with `Model/C07SV.lean` (formal amplitudes a*sqrt(q)).  Sessions keep ONE Processor / simulator alive over several queries while loss and
phase Parameters, the component list, the filter and the input change in between: every answer must be the one
for the values at the time of the query (Lean: `session_history_independent`).  A direct oracle independent of Lean (numpy permanents of the enlarged lossless
circuit) classifies disagreements.
Extension 3: (a) programs of loss channels and phase shifters only, photons on every mode — the real distribution
against the exact product of binomials and against `thinSpect` (Lean: `lc_thinning_with_spectators`);
(b) heralds, post-selection, photon filter (herald photons added) and keep_heralds on top of the loss layer
(`ASimulatorDecorator._postprocess_bsd`) through `set_selection`/`keep_heralds`/`probs`/`probs_svd` and through
`Processor.add_herald`/`set_postselection`/`min_detected_photons_filter` (Lean: `loss_selection_is_conditioning`).
"""
from __future__ import annotations

import copy
import glob
import itertools
import json
import math
import os
from fractions import Fraction

# tiny matrices only: BLAS/OpenMP worker threads cost more (system time) than they give
for _v in ("OMP_NUM_THREADS", "OPENBLAS_NUM_THREADS", "MKL_NUM_THREADS"):
    os.environ.setdefault(_v, "1")

import numpy as np  # noqa: E402

from . import core, gens  # noqa: E402

# c = a/h = sqrt(1 - loss), s = b/h = sqrt(loss)
LC_TRIPLES = [(3, 4, 5), (4, 3, 5), (5, 12, 13), (12, 5, 13), (8, 15, 17), (15, 8, 17), (7, 24, 25), (24, 7, 25),
              (20, 21, 29), (21, 20, 29)]
TOL = core.TOL


# ------------------------------------------------------------------------------------------------
# generation
# ------------------------------------------------------------------------------------------------
def gen_lc(rng):
    r = rng.random()
    if r < 0.10:
        a, b, h = 1, 0, 1          # loss 0
    elif r < 0.20:
        a, b, h = 0, 1, 1          # loss 1
    else:
        a, b, h = rng.choice(LC_TRIPLES)
    return {"t": "LC", "a": a, "b": b, "h": h}


def lc_loss(spec) -> Fraction:
    if "loss" in spec:
        return Fraction(spec["loss"])
    return Fraction(spec["b"] * spec["b"], spec["h"] * spec["h"])


def width(spec):
    return 1 if spec["t"] in ("LC", "TD") else gens.leaf_width(spec)


def gen_program(rng, chk, max_m=4, max_lc=4, max_n=3):
    m = rng.randint(2, max_m) if rng.random() < 0.9 else 1
    n_lc = rng.randint(1, max_lc)
    n_uni = rng.randint(0, 5)
    kinds = ["LC"] * n_lc + ["U"] * n_uni
    rng.shuffle(kinds)
    comps = []
    hot = rng.randrange(m)     # several channels on one mode
    for k in kinds:
        if k == "LC":
            r0 = hot if rng.random() < 0.35 else rng.randrange(m)
            comps.append([r0, gen_lc(rng)])
        else:
            leaf = gens.gen_leaf(rng, m, kinds=("BS", "BS", "PS", "PERM", "U", "UH") if m >= 2 else ("PS", "U"))
            w = gens.leaf_width(leaf)
            if w > m:
                continue
            comps.append([rng.randint(0, m - w), leaf])
    mode = rng.choice(["processor", "processor", "list"])
    if mode == "list":
        mm = max(r0 + width(c) for r0, c in comps)
    else:
        mm = m
    inputs = []
    for _ in range(rng.randint(1, 3)):
        n = rng.choice([0, 1, 1, 2, 2, 2, 3, 3]) if max_n >= 3 else rng.randint(0, max_n)
        s = [0] * mm
        for _ in range(n):
            s[rng.randrange(mm)] += 1
        if s not in inputs:
            inputs.append(s)
    return {"m": m, "mode": mode, "backend": rng.choice(["SLOS", "SLOS", "Naive", "SLAP"]), "comps": comps,
            "inputs": inputs, "filter": rng.choice([0, 0, 0, 0, 1, 2]), "malformed": None}


def gen_malformed(rng, chk):
    prog = gen_program(rng, chk)
    prog["mode"] = "processor"
    m = prog["m"]
    prog["inputs"] = [[1] + [0] * (m - 1)]
    kind = rng.choice(["loss-range", "lc-mode", "uni-mode", "input-size"])
    if kind == "loss-range":
        bad = rng.choice(["3/2", "-1/10", "101/100", "-1"])
        prog["comps"].insert(rng.randint(0, len(prog["comps"])), [rng.randrange(m), {"t": "LC", "loss": bad}])
    elif kind == "lc-mode":
        prog["comps"].insert(rng.randint(0, len(prog["comps"])), [m + rng.randint(0, 1), gen_lc(rng)])
    elif kind == "uni-mode":
        prog["comps"].insert(rng.randint(0, len(prog["comps"])), [m, {"t": "PS", "phi": gens.gen_cs(rng)}])
    else:
        prog["inputs"] = [[1] + [0] * (m - 2 if m >= 2 and rng.random() < 0.5 else m)]
    prog["malformed"] = kind
    return prog


# ------------------------------------------------------------------------------------------------
# the real code
# ------------------------------------------------------------------------------------------------
def build_comp(spec):
    from perceval.components import LC
    if spec["t"] == "LC":
        return LC(float(lc_loss(spec)))
    return gens.build_leaf(spec)


def snapshot_mats(comps, objs):
    """the leaves' own numeric matrices *now* (a parameter may change later): None for a loss channel"""
    out = []
    for (r0, spec), obj in zip(comps, objs):
        out.append(None if spec["t"] == "LC" else
                   np.array(obj.compute_unitary(use_symbolic=False), dtype=complex))
    return out


def lean_request(prog, mats):
    comps = []
    for (r0, spec), mat in zip(prog["comps"], mats):
        if spec["t"] == "LC":
            if "loss" in spec:
                comps.append({"r": r0, "lc": ["0", "0"], "loss": spec["loss"]})
            else:
                comps.append({"r": r0, "lc": [core.rat(Fraction(spec["a"], spec["h"])),
                                              core.rat(Fraction(spec["b"], spec["h"]))],
                              "loss": core.rat(lc_loss(spec))})
        else:
            if mat is None:
                raise ValueError("no matrix for a unitary component")
            comps.append({"r": r0, "k": int(mat.shape[0]), "U": core.mat(mat.tolist())})
    return {"op": "probs", "m": prog["m"] if prog["mode"] == "processor" else None, "comps": comps,
            "inputs": prog["inputs"]}


def bsd_to_dict(bsd):
    return {tuple(int(x) for x in k): float(v) for k, v in bsd.items()}


REAL_ERRORS = (AssertionError, ValueError, RuntimeError, TypeError, IndexError, KeyError)


def is_repo_error(e):
    return isinstance(e, REAL_ERRORS) or type(e).__module__.startswith(("perceval", "exqalibur"))


def query_processor(p, inputs):
    import perceval as pcvl
    runs = []
    for s in inputs:
        p.with_input(pcvl.BasicState(s))
        res = p.probs(precision=0)        # 2nd and later calls reuse the cached simulator (set_circuit path)
        runs.append({"input": s, "via": "Processor.probs", "results": bsd_to_dict(res["results"]),
                     "physical_perf": float(res["physical_perf"]), "logical_perf": float(res["logical_perf"])})
    return runs


def query_simulator(sim, inputs, f):
    import perceval as pcvl
    runs = []
    for s in inputs:
        # unfiltered distribution through probs(BasicState)
        sim.set_min_detected_photons_filter(0)
        d0 = bsd_to_dict(sim.probs(pcvl.BasicState(s)))
        runs.append({"input": s, "via": "build(list).probs", "results": d0, "physical_perf": None,
                     "logical_perf": None, "filter": 0})
        sim.set_min_detected_photons_filter(f)
        res = sim.probs_svd(pcvl.SVDistribution(pcvl.BasicState(s)))
        runs.append({"input": s, "via": "build(list).probs_svd", "results": bsd_to_dict(res["results"]),
                     "physical_perf": float(res["physical_perf"]), "logical_perf": float(res["logical_perf"])})
    return runs


def observe(prog):
    """Run the real code on a fresh object.
    -> {"err": cls, "mats"} or {"runs": [ {input, results, physical_perf, logical_perf} ], "mats": [...], "layer"}"""
    import perceval as pcvl
    from perceval.simulators import SimulatorFactory
    objs = []
    mats = []
    try:
        for r0, spec in prog["comps"]:
            objs.append(build_comp(spec))
        mats = snapshot_mats(prog["comps"], objs)
        f = prog["filter"]
        if prog["mode"] == "processor":
            p = pcvl.Processor(prog["backend"], prog["m"])
            for (r0, spec), obj in zip(prog["comps"], objs):
                p.add(r0, obj)
            p.min_detected_photons_filter(f)
            runs = query_processor(p, prog["inputs"])
            layer = None
        else:
            lst = [(tuple(range(r0, r0 + obj.m)), obj) for (r0, spec), obj in zip(prog["comps"], objs)]
            sim = SimulatorFactory.build(lst, prog["backend"])
            sim.set_precision(0)
            layer = type(sim).__name__
            runs = query_simulator(sim, prog["inputs"], f)
        return {"runs": runs, "mats": mats, "layer": layer}
    except Exception as e:   # incl. perceval's own exception classes (UnavailableModeException, ...)
        if is_repo_error(e):
            return {"err": type(e).__name__, "msg": str(e)[:200], "mats": mats}
        raise


# ------------------------------------------------------------------------------------------------
# expected values from an exact unfiltered distribution
# ------------------------------------------------------------------------------------------------
def expected_filtered(dist: dict, f: int):
    """dist: {state tuple: Fraction}.  -> (results dict, physical_perf) as the property states them."""
    if not f:
        return dict(dist), Fraction(1)
    kept = {k: v for k, v in dist.items() if sum(k) >= f}
    mass = sum(kept.values(), Fraction(0))
    if mass == 0:
        return {}, Fraction(0)
    return {k: v / mass for k, v in kept.items()}, mass


def dist_close(real: dict, exact: dict, tol=TOL):
    worst = 0.0
    for k in set(real) | set(exact):
        x = real.get(k, 0.0)
        xh = float(exact.get(k, 0))
        d = abs(x - xh)
        if d > tol + tol * abs(xh):
            worst = max(worst, d)
    return worst


# ------------------------------------------------------------------------------------------------
# direct oracle, independent of the Lean driver: numpy permanents of the enlarged lossless circuit
# ------------------------------------------------------------------------------------------------
def perm_np(a):
    n = a.shape[0]
    if n == 0:
        return 1.0 + 0j
    tot = 0j
    for sg in itertools.permutations(range(n)):
        pr = 1.0 + 0j
        for i in range(n):
            pr *= a[sg[i], i]
        tot += pr
    return tot


def all_states(m, n):
    if m == 0:
        return [[]] if n == 0 else []
    out = []
    for k in range(n, -1, -1):
        for r in all_states(m - 1, n - k):
            out.append([k] + r)
    return out


def oracle_matrix(prog, mats):
    """the property's enlarged lossless circuit: original components where they were placed; each channel a
    BS.H-type block [[c, s], [s, -c]] on (its mode, its own fresh mode)"""
    if prog["mode"] == "processor":
        M = prog["m"]
    else:
        M = max(r0 + width(c) for r0, c in prog["comps"])
    n_lc = sum(1 for _, c in prog["comps"] if c["t"] == "LC")
    N = M + n_lc
    u = np.eye(N, dtype=complex)
    fresh = M
    for (r0, spec), mat in zip(prog["comps"], mats):
        e = np.eye(N, dtype=complex)
        if spec["t"] == "LC":
            loss = float(lc_loss(spec))
            c, s = math.sqrt(1 - loss), math.sqrt(loss)
            e[r0, r0], e[r0, fresh], e[fresh, r0], e[fresh, fresh] = c, s, s, -c
            fresh += 1
        elif spec["t"] == "PS":
            # from the specification value, not from the (possibly parametrised, long-lived) object
            e[r0, r0] = complex(float(Fraction(spec["phi"][0])), float(Fraction(spec["phi"][1])))
        else:
            k = mat.shape[0]
            e[r0:r0 + k, r0:r0 + k] = mat
        u = e @ u
    return u, M, N


def oracle_dist(u, M, N, s):
    sp = list(s) + [0] * (N - M)
    n = sum(sp)
    cols = [i for i, c in enumerate(sp) for _ in range(c)]
    out = {}
    fs = math.prod(math.factorial(x) for x in sp)
    for t in all_states(N, n):
        rows = [i for i, c in enumerate(t) for _ in range(c)]
        a = u[np.ix_(rows, cols)] if n else np.zeros((0, 0))
        p = abs(perm_np(a)) ** 2 / (fs * math.prod(math.factorial(x) for x in t))
        key = tuple(t[:M])
        out[key] = out.get(key, 0.0) + p
    return out


# ------------------------------------------------------------------------------------------------
def judge(chk, prog):
    """a fresh Processor / simulator for this program -> None or (kind, signature, what)"""
    return judge_obs(chk, prog, observe(prog))


def judge_obs(chk, prog, obs):
    """`obs`: what the real code answered for the (effective) program `prog` -> None or (kind, signature, what)"""
    try:
        req = lean_request(prog, obs["mats"] + [None] * (len(prog["comps"]) - len(obs["mats"])))
    except Exception:
        req = None
    if "err" in obs:
        chk.branch("rejected")
        if req is None:
            # a component could not even be constructed (LC out of range): ask the model with placeholders
            comps = []
            for r0, spec in prog["comps"]:
                if spec["t"] == "LC":
                    comps.append({"r": r0, "lc": ["0", "0"] if "loss" in spec else
                                  [core.rat(Fraction(spec["a"], spec["h"])), core.rat(Fraction(spec["b"], spec["h"]))],
                                  "loss": spec.get("loss", core.rat(lc_loss(spec)))})
                else:
                    w = gens.leaf_width(spec)
                    comps.append({"r": r0, "k": w, "U": [[["1" if i == j else "0", "0"] for j in range(w)]
                                                         for i in range(w)]})
            req = {"op": "probs", "m": prog["m"] if prog["mode"] == "processor" else None, "comps": comps,
                   "inputs": prog["inputs"]}
        rep = chk.lean.ask(req)
        if "err" in rep:
            return None
        return ("violation", "rejects-admissible-program",
                f"the real API raised {obs['err']} ({obs.get('msg')}) on a program the model accepts")
    rep = chk.lean.ask(req)
    if "err" in rep:
        return ("violation", "accepts-inadmissible-program",
                f"the real API accepted a program the model rejects ({rep['err']})")
    if not rep["same"]:
        return ("broken", "rewrite-vs-spec",
                "the model of the rewrite and the two-mode-block specification give different matrices")
    if prog["mode"] == "list" and obs["layer"] != "LossSimulator":
        return ("violation", "loss-layer-missing", f"SimulatorFactory.build returned a {obs['layer']} for a list with LC")
    by_input = {}
    for s, dj, mass in zip(prog["inputs"], rep["dists"], rep["mass"]):
        if abs(float(Fraction(mass) - 1)) > 1e-12:   # leaves are float (dyadic) matrices: unitary up to rounding
            return ("broken", "enlarged-mass", f"the model's enlarged distribution has mass {mass}")
        by_input[tuple(s)] = {tuple(k): Fraction(v) for k, v in dj}
    umat = None
    for run in obs["runs"]:
        exact = by_input[tuple(run["input"])]
        f = run.get("filter", prog["filter"])
        probs = compare_run(run, exact, f, rep["M"], TOL)
        if not probs:
            continue
        # disagreement: evaluate the property directly on the implementation
        if "shape" in probs:
            return ("violation", "output-not-on-original-modes",
                    f"{run['via']} returned states that are not on the {rep['M']} original modes")
        if "norm" in probs:
            return ("violation", "not-normalised",
                    f"{run['via']} returned a distribution of total mass {sum(run['results'].values())!r}")
        if umat is None:
            umat = oracle_matrix(prog, obs["mats"])
        od = oracle_dist(*umat, run["input"])
        odf = {k: Fraction(*float(v).as_integer_ratio()) for k, v in od.items()}
        oprobs = compare_run(run, odf, f, rep["M"], 1e-7)
        if "dist" in oprobs:
            return ("violation", "loss-distribution-differs",
                    f"{run['via']} on input {run['input']} (photon filter {f}) differs from the enlarged lossless "
                    f"circuit (each LC a BS of transmission 1-loss to a fresh vacuum mode) by {oprobs['dist']:.3g}")
        if "perf" in oprobs:
            return ("violation", "loss-physical-perf",
                    f"{run['via']} on input {run['input']} reports physical_perf {run['physical_perf']!r}, "
                    f"the retained mass is {oprobs['perf']!r}")
        if "lperf" in probs:
            return ("violation", "loss-logical-perf", f"logical_perf {run['logical_perf']!r} without any post-selection")
        return ("broken", "model-vs-code", f"Lean model and {run['via']} disagree ({probs}) on input {run['input']} "
                                           "but the numpy oracle agrees with the implementation")
    return None


def compare_run(run, exact, f, M, tol):
    """Compare one observed run with an exact unfiltered distribution {state: Fraction}.

    Under a photon filter the implementation returns the conditional distribution and the retained mass
    (`physical_perf`).  The retained mass can be arbitrarily small (1e-11 happens with loss 1 next to the filter), and
    the simulator drops outcomes below its documented floor `min_p = 1e-16`; dividing by the retained mass would
    amplify that floor above any fixed tolerance.  So the comparison is made on the *joint* probabilities
    `results[t] * physical_perf` against the exact `p(t)` of the kept outcomes (absolute+relative 1e-9), on
    `physical_perf` against the exact retained mass, and on `sum(results) = 1`.  -> dict of problems (empty = agree)
    """
    out = {}
    res = run["results"]
    if any(len(k) != M for k in res):
        out["shape"] = True
        return out
    if res and not core.close(sum(res.values()), 1.0):
        out["norm"] = True
    want, mass = expected_filtered(exact, f)
    perf = run["physical_perf"]
    if perf is None:            # probs(): no performance returned; only used with filter 0
        perf = 1.0
    elif abs(perf - float(mass)) > tol + tol * float(mass):
        out["perf"] = float(mass)
    worst = 0.0
    for k in set(res) | set(want):
        x = res.get(k, 0.0) * perf
        xh = float(exact.get(k, 0)) if (k in want or (not f) or sum(k) >= f) else 0.0
        d = abs(x - xh)
        if d > tol + tol * abs(xh):
            worst = max(worst, d)
    if worst:
        out["dist"] = worst
    if run["logical_perf"] is not None and float(mass) > 1e-6 and not core.close(run["logical_perf"], 1.0):
        out["lperf"] = True
    return out


def shrink(chk, prog, sig):
    def fails(p):
        try:
            r = judge(chk, p)
        except core.LeanError:
            raise
        except Exception:
            return False
        return r is not None and r[1] == sig

    cur = copy.deepcopy(prog)
    # one input
    for s in list(cur["inputs"]):
        cand = dict(cur, inputs=[s])
        if fails(cand):
            cur = cand
            break

    def with_comps(cs):
        c = dict(cur, comps=cs)
        if cur["mode"] == "list":
            mm = max(r0 + width(sp) for r0, sp in cs)
            if any(len(s) != mm for s in c["inputs"]):
                return None
        return c

    def f2(cs):
        c = with_comps(cs)
        return c is not None and fails(c)

    cur["comps"] = gens.shrink_list(cur["comps"], f2, max_rounds=60)
    if cur["filter"]:
        cand = dict(cur, filter=0)
        if fails(cand):
            cur = cand
    return cur


def signature(prog):
    return (prog["m"], prog["mode"], tuple((r0, c["t"], (c.get("a"), c.get("h")) if c["t"] == "LC" else None)
                                           for r0, c in prog["comps"]), prog["filter"])


def nontrivial(prog):
    """several channels, at least one on an interior mode or two on the same mode, interleaved with a unitary"""
    lcs = [r0 for r0, c in prog["comps"] if c["t"] == "LC"]
    kinds = [c["t"] == "LC" for _, c in prog["comps"]]
    inter = any(kinds[i] != kinds[i + 1] for i in range(len(kinds) - 1))
    mm = prog["m"]
    return len(lcs) >= 2 and inter and (len(set(lcs)) < len(lcs) or any(r0 < mm - 1 for r0 in lcs))


def handle(chk, prog):
    lcs = [r0 for r0, c in prog["comps"] if c["t"] == "LC"]
    chk.count("m", prog["m"])
    chk.count("channels", len(lcs))
    chk.count("mode", prog["mode"])
    chk.count("backend", prog["backend"])
    chk.count("filter", prog["filter"])
    for r0, c in prog["comps"]:
        chk.count("kind", c["t"])
        if c["t"] == "LC" and "loss" not in c:
            chk.count("loss", str(lc_loss(c)))
    for s in prog["inputs"]:
        chk.count("n", sum(s))
    if prog["malformed"] is None:
        mm = len(prog["inputs"][0])
        nfm = mm
        for r0, c in prog["comps"]:
            if c["t"] == "LC":
                chk.branch("perm-branch" if r0 != nfm - 1 else "adjacent-branch")
                if nfm > mm and r0 != nfm - 1:
                    chk.branch("perm-after-earlier-channel")
                nfm += 1
        if len(set(lcs)) < len(lcs):
            chk.branch("two-channels-same-mode")
        if any(c["t"] == "LC" and c.get("b") == 0 for _, c in prog["comps"]):
            chk.branch("loss-0")
        if any(c["t"] == "LC" and c.get("a") == 0 for _, c in prog["comps"]):
            chk.branch("loss-1")
        chk.branch("via-" + prog["mode"])
        if prog["filter"]:
            chk.branch("photon-filter")
    res = judge(chk, prog)
    chk.case(signature(prog), nontrivial=nontrivial(prog) and prog["malformed"] is None,
             sample={"m": prog["m"], "mode": prog["mode"], "comps": [(r0, c["t"]) for r0, c in prog["comps"]][:8],
                     "inputs": prog["inputs"][:2]})
    if res is not None:
        kind, sig, what = res
        small = shrink(chk, prog, sig)
        try:
            again = judge(chk, small)          # describe the minimised case, not the original one
            if again is not None and again[1] == sig:
                what = again[2]
        except core.LeanError:
            raise
        except Exception:
            pass
        chk.fail(kind, sig, what, {"program": small})


# ------------------------------------------------------------------------------------------------
# sessions: ONE long-lived Processor / simulator queried several times while its loss (a variable Parameter), a
# phase, the component list, the photon filter or the input change between the queries.  Every answer must be
# the distribution of the enlarged lossless circuit for the values *at the time of the query*
# (Lean: `session_history_independent`).
# ------------------------------------------------------------------------------------------------
BAD_LOSS = ["3/2", "-1/10", "101/100"]


def lc_value(spec):
    return {"a": spec["a"], "b": spec["b"], "h": spec["h"]}


def comps_M(comps):
    return max(r0 + width(c) for r0, c in comps)


def gen_session(rng, chk, max_lc=3):
    prog = gen_program(rng, chk, max_m=4, max_lc=max_lc, max_n=3)
    m, mode, comps = prog["m"], prog["mode"], prog["comps"]
    M = m if mode == "processor" else comps_M(comps)
    lcs = [i for i, (_, c) in enumerate(comps) if c["t"] == "LC"]
    forced = rng.choice(lcs)
    first = {}                 # variable name -> the spec that carries its initial value
    for i, (r0, c) in enumerate(comps):
        if c["t"] == "LC" and (i == forced or rng.random() < 0.5):
            lvars = [v for v in first if v.startswith("eta")]
            if lvars and rng.random() < 0.3:      # one Parameter shared by several channels
                c["var"] = rng.choice(lvars)
                c.update(lc_value(first[c["var"]]))
            else:
                c["var"] = f"eta{i}"
                first[c["var"]] = c
        elif c["t"] == "PS" and rng.random() < 0.6:
            c["var"] = f"phi{i}"
            first[c["var"]] = c

    if not any(v.startswith("phi") for v in first) and rng.random() < 0.4:
        i = rng.randint(0, len(comps))
        c = {"t": "PS", "phi": gens.gen_cs(rng), "var": f"phi_{len(comps)}"}
        comps.insert(i, [rng.randrange(M), c])
        first[c["var"]] = c

    def new_inputs():
        out = []
        for _ in range(rng.randint(1, 2)):
            sst = [0] * M
            for _ in range(rng.choice([1, 2, 2, 3])):
                sst[rng.randrange(M)] += 1
            if sst not in out:
                out.append(sst)
        return out

    def new_comp(cur):
        if rng.random() < 0.6:
            c = gen_lc(rng)
            lvars = sorted({x["var"] for _, x in cur if x["t"] == "LC" and "var" in x})
            if lvars and rng.random() < 0.3:
                c["var"] = rng.choice(lvars)      # the value is the variable's current one (fixed up when run)
            return [rng.randrange(M), c]
        leaf = gens.gen_leaf(rng, M, kinds=("BS", "PS", "PERM", "U") if M >= 2 else ("PS", "U"))
        return [rng.randint(0, M - gens.leaf_width(leaf)), leaf]

    prog["inputs"] = new_inputs()
    cur = copy.deepcopy(comps)
    steps = []
    names = sorted(first)
    for k in range(rng.randint(1, 4)):
        r = rng.random()
        lvars = [v for v in names if v.startswith("eta")]
        if k == 0 and r < 0.7 or r < 0.45:
            v = rng.choice(lvars) if (rng.random() < 0.75 or len(lvars) == len(names)) else \
                rng.choice([x for x in names if not x.startswith("eta")])
            if v.startswith("eta"):
                steps.append({"op": "set", "var": v, "lc": lc_value(gen_lc(rng))})
            else:
                steps.append({"op": "set", "var": v, "phi": gens.gen_cs(rng)})
        elif r < 0.52:
            steps.append({"op": "set-bad", "var": rng.choice(lvars), "loss": rng.choice(BAD_LOSS)})
        elif r < 0.67:
            c = new_comp(cur)
            cur.append(c)
            steps.append({"op": "add", "comp": c})
        elif r < 0.75:
            steps.append({"op": "filter", "value": rng.choice([0, 1, 2])})
        elif r < 0.83:
            steps.append({"op": "inputs", "inputs": new_inputs()})
        elif r < 0.90 or mode == "processor":
            steps.append({"op": "query", "reset": rng.random() < 0.6})
        else:
            i = rng.randrange(len(cur))
            if rng.random() < 0.6:
                c = new_comp(cur)
                cand = cur[:i] + [c] + cur[i + 1:]
                st = {"op": "replace", "index": i, "comp": c}
            else:
                cand = cur[:i] + cur[i + 1:]
                st = {"op": "remove", "index": i}
            if cand and comps_M(cand) == M and any(x["t"] == "LC" for _, x in cand):
                cur = cand
                steps.append(st)
            else:
                steps.append({"op": "query", "reset": True})
    return {"m": m, "mode": mode, "backend": prog["backend"], "comps": comps, "inputs": prog["inputs"],
            "filter": prog["filter"], "steps": steps}


class SessionState:
    """the caller's view of a session: symbolic components + the current value of every variable"""

    def __init__(self, sess):
        self.comps = []
        self.values = {}
        self.filter = sess["filter"]
        self.inputs = sess["inputs"]
        for r0, spec in sess["comps"]:
            self.declare(spec)
            self.comps.append([r0, spec])

    def declare(self, spec):
        v = spec.get("var")
        if v is not None and v not in self.values:
            self.values[v] = lc_value(spec) if spec["t"] == "LC" else spec["phi"]

    def effective(self):
        out = []
        for r0, spec in self.comps:
            v = spec.get("var")
            if v is None:
                out.append([r0, spec])
            elif spec["t"] == "LC":
                out.append([r0, dict({"t": "LC"}, **self.values[v])])
            else:
                out.append([r0, {"t": "PS", "phi": self.values[v]}])
        return out


def observe_session(sess):
    """Run the real code: one long-lived object.  -> {"queries": [{"prog", "obs", "history"}], "layer"}"""
    import perceval as pcvl
    from perceval.components import LC, PS
    from perceval.simulators import SimulatorFactory
    st = SessionState(sess)
    params = {}
    history = ["new"]
    queries = []
    mode = sess["mode"]

    def set_param(v):
        val = st.values[v]
        params[v].set_value(float(lc_loss(val)) if v.startswith("eta") else gens.cs_angle(val))

    def build(spec):
        v = spec.get("var")
        if v is None:
            return build_comp(spec)
        if v not in params:
            params[v] = pcvl.P(v)
            set_param(v)
        return LC(params[v]) if spec["t"] == "LC" else PS(params[v])

    def effective_prog():
        return {"m": sess["m"], "mode": mode, "backend": sess["backend"], "comps": copy.deepcopy(st.effective()),
                "inputs": list(st.inputs), "filter": st.filter, "malformed": None}

    objs = []
    target = {}

    def query():
        prog = effective_prog()
        mats = []
        try:
            mats = snapshot_mats(prog["comps"], objs)
            if mode == "processor":
                runs = query_processor(target["p"], st.inputs)
            else:
                runs = query_simulator(target["sim"], st.inputs, st.filter)
            obs = {"runs": runs, "mats": mats, "layer": target.get("layer")}
        except Exception as e:
            if not is_repo_error(e):
                raise
            obs = {"err": type(e).__name__, "msg": str(e)[:200], "mats": mats}
        queries.append({"prog": prog, "obs": obs, "history": list(history)})
        history.append("query")
        return "err" not in obs

    try:
        for r0, spec in st.comps:
            objs.append(build(spec))
        if mode == "processor":
            p = pcvl.Processor(sess["backend"], sess["m"])
            for (r0, spec), obj in zip(st.comps, objs):
                p.add(r0, obj)
            p.min_detected_photons_filter(st.filter)
            target["p"] = p
        else:
            lst = [(tuple(range(r0, r0 + obj.m)), obj) for (r0, spec), obj in zip(st.comps, objs)]
            sim = SimulatorFactory.build(lst, sess["backend"])
            sim.set_precision(0)
            target["sim"] = sim
            target["layer"] = type(sim).__name__
    except Exception as e:
        if not is_repo_error(e):
            raise
        queries.append({"prog": effective_prog(), "obs": {"err": type(e).__name__, "msg": str(e)[:200], "mats": []},
                        "history": list(history)})
        return {"queries": queries}
    if not query():
        return {"queries": queries}
    for step in sess["steps"]:
        op = step["op"]
        reset = mode == "list"       # the owner of a list tells the simulator about it again
        try:
            if op == "set":
                st.values[step["var"]] = step["lc"] if "lc" in step else step["phi"]
                if step["var"] in params:
                    set_param(step["var"])
                history.append(f"{step['var']}.set_value")
            elif op == "set-bad":
                history.append(f"{step['var']}.set_value(out of range)")
                reset = False
                if step["var"] in params:
                    try:
                        params[step["var"]].set_value(float(Fraction(step["loss"])))
                    except ValueError:
                        pass
                    else:
                        queries.append({"prog": effective_prog(), "obs": {"accepted_bad": step["loss"]},
                                        "history": list(history)})
                        return {"queries": queries}
            elif op == "add":
                r0, spec = step["comp"]
                st.declare(spec)
                obj = build(spec)
                if mode == "processor":
                    target["p"].add(r0, obj)
                    history.append("Processor.add")
                else:
                    lst.append((tuple(range(r0, r0 + obj.m)), obj))
                    history.append("list.append")
                st.comps.append([r0, spec])
                objs.append(obj)
            elif op == "replace" and mode == "list" and step["index"] < len(objs):
                r0, spec = step["comp"]
                st.declare(spec)
                obj = build(spec)
                i = step["index"]
                lst[i] = (tuple(range(r0, r0 + obj.m)), obj)
                st.comps[i] = [r0, spec]
                objs[i] = obj
                history.append("list[i] = ...")
            elif op == "remove" and mode == "list" and step["index"] < len(objs) and len(objs) > 1:
                i = step["index"]
                del lst[i]
                del st.comps[i]
                del objs[i]
                history.append("del list[i]")
            elif op == "filter":
                st.filter = step["value"]
                reset = False
                if mode == "processor":
                    target["p"].min_detected_photons_filter(st.filter)
                history.append("filter")
            elif op == "inputs":
                st.inputs = step["inputs"]
                reset = False
                history.append("input")
            else:
                reset = reset and bool(step.get("reset"))
            if reset:
                target["sim"].set_circuit(lst)
                history.append("set_circuit(same list)")
        except Exception as e:
            if not is_repo_error(e):
                raise
            queries.append({"prog": effective_prog(), "obs": {"err": type(e).__name__, "msg": str(e)[:200],
                                                              "mats": []}, "history": list(history)})
            return {"queries": queries}
        if not query():
            break
    return {"queries": queries}


def judge_session(chk, sess):
    """-> None or (kind, signature, what)"""
    out = observe_session(sess)
    for k, q in enumerate(out["queries"]):
        if "accepted_bad" in q["obs"]:
            return ("violation", "accepts-inadmissible-program",
                    f"Parameter.set_value({q['obs']['accepted_bad']}) was accepted for the loss of an LC")
        res = judge_obs(chk, q["prog"], q["obs"])
        if res is None:
            continue
        kind, sig, what = res
        hist = " -> ".join(q["history"])
        if k > 0 and kind == "violation":
            # is it the history?  the same program on a fresh object
            try:
                fresh = judge(chk, q["prog"])
            except core.LeanError:
                raise
            if fresh is None:
                return (kind, "loss-result-depends-on-history",
                        f"long-lived {'Processor' if sess['mode'] == 'processor' else 'simulator'} after [{hist}]: "
                        f"{what}; a fresh one gives the right answer for the same components and values")
        return (kind, sig, f"after [{hist}]: {what}")
    return None


def shrink_session(chk, sess, sig):
    def fails(x):
        try:
            r = judge_session(chk, x)
        except core.LeanError:
            raise
        except Exception:
            return False
        return r is not None and r[1] == sig

    cur = copy.deepcopy(sess)
    for n in range(len(cur["steps"])):            # shortest failing prefix
        cand = dict(cur, steps=cur["steps"][:n])
        if fails(cand):
            cur = cand
            break
    cur["steps"] = gens.shrink_list(cur["steps"], lambda ss: fails(dict(cur, steps=ss)), max_rounds=30)
    for s in list(cur["inputs"]):
        cand = dict(cur, inputs=[s])
        if len(cur["inputs"]) > 1 and fails(cand):
            cur = cand
            break
    if not any(st["op"] in ("replace", "remove") for st in cur["steps"]):
        used = {st["var"] for st in cur["steps"] if "var" in st}

        def f2(cs):
            if not cs or (cur["mode"] == "list" and comps_M(cs) != len(cur["inputs"][0])):
                return False
            if not used <= {c.get("var") for _, c in cs}:
                return False
            return fails(dict(cur, comps=cs))
        cur["comps"] = gens.shrink_list(cur["comps"], f2, max_rounds=40)
    if cur["filter"]:
        cand = dict(cur, filter=0)
        if fails(cand):
            cur = cand
    return cur


def handle_session(chk, sess):
    ops = [st["op"] for st in sess["steps"]]
    chk.count("session_mode", sess["mode"])
    chk.count("session_steps", len(ops))
    for o in ops:
        chk.count("session_op", o)
    lvars = [c["var"] for _, c in sess["comps"] if c["t"] == "LC" and "var" in c]
    set_l = any(st["op"] == "set" and "lc" in st for st in sess["steps"])
    if set_l and sess["mode"] == "processor":
        chk.branch("session-loss-parameter-changed-processor")
    if set_l and sess["mode"] == "list":
        chk.branch("session-loss-parameter-changed-set-circuit-same-list")
    if any(st["op"] == "set" and "phi" in st for st in sess["steps"]):
        chk.branch("session-phase-parameter-changed")
    if len(set(lvars)) < len(lvars):
        chk.branch("session-shared-loss-parameter")
    if "add" in ops and sess["mode"] == "processor":
        chk.branch("session-processor-add-after-query")
    if sess["mode"] == "list" and any(o in ("add", "replace", "remove") for o in ops):
        chk.branch("session-list-edited-in-place")
    if "filter" in ops:
        chk.branch("session-filter-changed")
    if "inputs" in ops:
        chk.branch("session-input-changed")
    if "set-bad" in ops:
        chk.branch("session-out-of-range-loss-rejected")
    if "query" in ops:
        chk.branch("session-repeated-query")
    res = judge_session(chk, sess)
    chk.case(("session",) + signature(dict(sess, comps=[[r0, c] for r0, c in sess["comps"]]))
             + (json.dumps(sess["steps"], sort_keys=True),),
             nontrivial=any(o in ("set", "add", "replace", "remove") for o in ops),
             sample={"session": sess["mode"], "m": sess["m"],
                     "comps": [(r0, c["t"], c.get("var")) for r0, c in sess["comps"]][:8], "steps": ops})
    if res is not None:
        kind, sig, what = res
        small = shrink_session(chk, sess, sig)
        try:
            again = judge_session(chk, small)
            if again is not None and again[1] == sig:
                what = again[2]
        except core.LeanError:
            raise
        except Exception:
            pass
        chk.fail(kind, sig, what, {"session": small})


# ------------------------------------------------------------------------------------------------
# amplitude-level paths.  The model carries an amplitude formally as (a, q) = a * sqrt(q), a in Q[i], q in Q>=0
# (Fock amplitudes carry 1/sqrt(prod s! prod t!), Kraus entries sqrt(binomial weight)); the value of an entry is
# the sum of its contributions.  The floating-point square root is taken here, once, on exact radicands.
# ------------------------------------------------------------------------------------------------
def contrib_value(a, q):
    return complex(float(Fraction(a[0])), float(Fraction(a[1]))) * math.sqrt(float(Fraction(q)))


def collect(contribs, key=lambda k: tuple(k)):
    out = {}
    for k, a, q in contribs:
        kk = key(k)
        out[kk] = out.get(kk, 0j) + contrib_value(a, q)
    return out


def merge_contribs(contribs):
    """a*sqrt(q) + b*sqrt(q) = (a+b)*sqrt(q): keeps a chain of model steps small (exact)"""
    acc = {}
    for k, a, q in contribs:
        kk = (json.dumps(k), q)
        re, im = acc.get(kk, (Fraction(0), Fraction(0)))
        acc[kk] = (re + Fraction(a[0]), im + Fraction(a[1]))
    return [[json.loads(k), [core.rat(re), core.rat(im)], q] for (k, q), (re, im) in acc.items() if re or im]


def normalised(vec):
    n2 = sum(abs(v) ** 2 for v in vec.values())
    if n2 < 1e-18:
        return None
    n = math.sqrt(n2)
    return {k: v / n for k, v in vec.items()}


def vec_diff(real, want, tol=TOL, slack=None):
    """largest deviation beyond the tolerance; `slack` = (per-key allowance, relative allowance) from `cut_slack`"""
    worst = 0.0
    per, rel = slack if slack else ({}, 0.0)
    for k in set(real) | set(want):
        d = abs(real.get(k, 0j) - want.get(k, 0j))
        if d > tol + (tol + 2 * rel) * abs(want.get(k, 0j)) + per.get(k, 0.0):
            worst = max(worst, d)
    return worst


NATIVE_CUT = 4e-6   # exqalibur's StateVector discards real / imaginary parts below 1e-6 of a component when components
                    # are added; the scale between the model's un-normalised contributions and the native values is
                    # within [1/3, 3] (input coefficients of modulus 1/2 .. 2), hence the factor 4


def cut_slack(raw):
    """allowance for the native cut-off: `raw` = the exact un-normalised contributions [(key, complex)] whose sum per
    key is the evolved component.  A contribution (or an accumulated component) whose real or imaginary part is below
    the cut may be missing from the native result; returns (per-key allowance after normalisation, relative allowance
    for the renormalisation of everything else)."""
    acc, s = {}, {}
    for k, c in raw:
        acc[k] = acc.get(k, 0j) + c
        s[k] = s.get(k, 0.0) + (abs(c.real) if abs(c.real) < NATIVE_CUT else 0.0) \
            + (abs(c.imag) if abs(c.imag) < NATIVE_CUT else 0.0)
    for k, v in acc.items():
        s[k] += (abs(v.real) if abs(v.real) < NATIVE_CUT else 0.0) + (abs(v.imag) if abs(v.imag) < NATIVE_CUT else 0.0)
    n = math.sqrt(sum(abs(v) ** 2 for v in acc.values()))
    if n == 0:
        return {}, 0.0
    return {k: x / n for k, x in s.items() if x}, math.sqrt(sum(x * x for x in s.values())) / n


COEFS = [["1", "0"], ["1", "0"], ["0", "1"], ["-1", "0"], ["2", "0"], ["1", "1"], ["1/2", "0"], ["0", "-3/2"]]


def coef_complex(a):
    return complex(float(Fraction(a[0])), float(Fraction(a[1])))


def gen_superposition(rng, mm, max_n=3, max_terms=2):
    terms = []
    for _ in range(rng.randint(1, max_terms)):
        st = [0] * mm
        for _ in range(rng.choice([0, 1, 1, 2, 2, 3]) if max_n >= 3 else rng.randint(0, max_n)):
            st[rng.randrange(mm)] += 1
        if all(st != t[0] for t in terms):
            terms.append([st, rng.choice(COEFS)])
    if len(terms) == 1:
        terms[0][1] = ["1", "0"]
    return terms


# ------------------------------------------------------------------------------------------------
# LossSimulator.evolve / _postprocess_sv_impl
# ------------------------------------------------------------------------------------------------
def gen_evolve_case(rng, chk):
    prog = gen_program(rng, chk, max_m=3, max_lc=3, max_n=3)
    prog["mode"] = "list"
    prog["filter"] = 0
    if rng.random() < 0.4:          # a single channel: one loss pattern per reduced state
        seen = False
        keep = []
        for r0, c in prog["comps"]:
            if c["t"] == "LC":
                if seen:
                    continue
                seen = True
            keep.append([r0, c])
        prog["comps"] = keep
    mm = comps_M(prog["comps"])
    prog["svs"] = [gen_superposition(rng, mm) for _ in range(rng.randint(1, 2))]
    prog["inputs"] = []
    return prog


def to_statevector(terms):
    import perceval as pcvl
    if len(terms) == 1 and terms[0][1] == ["1", "0"]:
        return pcvl.BasicState(terms[0][0])
    sv = pcvl.StateVector()
    for st, a in terms:
        sv += pcvl.StateVector(pcvl.BasicState(st)) * coef_complex(a)
    return sv


def sv_to_dict(sv):
    return {tuple(int(x) for x in st): complex(a) for st, a in sv}


def observe_evolve(case):
    import perceval as pcvl
    from perceval.simulators import SimulatorFactory
    mats = []
    try:
        objs = [build_comp(spec) for _, spec in case["comps"]]
        mats = snapshot_mats(case["comps"], objs)
        lst = [(tuple(range(r0, r0 + obj.m)), obj) for (r0, spec), obj in zip(case["comps"], objs)]
        sim = SimulatorFactory.build(lst, case["backend"])
        sim.set_precision(0)
        runs = []
        for terms in case["svs"]:
            run = {"terms": terms, "evolve": sv_to_dict(sim.evolve(to_statevector(terms)))}
            if len(terms) == 1:
                run["probs"] = bsd_to_dict(sim.probs(pcvl.BasicState(terms[0][0])))
            runs.append(run)
        return {"runs": runs, "mats": mats, "layer": type(sim).__name__}
    except Exception as e:
        if is_repo_error(e):
            return {"err": type(e).__name__, "msg": str(e)[:200], "mats": mats}
        raise


def oracle_evolve(case, mats, terms):
    """numpy: state vector of the property's enlarged lossless circuit, truncated, amplitudes of one key added"""
    u, M, N = oracle_matrix(case, mats)
    tot = math.sqrt(sum(abs(coef_complex(a)) ** 2 for _, a in terms))
    out = {}
    for st, a in terms:
        sp = list(st) + [0] * (N - M)
        n = sum(sp)
        cols = [i for i, c in enumerate(sp) for _ in range(c)]
        fs = math.prod(math.factorial(x) for x in sp)
        for t in all_states(N, n):
            rows = [i for i, c in enumerate(t) for _ in range(c)]
            amp = perm_np(u[np.ix_(rows, cols)]) if n else 1.0 + 0j
            amp = amp / math.sqrt(fs * math.prod(math.factorial(x) for x in t)) * coef_complex(a) / tot
            key = tuple(t[:M])
            out[key] = out.get(key, 0j) + amp
    return out


def judge_evolve(chk, case):
    obs = observe_evolve(case)
    if "err" in obs:
        return ("violation", "loss-evolve-raises",
                f"SimulatorFactory.build(list).evolve raised {obs['err']} ({obs.get('msg')})")
    prog = dict(case, inputs=[])
    req = lean_request(prog, obs["mats"])
    req.update({"op": "evolve", "inputs": [[[st, a] for st, a in terms] for terms in case["svs"]]})
    rep = chk.lean.ask(req)
    if "err" in rep:
        return ("violation", "accepts-inadmissible-program", f"evolve accepted a program the model rejects ({rep['err']})")
    if not all(all(x) for x in rep["sq"]):
        return ("broken", "evolve-incoherent-vs-probs", "model: squared evolve contributions differ from lossProbs")
    n_lc = sum(1 for _, c in case["comps"] if c["t"] == "LC")
    for run, contribs in zip(obs["runs"], rep["svs"]):
        want = normalised(collect(contribs))
        if want is None:
            chk.count("evolve", "degenerate")
            continue
        slack = cut_slack([(tuple(k), contrib_value(a, q)) for k, a, q in contribs])
        if slack[0]:
            chk.count("evolve", "native-cut-allowance")
        bad = vec_diff(run["evolve"], want, slack=slack)
        if bad:
            od = normalised(oracle_evolve(case, obs["mats"], run["terms"]))
            if od is None or vec_diff(run["evolve"], od, 1e-7, slack=slack):
                return ("violation", "loss-evolve-differs",
                        f"LossSimulator.evolve on {run['terms']} differs by {bad:.3g} from the state vector of the "
                        "enlarged lossless circuit truncated to the original modes")
            return ("broken", "model-vs-code-evolve", f"Lean model and evolve disagree by {bad:.3g} on {run['terms']} "
                                                      "but the numpy oracle agrees with the implementation")
        if n_lc == 1 and "probs" in run:
            # one channel, Fock input: a single loss pattern behind every reduced state (Lean:
            # evolve_one_channel_single_pattern) -> |amplitude|^2 is the probability; real code against real code
            sq = {k: abs(v) ** 2 for k, v in run["evolve"].items()}
            worst = max((abs(sq.get(k, 0.0) - run["probs"].get(k, 0.0)) for k in set(sq) | set(run["probs"])),
                        default=0.0)
            if worst > 1e-9:
                return ("violation", "loss-evolve-vs-probs",
                        f"one loss channel, input {run['terms'][0][0]}: |evolve|^2 differs from probs by {worst:.3g}")
    return None


def shrink_evolve(chk, case, sig):
    def fails(c):
        try:
            r = judge_evolve(chk, c)
        except core.LeanError:
            raise
        except Exception:
            return False
        return r is not None and r[1] == sig

    cur = copy.deepcopy(case)
    for terms in list(cur["svs"]):
        cand = dict(cur, svs=[terms])
        if fails(cand):
            cur = cand
            break
    mm = comps_M(cur["comps"])

    def f2(cs):
        return bool(cs) and comps_M(cs) == mm and fails(dict(cur, comps=cs))
    cur["comps"] = gens.shrink_list(cur["comps"], f2, max_rounds=40)
    return cur


def handle_evolve(chk, case):
    n_lc = sum(1 for _, c in case["comps"] if c["t"] == "LC")
    chk.count("evolve_channels", n_lc)
    chk.branch("evolve-single-pattern" if n_lc == 1 else "evolve-several-patterns")
    if any(len(t) > 1 for t in case["svs"]):
        chk.branch("evolve-superposition")
    res = judge_evolve(chk, case)
    chk.case(("evolve",) + signature(case) + (json.dumps(case["svs"]),), nontrivial=n_lc >= 1,
             sample=None)
    if res is not None:
        kind, sig, what = res
        small = shrink_evolve(chk, case, sig)
        try:
            again = judge_evolve(chk, small)
            if again is not None and again[1] == sig:
                what = again[2]
        except core.LeanError:
            raise
        except Exception:
            pass
        chk.fail(kind, sig, what, {"evolve": small})


# ------------------------------------------------------------------------------------------------
# LC.apply (what the Stepper calls for a loss channel).  Run in a child process: on a broken tree this method has
# been seen to kill the interpreter (numpy handed a FockState), which must be a finding, not the end of the run.
# ------------------------------------------------------------------------------------------------
LCAPPLY_WORKER = r"""
import json, sys
import perceval as pcvl
from perceval.components import LC
try:
    from perceval.utils.logging import get_logger, channel, level
    for ch in (channel.user, channel.general, channel.resources):
        get_logger().set_level(level.off, ch)
except Exception:
    pass
for line in sys.stdin:
    case = json.loads(line)
    print(json.dumps({"start": case["id"]}), flush=True)
    try:
        terms = case["terms"]
        if len(terms) == 1 and terms[0][1] == [1.0, 0.0]:
            sv = pcvl.BasicState(terms[0][0])
        else:
            sv = pcvl.StateVector()
            for st, a in terms:
                sv += pcvl.StateVector(pcvl.BasicState(st)) * complex(a[0], a[1])
        for r, loss in case["steps"]:
            sv = LC(loss).apply((r,), sv)
        out = [[[int(x) for x in st], complex(a).real, complex(a).imag] for st, a in sv]
        print(json.dumps({"id": case["id"], "out": out, "m": int(sv.m)}), flush=True)
    except Exception as e:
        import traceback
        tb = traceback.extract_tb(e.__traceback__)
        print(json.dumps({"id": case["id"], "err": type(e).__name__, "msg": str(e)[:160],
                          "in_repo": any("perceval" in (fr.filename or "") for fr in tb)}), flush=True)
"""


def run_lcapply_batch(cases):
    """-> {id: {"out"} | {"err"} | {"crash": returncode}}; a dead worker is restarted for the remaining cases"""
    import subprocess
    import sys
    results = {}
    todo = list(cases)
    while todo:
        payload = "".join(json.dumps({"id": c["id"], "terms": [[st, [coef_complex(a).real, coef_complex(a).imag]]
                                                                 for st, a in c["terms"]],
                                      "steps": [[r, float(Fraction(p))] for r, p in c["steps"]]}) + "\n"
                          for c in todo)
        try:
            pr = subprocess.run([sys.executable, "-W", "ignore", "-c", LCAPPLY_WORKER], input=payload, text=True,
                                capture_output=True, timeout=600)
            out, rc = pr.stdout, pr.returncode
        except subprocess.TimeoutExpired as e:
            out, rc = (e.stdout or ""), "timeout"
            if isinstance(out, bytes):
                out = out.decode(errors="replace")
        started = None
        for line in out.splitlines():
            try:
                msg = json.loads(line)
            except ValueError:
                continue
            if "start" in msg:
                started = msg["start"]
            elif "id" in msg:
                results[msg["id"]] = msg
                started = None
        if started is not None:                       # died while working on this case
            results[started] = {"crash": rc}
        todo = [c for c in todo if c["id"] not in results]
        if started is None and todo:                  # died outside a case (import failure, ...)
            for c in todo:
                results[c["id"]] = {"crash": rc}
            todo = []
    return results


def gen_lcapply_case(rng, k):
    m = rng.randint(1, 3)
    terms = gen_superposition(rng, m, max_terms=3)
    steps = []
    mm = m
    for _ in range(rng.choice([1, 1, 2])):
        sp = gen_lc(rng)
        steps.append([rng.randrange(mm), core.rat(lc_loss(sp))])
        mm += 1
    return {"id": k, "m": m, "terms": terms, "steps": steps}


def oracle_lcapply(case):
    """numpy, independent of the binomial formula: each step couples mode r to one more (vacuum) mode with the block
    [[c, s], [s, -c]], amplitudes from permanents"""
    tot = math.sqrt(sum(abs(coef_complex(a)) ** 2 for _, a in case["terms"]))
    vec = {tuple(st): coef_complex(a) / tot for st, a in case["terms"]}
    for r, p in case["steps"]:
        loss = float(Fraction(p))
        c, s = math.sqrt(1 - loss), math.sqrt(loss)
        blk = np.array([[c, s], [s, -c]], dtype=complex)
        nxt = {}
        for st, amp in vec.items():
            n = st[r]
            for i in range(n + 1):
                rows = [0] * i + [1] * (n - i)
                cols = [0] * n
                a = perm_np(blk[np.ix_(rows, cols)]) if n else 1.0 + 0j
                a = a / math.sqrt(math.factorial(n) * math.factorial(i) * math.factorial(n - i))
                key = st[:r] + (i,) + st[r + 1:] + (n - i,)
                nxt[key] = nxt.get(key, 0j) + amp * a
        vec = nxt
    return {k: v for k, v in vec.items() if abs(v) > 0}


def judge_lcapply(chk, case, res):
    if "crash" in res:
        return ("violation", "lc-apply-raises",
                f"LC.apply{tuple(case['steps'][0])} on {case['terms']} killed the interpreter (exit status {res['crash']})")
    if "err" in res:
        return ("violation", "lc-apply-raises",
                f"LC(loss).apply((r,), sv) raised {res['err']}: {res.get('msg')} on steps {case['steps']}, state {case['terms']}")
    cur = [[st, a, "1"] for st, a in case["terms"]]
    for r, p in case["steps"]:
        rep = chk.lean.ask({"op": "lcapply", "r": r, "p": core.rat(float(Fraction(p))), "sv": cur})
        if "err" in rep:
            return ("broken", "lc-apply-model-rejects", f"the model rejects an LC.apply case ({rep['err']})")
        if not rep["marg"]:
            return ("broken", "lc-apply-marginal", "model: LC.apply marginal differs from the density-matrix diagonal")
        cur = merge_contribs(rep["sv"])
    want = normalised(collect(cur))
    real = {tuple(st): complex(re, im) for st, re, im in res["out"] if re or im}
    if want is None:
        return None
    want = {k: v for k, v in want.items() if abs(v) > 0}
    slack = cut_slack([(tuple(k), contrib_value(a, q)) for k, a, q in cur])
    bad = vec_diff(real, want, slack=slack)
    if res.get("m") != case["m"] + len(case["steps"]):
        bad = bad or 1.0
    if bad:
        od = oracle_lcapply(case)
        if vec_diff(real, od, 1e-7, slack=slack) or res.get("m") != case["m"] + len(case["steps"]):
            return ("violation", "lc-apply-differs",
                    f"LC.apply steps {case['steps']} on {case['terms']}: the result differs by {bad:.3g} from coupling the "
                    "mode to a fresh vacuum mode with BS.H of transmission 1 - loss")
        return ("broken", "model-vs-code-lc-apply", f"Lean model and LC.apply disagree by {bad:.3g} but the numpy oracle "
                                                    "agrees with the implementation")
    return None


def handle_lcapply_batch(chk, cases):
    for c in cases:
        chk.branch("lc-apply")
        if len(c["steps"]) > 1:
            chk.branch("lc-apply-twice")
        if len(c["terms"]) > 1:
            chk.branch("lc-apply-superposition")
        chk.count("lc_apply_p", c["steps"][0][1])
    # probe: when the method fails on every one of the first cases (raises or kills the interpreter) there is nothing
    # to compare; report that and do not restart a dying interpreter for each remaining case
    results = run_lcapply_batch(cases[:4])
    if len(cases) > 4 and all("out" not in results.get(c["id"], {}) for c in cases[:4]):
        chk.count("lc_apply", "skipped-after-probe", len(cases) - 4)
        cases = cases[:4]
    else:
        results.update(run_lcapply_batch(cases[4:]))
    failures = []
    for c in cases:
        res = results.get(c["id"], {"crash": "no answer"})
        chk.case(("lcapply", c["m"], json.dumps(c["terms"]), json.dumps(c["steps"])),
                 nontrivial=any(st[c["steps"][0][0]] >= 1 for st, _ in c["terms"]), sample=None)
        out = judge_lcapply(chk, c, res)
        if out is not None:
            failures.append((len(c["steps"]), len(c["terms"]), sum(sum(st) for st, _ in c["terms"]), c["id"], out, c))
            if out[1] == "lc-apply-raises":
                chk.count("lc_apply", "raises")
    for *_, (kind, sig, what), c in sorted(failures, key=lambda f: f[:4]):     # the smallest failing case first
        chk.fail(kind, sig, what, {"lcapply": c})


# ------------------------------------------------------------------------------------------------
# noisy source in front of a lossy circuit: Processor(noise=NoiseModel(brightness, transmittance)).probs()
# ------------------------------------------------------------------------------------------------
SRC_PARAMS = [("1/2", "1"), ("3/4", "1"), ("1", "1/2"), ("3/4", "1/2"), ("7/8", "3/4"), ("1/2", "1/4"), ("1", "1")]


def gen_source_case(rng, chk):
    prog = gen_program(rng, chk, max_m=3, max_lc=3, max_n=3)
    prog["mode"] = "processor"
    prog["noise"] = list(rng.choice(SRC_PARAMS))
    s = [0] * prog["m"]
    for _ in range(rng.choice([1, 2, 2, 3])):
        s[rng.randrange(prog["m"])] += 1
    prog["inputs"] = [s]
    return prog


def observe_source(case):
    import perceval as pcvl
    mats = []
    try:
        objs = [build_comp(spec) for _, spec in case["comps"]]
        mats = snapshot_mats(case["comps"], objs)
        b, t = (float(Fraction(x)) for x in case["noise"])
        p = pcvl.Processor(case["backend"], case["m"], noise=pcvl.NoiseModel(brightness=b, transmittance=t))
        for (r0, spec), obj in zip(case["comps"], objs):
            p.add(r0, obj)
        p.min_detected_photons_filter(case["filter"])
        p.with_input(pcvl.BasicState(case["inputs"][0]))
        src = []
        for sv, w in p.source_distribution.items():
            comps = [(tuple(int(x) for x in st), complex(a)) for st, a in sv]
            if len(comps) != 1 or any(st.has_annotations for st, _ in sv):
                return {"err": "SourceShape", "msg": f"unexpected source state {sv}", "mats": mats}
            src.append([float(w), list(comps[0][0])])
        res = p.probs(precision=0)
        run = {"input": case["inputs"][0], "via": "Processor(noise).probs", "results": bsd_to_dict(res["results"]),
               "physical_perf": float(res["physical_perf"]), "logical_perf": float(res["logical_perf"])}
        return {"run": run, "src": src, "mats": mats}
    except Exception as e:
        if is_repo_error(e):
            return {"err": type(e).__name__, "msg": str(e)[:200], "mats": mats}
        raise


def judge_source(chk, case):
    obs = observe_source(case)
    if "err" in obs:
        return ("violation", "noisy-source-loss-raises",
                f"Processor with a noisy source and loss channels raised {obs['err']} ({obs.get('msg')})")
    e = Fraction(case["noise"][0]) * Fraction(case["noise"][1])
    rep = chk.lean.ask({"op": "source", "e": core.rat(e), "s": case["inputs"][0]})
    model_src = {}
    for w, st in rep["src"]:
        model_src[tuple(st)] = model_src.get(tuple(st), Fraction(0)) + Fraction(w)
    model_src = {k: v for k, v in model_src.items() if v}
    real_src = {tuple(st): w for w, st in obs["src"]}
    if dist_close(real_src, model_src):
        # the source model is C06's business; here it only selects which mixture the loss model is asked for
        chk.count("source", "differs-from-emission-model")
        src = [[core.rat(w), st] for w, st in obs["src"]]
    else:
        src = [[core.rat(v), list(k)] for k, v in model_src.items()]
    req = lean_request(dict(case, inputs=[]), obs["mats"])
    req.update({"op": "probsmix", "src": src})
    del req["inputs"]
    rep = chk.lean.ask(req)
    if "err" in rep:
        return ("violation", "accepts-inadmissible-program", f"accepted a program the model rejects ({rep['err']})")
    exact = {tuple(k): Fraction(v) for k, v in rep["dist"]}
    probs = compare_run(obs["run"], exact, case["filter"], rep["M"], TOL)
    if not probs:
        return None
    if "shape" in probs:
        return ("violation", "output-not-on-original-modes", "noisy source + loss: states not on the original modes")
    # direct oracle: mixture, over the REAL source distribution, of the enlarged lossless circuit's marginals
    umat = oracle_matrix(case, obs["mats"])
    od = {}
    for w, st in obs["src"]:
        for k, v in oracle_dist(*umat, st).items():
            od[k] = od.get(k, 0.0) + w * v
    odf = {k: Fraction(*float(v).as_integer_ratio()) for k, v in od.items()}
    oprobs = compare_run(obs["run"], odf, case["filter"], rep["M"], 1e-7)
    if "dist" in oprobs or "perf" in oprobs or "norm" in probs:
        return ("violation", "noisy-source-loss-distribution-differs",
                f"Processor(noise brightness={case['noise'][0]}, transmittance={case['noise'][1]}).probs on "
                f"{case['inputs'][0]} (filter {case['filter']}) differs from the mixture over the source's inputs of the "
                f"enlarged lossless circuit's distributions ({oprobs or probs})")
    return ("broken", "model-vs-code-noisy-source", f"Lean model and Processor(noise).probs disagree ({probs}) but the "
                                                    "numpy oracle agrees with the implementation")


def handle_source(chk, case):
    chk.branch("noisy-source-with-loss")
    if case["filter"]:
        chk.branch("noisy-source-with-loss-filter")
    chk.count("source_noise", "/".join(case["noise"]))
    res = judge_source(chk, case)
    chk.case(("source",) + signature(case) + (tuple(case["noise"]), tuple(case["inputs"][0])),
             nontrivial=case["noise"] != ["1", "1"] and sum(case["inputs"][0]) >= 1, sample=None)
    if res is not None:
        kind, sig, what = res

        def fails(c):
            try:
                r = judge_source(chk, c)
            except core.LeanError:
                raise
            except Exception:
                return False
            return r is not None and r[1] == sig
        cur = copy.deepcopy(case)
        cur["comps"] = gens.shrink_list(cur["comps"], lambda cs: bool(cs) and fails(dict(cur, comps=cs)), max_rounds=40)
        if cur["filter"] and fails(dict(cur, filter=0)):
            cur["filter"] = 0
        try:
            again = judge_source(chk, cur)
            if again is not None and again[1] == sig:
                what = again[2]
        except core.LeanError:
            raise
        except Exception:
            pass
        chk.fail(kind, sig, what, {"source": cur})


# ------------------------------------------------------------------------------------------------
# DensityMatrix.apply_loss
# ------------------------------------------------------------------------------------------------
def gen_dm_case(rng):
    m = rng.randint(1, 3)
    k = rng.randint(1, 3)
    states = []
    for _ in range(k):
        n = rng.randint(0, 3)
        s = [0] * m
        for _ in range(n):
            s[rng.randrange(m)] += 1
        if s not in states:
            states.append(s)
    kind = rng.choice(["bs", "sv", "svd"]) if len(states) > 1 else "bs"
    if kind == "bs":
        states = states[:1]
    weights = [rng.randint(1, 5) for _ in states]
    modes = sorted(rng.sample(range(m), rng.randint(1, m)))
    p = rng.choice([Fraction(0), Fraction(1), Fraction(9, 25), Fraction(16, 25), Fraction(1, 2), Fraction(1, 3),
                    Fraction(25, 169), Fraction(7, 10)])
    case = {"m": m, "kind": kind, "states": states, "weights": weights, "modes": modes,
            "p": core.rat(p), "as_int": len(modes) == 1 and rng.random() < 0.5}
    if kind == "sv" and rng.random() < 0.5:      # complex amplitudes: off-diagonal entries with imaginary parts
        case["phases"] = [rng.randrange(4) for _ in states]
    if rng.random() < 0.3:      # further losses applied to the same DensityMatrix object
        case["then"] = [{"modes": sorted(rng.sample(range(m), rng.randint(1, m))),
                         "p": core.rat(rng.choice([Fraction(0), Fraction(1), Fraction(9, 25), Fraction(1, 2),
                                                   Fraction(1, 3), Fraction(144, 169)]))}
                        for _ in range(rng.randint(1, 2))]
    return case


def dm_steps(case):
    """[(modes, p as Fraction)] in the order they are applied"""
    return [(case["modes"], Fraction(case["p"]))] + [(t["modes"], Fraction(t["p"])) for t in case.get("then", [])]


def dm_observe(case):
    import perceval as pcvl
    from perceval.utils.density_matrix import DensityMatrix
    sts = [pcvl.BasicState(s) for s in case["states"]]
    if case["kind"] == "bs":
        src = sts[0]
    elif case["kind"] == "sv":
        sv = pcvl.StateVector()
        phases = case.get("phases") or [0] * len(sts)
        for s, w, ph in zip(sts, case["weights"], phases):
            sv += pcvl.StateVector(s) * (float(w) * (1, 1j, -1, -1j)[ph])
        src = sv
    else:
        tot = sum(case["weights"])
        src = pcvl.SVDistribution({pcvl.StateVector(s): w / tot for s, w in zip(sts, case["weights"])})
    dm = DensityMatrix.from_svd(src)
    inv = {i: tuple(int(x) for x in s) for s, i in dm.index.items()}
    d0 = dm.mat.toarray()
    before = {inv[i]: float(d0[i, i].real) for i in inv if d0[i, i] != 0}
    full0 = {(inv[i], inv[j]): complex(d0[i, j]) for i in inv for j in inv if d0[i, j] != 0}
    p = float(Fraction(case["p"]))
    dm.apply_loss(case["modes"][0] if case["as_int"] else list(case["modes"]), p)
    for modes, q in dm_steps(case)[1:]:
        dm.apply_loss(list(modes), float(q))
    d1 = dm.mat.toarray()
    after = {inv[i]: float(d1[i, i].real) for i in inv if abs(d1[i, i]) > 0}
    herm = float(np.max(np.abs(d1 - d1.conj().T))) if d1.size else 0.0
    full1 = {(inv[i], inv[j]): complex(d1[i, j]) for i in inv for j in inv if d1[i, j] != 0}
    return before, after, p, herm, full0, full1


def oracle_dm(full0, steps):
    """numpy, independent of the binomial formula: couple the mode to a vacuum environment mode with the block
    [[c, s], [s, -c]] (amplitudes from permanents), trace the environment out"""
    rho = dict(full0)
    for modes, q in steps:
        loss = float(q)
        c, s = math.sqrt(1 - loss), math.sqrt(loss)
        blk = np.array([[c, s], [s, -c]], dtype=complex)

        def amp(n, l):
            a = perm_np(blk[np.ix_([0] * (n - l) + [1] * l, [0] * n)]) if n else 1.0 + 0j
            return a / math.sqrt(math.factorial(n) * math.factorial(n - l) * math.factorial(l))
        for md in modes:
            new = {}
            for (t, u), v in rho.items():
                for l in range(min(t[md], u[md]) + 1):
                    t2 = t[:md] + (t[md] - l,) + t[md + 1:]
                    u2 = u[:md] + (u[md] - l,) + u[md + 1:]
                    new[(t2, u2)] = new.get((t2, u2), 0j) + amp(t[md], l) * v * np.conj(amp(u[md], l))
            rho = new
    return rho


def lc_reference(case, before):
    """the same loss through LC components (real code), mixture over the diagonal of the input"""
    import perceval as pcvl
    from perceval.components import LC
    out = {}
    for s, w in before.items():
        proc = pcvl.Processor("SLOS", case["m"])
        for modes, q in dm_steps(case):
            for md in modes:
                proc.add(md, LC(float(q)))
        proc.min_detected_photons_filter(0)
        proc.with_input(pcvl.BasicState(list(s)))
        for k, v in bsd_to_dict(proc.probs(precision=0)["results"]).items():
            out[k] = out.get(k, 0.0) + w * v
    return out


def handle_dm(chk, case):
    chk.count("dm_kind", case["kind"])
    chk.count("dm_p", case["p"])
    chk.branch("dm-apply-loss")
    if len(case["modes"]) > 1:
        chk.branch("dm-several-modes")
    if case.get("then"):
        chk.branch("dm-repeated-loss")
    before, after, p, herm, full0, full1 = dm_observe(case)
    diag = [[list(k), core.rat(v)] for k, v in sorted(before.items())]
    cur = diag
    for modes, q in dm_steps(case):
        for md in modes:
            # the float the real code received (exact), so that the model sees the same number
            rep = chk.lean.ask({"op": "dmloss", "mode": md, "p": core.rat(float(q)), "diag": cur})
            if "err" in rep:
                chk.fail("broken", "dm-model-rejects", f"the model rejects a density-matrix case ({rep['err']})",
                         {"dm": case})
                return
            cur = rep["diag"]
    exact = {tuple(k): Fraction(v) for k, v in cur}
    chk.case(("dm", case["m"], case["kind"], tuple(case["modes"]), case["p"], tuple(map(tuple, case["states"])),
              json.dumps(case.get("then", []))),
             nontrivial=any(s[md] >= 1 for s in case["states"] for md in case["modes"]) and case["p"] not in ("0", "1"),
             sample=None)
    bad = dist_close(after, exact)
    tr = sum(after.values())
    if bad or not core.close(tr, sum(before.values())):
        # direct statement of the property: same statistics as the loss channel of the circuit model
        ref = lc_reference(case, before)
        rbad = dist_close(after, {k: Fraction(*v.as_integer_ratio()) for k, v in ref.items()}, 1e-7)
        if rbad or abs(tr - sum(before.values())) > 1e-7:
            chk.fail("violation", "dm-loss-differs-from-lc",
                     f"DensityMatrix.apply_loss {[(m_, float(q_)) for m_, q_ in dm_steps(case)]} gives a diagonal differing from the LC "
                     f"simulation of the same loss by {rbad:.3g} (trace {tr!r})", {"dm": case})
        else:
            chk.fail("broken", "dm-model-vs-code", f"model and DensityMatrix.apply_loss disagree by {bad:.3g}",
                     {"dm": case})
        return
    # cross-check on a subset: the LC simulation gives the same statistics (real code against real code via the model)
    if chk.rng.random() < 0.25:
        ref = lc_reference(case, before)
        if dist_close(ref, exact):
            chk.fail("violation", "dm-loss-differs-from-lc",
                     "LC simulation and DensityMatrix.apply_loss give different statistics for the same loss",
                     {"dm": case})
            return
    # the whole matrix (off-diagonal entries included): model of  sum_l K_l rho K_l^T  as formal a*sqrt(q) contributions
    if any(k[0] != k[1] for k in full0):
        chk.branch("dm-off-diagonal")
    if any(abs(v.imag) > 0 for v in full0.values()):
        chk.branch("dm-complex-off-diagonal")
    cur = [[[list(t), list(u)], [core.rat(v.real), core.rat(v.imag)], "1"] for (t, u), v in sorted(full0.items())]
    for modes, q in dm_steps(case):
        for md in modes:
            rep = chk.lean.ask({"op": "dmfull", "mode": md, "p": core.rat(float(q)), "rho": cur})
            if "err" in rep:
                chk.fail("broken", "dm-model-rejects", f"the model rejects a density-matrix case ({rep['err']})",
                         {"dm": case})
                return
            cur = merge_contribs(rep["rho"])
    want = collect(cur, key=lambda k: (tuple(k[0]), tuple(k[1])))
    bad = vec_diff(full1, want)
    if bad or herm > 1e-9:
        od = oracle_dm(full0, dm_steps(case))
        if vec_diff(full1, od, 1e-7) or herm > 1e-7:
            chk.fail("violation", "dm-loss-differs-from-bs-dilation",
                     f"DensityMatrix.apply_loss {[(m_, float(q_)) for m_, q_ in dm_steps(case)]}: the matrix differs by "
                     f"{max(bad, vec_diff(full1, od, 1e-7)):.3g} (hermiticity defect {herm:.3g}) from coupling each mode to a "
                     "vacuum environment mode with BS.H of transmission 1 - p and tracing the environment out",
                     {"dm": case})
        else:
            chk.fail("broken", "dm-model-vs-code-matrix", f"model and DensityMatrix.apply_loss matrices disagree by {bad:.3g}",
                     {"dm": case})


# ------------------------------------------------------------------------------------------------
# layer choice
# ------------------------------------------------------------------------------------------------
def handle_layers(chk):
    from perceval.components import BS, LC, TD
    from perceval.simulators import SimulatorFactory
    for has_lc in (False, True):
        for has_td in (False, True):
            lst = [((0, 1), BS())]
            if has_td:
                lst.append(((0,), TD(1)))
            if has_lc:
                lst.append(((1,), LC(0.36)))
            lst.append(((0, 1), BS()))
            sim = SimulatorFactory.build(lst)
            chain = [type(sim).__name__]
            cur = sim
            while hasattr(cur, "_simulator"):     # soft: private attribute, skipped when absent
                cur = cur._simulator
                chain.append(type(cur).__name__)
            rep = chk.lean.ask({"op": "layers", "lc": has_lc, "td": has_td, "polar": False, "ff": False})
            want = list(reversed(rep["layers"]))
            chk.case(("layers", has_lc, has_td), nontrivial=False)
            chk.branch("layer-choice")
            ok = chain[0] == want[0] and (len(chain) == 1 or chain == want)
            if not ok:
                chk.fail("violation" if has_lc and chain[0] != "LossSimulator" else "broken", "layer-choice",
                         f"SimulatorFactory.build(lc={has_lc}, td={has_td}) built {chain}, the model says {want}",
                         {"layers": [has_lc, has_td]})


def handle_thinning(chk):
    """model self-check: the closed form of theorem `binomial_thinning` against the permanents (exact)"""
    for n in range(0, 5):
        for a, b, h in [(3, 4, 5), (1, 0, 1), (0, 1, 1), (12, 5, 13)]:
            rep = chk.lean.ask({"op": "thin", "n": n, "c": core.rat(Fraction(a, h)), "s": core.rat(Fraction(b, h))})
            chk.case(("thin", n, a, h), nontrivial=False)
            if rep["perm"] != rep["closed"] or sum(Fraction(x) for x in rep["perm"]) != 1:
                chk.fail("broken", "thinning-closed-form", "permanent-based thinning law differs from C(n,k) t^k (1-t)^(n-k)",
                         {"n": n, "c": [a, h]})


def handle_dilation(chk):
    """model self-check of theorem `kraus_eq_bs_dilation` on the wire: Kraus map against the beam-splitter dilation
    (exact rational p = s^2, 1 - p = c^2), contribution values compared after the one floating-point square root"""
    rho = [[[[2, 1], [2, 1]], ["1/6", "0"], "1"], [[[2, 1], [0, 3]], ["1/6", "1/6"], "1"],
           [[[0, 3], [2, 1]], ["1/6", "-1/6"], "1"], [[[0, 3], [0, 3]], ["1/3", "0"], "1"],
           [[[1, 0], [1, 0]], ["1/2", "0"], "1"], [[[3, 0], [1, 2]], ["0", "1/7"], "1"]]
    for a, b, h in [(3, 4, 5), (1, 0, 1), (0, 1, 1), (12, 5, 13), (8, 15, 17)]:
        for mode in (0, 1):
            rep = chk.lean.ask({"op": "dmfull", "mode": mode, "p": core.rat(Fraction(b * b, h * h)),
                                "cs": [core.rat(Fraction(a, h)), core.rat(Fraction(b, h))], "rho": rho})
            chk.case(("dilation", a, h, mode), nontrivial=False)
            key = lambda k: (tuple(k[0]), tuple(k[1]))   # noqa: E731
            if "err" in rep or vec_diff(collect(rep["rho"], key), collect(rep["dil"], key), 1e-12):
                chk.fail("broken", "kraus-vs-dilation", "model: Kraus map and beam-splitter dilation differ",
                         {"dilation": [a, b, h, mode]})


# ------------------------------------------------------------------------------------------------
# extension 3 (a): a loss channel with photons in the other modes.  Programs made of loss channels and phase
# shifters only: every photon of mode i survives independently with probability tau_i = product of (1 - loss) over
# the channels of that mode, so P(t | s) = prod_i C(s_i, t_i) tau_i^t_i (1 - tau_i)^(s_i - t_i) — a closed form
# evaluated here with exact fractions, independent of Lean and of permanents (direct oracle on the real code).
# Lean: `lc_thinning_with_spectators` (`thinspect`: block by permanents = closed form `thinSpect`).
# ------------------------------------------------------------------------------------------------
def gen_thin_case(rng, chk):
    m = rng.randint(1, 4)
    n_lc = rng.randint(1, 3)
    comps = []
    for _ in range(n_lc):
        comps.append([rng.randrange(m), gen_lc(rng)])
    for _ in range(rng.randint(0, 2)):
        comps.insert(rng.randint(0, len(comps)), [rng.randrange(m), {"t": "PS", "phi": gens.gen_cs(rng)}])
    mode = rng.choice(["processor", "list"])
    mm = m if mode == "processor" else max(r0 + 1 for r0, _ in comps)
    inputs = []
    for _ in range(rng.randint(1, 2)):
        s = [0] * mm
        for _ in range(rng.randint(1, 4)):
            s[rng.randrange(mm)] += 1
        if s not in inputs:
            inputs.append(s)
    return {"m": m, "mode": mode, "backend": rng.choice(["SLOS", "SLOS", "Naive", "SLAP"]), "comps": comps,
            "inputs": inputs, "filter": 0, "malformed": None}


def thin_closed_form(prog, s):
    """exact product of binomials on the original modes"""
    mm = len(s)
    tau = [Fraction(1)] * mm
    for r0, c in prog["comps"]:
        if c["t"] == "LC":
            tau[r0] *= 1 - lc_loss(c)
    out = {(): Fraction(1)}
    for i in range(mm):
        nxt = {}
        for key, pr in out.items():
            for k in range(s[i] + 1):
                w = math.comb(s[i], k) * tau[i] ** k * (1 - tau[i]) ** (s[i] - k)
                if w:
                    nxt[key + (k,)] = pr * w
        out = nxt
    return out


def judge_thin(chk, prog):
    obs = observe(prog)
    if "err" in obs:
        return ("violation", "rejects-admissible-program", f"the real API raised {obs['err']} ({obs.get('msg')})")
    for run in obs["runs"]:
        want = thin_closed_form(prog, run["input"])
        if dist_close(run["results"], want):
            return ("violation", "loss-not-independent-thinning",
                    f"{run['via']} on input {run['input']}: a program of loss channels and phase shifters only must "
                    f"keep each photon of mode i independently with probability prod(1-loss); worst difference "
                    f"{dist_close(run['results'], want):.3g}")
    r = judge_obs(chk, prog, obs)          # the model of the rewrite (permanents of the enlarged circuit)
    if r is not None:
        return r
    # the first channel's block, with the input's photons as spectators, in Lean: permanents against the closed form
    lcs = [(r0, c) for r0, c in prog["comps"] if c["t"] == "LC"]
    r0, c = lcs[0]
    if "loss" in c:
        return None
    M = len(prog["inputs"][0])
    N = M + len(lcs)
    for s0 in prog["inputs"]:
        rep = chk.lean.ask({"op": "thinspect", "N": N, "a": r0, "b": M, "S": list(s0) + [0] * (N - M),
                            "c": core.rat(Fraction(c["a"], c["h"])), "s": core.rat(Fraction(c["b"], c["h"]))})
        if "err" in rep or rep["perm"] != rep["closed"]:
            return ("broken", "thinning-with-spectators-closed-form",
                    f"model: channel block by permanents differs from the closed form thinSpect ({rep.get('err')})")
        if len(lcs) == 1:
            marg = {}
            for k, v in rep["closed"]:
                marg[tuple(k[:M])] = marg.get(tuple(k[:M]), Fraction(0)) + Fraction(v)
            for run in obs["runs"]:
                if run["input"] == s0 and dist_close(run["results"], marg):
                    return ("broken", "thinning-with-spectators-vs-code",
                            f"Lean closed form thinSpect and {run['via']} disagree on input {s0} although the "
                            "binomial oracle agrees with the implementation")
    return None


def handle_thin(chk, prog):
    lcs = [r0 for r0, c in prog["comps"] if c["t"] == "LC"]
    chk.branch("thinning-with-spectators")
    spect = any(any(x and i not in lcs for i, x in enumerate(s)) for s in prog["inputs"])
    if spect:
        chk.branch("thinning-spectator-photons")
    if any(sum(s) >= 3 for s in prog["inputs"]):
        chk.branch("thinning-three-or-more-photons")
    if len(set(lcs)) < len(lcs):
        chk.branch("thinning-two-channels-one-mode")
    chk.count("thin-n", max(sum(s) for s in prog["inputs"]))
    res = judge_thin(chk, prog)
    chk.case(("thin",) + signature(prog) + (tuple(map(tuple, prog["inputs"])),), nontrivial=spect and len(lcs) >= 1,
             sample={"thin": [(r0, c["t"]) for r0, c in prog["comps"]], "inputs": prog["inputs"]})
    if res is not None:
        kind, sig, what = res

        def fails(p):
            try:
                r = judge_thin(chk, p)
            except core.LeanError:
                raise
            except Exception:
                return False
            return r is not None and r[1] == sig
        cur = copy.deepcopy(prog)
        for s0 in list(cur["inputs"]):
            if fails(dict(cur, inputs=[s0])):
                cur = dict(cur, inputs=[s0])
                break

        def f2(cs):
            if not any(c["t"] == "LC" for _, c in cs):
                return False
            if cur["mode"] == "list" and max(r0 + 1 for r0, _ in cs) != len(cur["inputs"][0]):
                return False
            return fails(dict(cur, comps=cs))
        cur["comps"] = gens.shrink_list(cur["comps"], f2, max_rounds=40)
        chk.fail(kind, sig, what, {"thin": cur})


# ------------------------------------------------------------------------------------------------
# extension 3 (b): heralds, post-selection, photon filter and keep_heralds on top of the loss layer
# (`ASimulatorDecorator._postprocess_bsd`), through SimulatorFactory.build(list) + set_selection / keep_heralds +
# probs / probs_svd, and through Processor.add_herald / set_postselection / min_detected_photons_filter + probs.
# Lean: `lossPost` (the code's two normalisations) and the specification `SimSpec.conditioned` on the original modes
# (`loss_selection_is_conditioning`).  Direct oracle: numpy permanents of the enlarged lossless circuit, conditioned
# here in Python as the property states it.
# ------------------------------------------------------------------------------------------------
PS_OPS = ["==", "<", ">", "<=", ">="]


def gen_ps_expr(rng, m, depth):
    """-> (PostSelect source string, Lean json)"""
    if depth == 0 or rng.random() < 0.45:
        modes = sorted(rng.sample(range(m), rng.randint(1, min(2, m))))
        op = rng.choice(PS_OPS)
        k = rng.randint(0, 1) if rng.random() < 0.8 else 2
        return f"[{','.join(map(str, modes))}] {op} {k}", {"c": modes, "op": op, "k": k}
    kind = rng.choice(["and", "or", "xor", "not"])
    a, ja = gen_ps_expr(rng, m, depth - 1)
    if kind == "not":
        return f"!({a})", {"not": ja}
    b, jb = gen_ps_expr(rng, m, depth - 1)
    sym = {"and": "&", "or": "|", "xor": "^"}[kind]
    return f"(({a}) {sym} ({b}))", {kind: [ja, jb]}


def ps_eval(j, t):
    if j is True:
        return True
    if "c" in j:
        v = sum(t[i] for i in j["c"])
        return {"==": v == j["k"], "<": v < j["k"], ">": v > j["k"], "<=": v <= j["k"], ">=": v >= j["k"]}[j["op"]]
    if "and" in j:
        return ps_eval(j["and"][0], t) and ps_eval(j["and"][1], t)
    if "or" in j:
        return ps_eval(j["or"][0], t) or ps_eval(j["or"][1], t)
    if "xor" in j:
        return ps_eval(j["xor"][0], t) != ps_eval(j["xor"][1], t)
    return not ps_eval(j["not"], t)


def gen_sel_case(rng, chk):
    prog = gen_program(rng, chk, max_m=4, max_lc=3, max_n=3)
    M = prog["m"] if prog["mode"] == "processor" else max(r0 + width(c) for r0, c in prog["comps"])
    r = rng.random()
    nh = 0 if r < 0.25 else (1 if r < 0.75 else 2)
    nh = min(nh, M - 1) if prog["mode"] == "processor" else min(nh, M)
    hmodes = sorted(rng.sample(range(M), nh))
    heralds = [[i, rng.choice([0, 0, 1, 1, 2]) if rng.random() < 0.9 else 3] for i in hmodes]
    if prog["mode"] == "processor":            # Processor.add_herald asserts `expected` in (0, 1)
        heralds = [[i, min(v, 1)] for i, v in heralds]
    while sum(v for _, v in heralds) > 3:
        heralds[rng.randrange(len(heralds))][1] = 0
    if rng.random() < 0.65:
        src, js = gen_ps_expr(rng, M, 2)
    else:
        src, js = None, True
    sel = {"heralds": heralds, "ps": js, "ps_src": src, "minDet": rng.choice([0, 0, 1, 1, 2, 3]),
           "keep": rng.random() < 0.5 if prog["mode"] == "list" else False}
    hv = dict(map(tuple, heralds))
    free = [i for i in range(M) if i not in hv] or list(range(M))
    inputs = []
    for _ in range(rng.randint(1, 2)):
        s = [0] * M
        if prog["mode"] == "processor" or rng.random() < 0.7:
            for i, v in hv.items():          # a Processor feeds each herald mode with its expected photons
                s[i] = v
        for _ in range(min(rng.choice([0, 1, 1, 2, 2, 3]), 4 - sum(s))):
            s[rng.choice(free)] += 1
        if s not in inputs:
            inputs.append(s)
    prog["inputs"] = inputs
    prog["filter"] = 0
    prog["sel"] = sel
    return prog


def observe_sel(prog):
    import perceval as pcvl
    from perceval.simulators import SimulatorFactory
    sel = prog["sel"]
    hv = {int(a): int(b) for a, b in sel["heralds"]}
    objs, mats = [], []
    try:
        for r0, spec in prog["comps"]:
            objs.append(build_comp(spec))
        mats = snapshot_mats(prog["comps"], objs)
        runs = []
        if prog["mode"] == "processor":
            p = pcvl.Processor(prog["backend"], prog["m"])
            for (r0, spec), obj in zip(prog["comps"], objs):
                p.add(r0, obj)
            for i, v in hv.items():
                p.add_herald(i, v)
            if sel["ps_src"]:
                p.set_postselection(pcvl.PostSelect(sel["ps_src"]))
            p.min_detected_photons_filter(sel["minDet"])
            for s in prog["inputs"]:
                p.with_input(pcvl.BasicState([x for i, x in enumerate(s) if i not in hv]))
                res = p.probs(precision=0)
                runs.append({"input": s, "via": "Processor.probs", "results": bsd_to_dict(res["results"]),
                             "physical_perf": float(res["physical_perf"]), "logical_perf": float(res["logical_perf"])})
        else:
            lst = [(tuple(range(r0, r0 + obj.m)), obj) for (r0, spec), obj in zip(prog["comps"], objs)]
            sim = SimulatorFactory.build(lst, prog["backend"])
            sim.set_precision(0)
            sim.set_selection(min_detected_photons_filter=sel["minDet"],
                              postselect=pcvl.PostSelect(sel["ps_src"]) if sel["ps_src"] else None, heralds=hv)
            sim.keep_heralds(sel["keep"])
            for s in prog["inputs"]:
                d0 = bsd_to_dict(sim.probs(pcvl.BasicState(s)))
                runs.append({"input": s, "via": "build(list).probs", "results": d0, "physical_perf": None,
                             "logical_perf": None})
                res = sim.probs_svd(pcvl.SVDistribution(pcvl.BasicState(s)))
                runs.append({"input": s, "via": "build(list).probs_svd", "results": bsd_to_dict(res["results"]),
                             "physical_perf": float(res["physical_perf"]), "logical_perf": float(res["logical_perf"])})
        return {"runs": runs, "mats": mats}
    except Exception as e:
        if is_repo_error(e):
            return {"err": type(e).__name__, "msg": str(e)[:200], "mats": mats}
        raise


def sel_spec(dist, sel, M):
    """the property's reading, from an unconditioned distribution {state: prob} on the original modes:
    -> (joint probabilities of the reported states, physical mass, retained mass)"""
    hv = {int(a): int(b) for a, b in sel["heralds"]}
    f = sel["minDet"] + sum(hv.values())
    phys = 0
    joint = {}
    for t, pr in dist.items():
        if sum(t) < f:
            continue
        phys += pr
        if all(t[i] == v for i, v in hv.items()) and ps_eval(sel["ps"], t):
            key = t if sel["keep"] else tuple(x for i, x in enumerate(t) if i not in hv)
            joint[key] = joint.get(key, 0) + pr
    return joint, phys, sum(joint.values())


def compare_sel(run, joint, phys, ret, tol):
    """observed run against joint probabilities / masses (floats or Fractions) -> dict of problems"""
    out = {}
    res = run["results"]
    phys, ret = float(phys), float(ret)
    if run["physical_perf"] is not None:
        if abs(run["physical_perf"] - phys) > tol + tol * phys:
            out["perf"] = phys
        # logical_perf is only meaningful when something passed the photon filter
        if phys > 1e-6 and abs(run["logical_perf"] * run["physical_perf"] - ret) > tol + tol * ret:
            out["lperf"] = ret / phys
        scale = run["physical_perf"] * run["logical_perf"] if phys > 1e-6 else 0.0
    else:
        scale = ret
    worst = 0.0
    for k in set(res) | set(joint):
        d = abs(res.get(k, 0.0) * scale - (float(joint.get(k, 0)) if scale else 0.0))
        if d > tol + tol * float(joint.get(k, 0)):
            worst = max(worst, d)
    if worst:
        out["dist"] = worst
    if ret > 1e-6 and (phys > 1e-6) and not core.close(sum(res.values()), 1.0):
        out["norm"] = sum(res.values())
    return out


def judge_sel(chk, prog):
    obs = observe_sel(prog)
    sel = prog["sel"]
    req = None
    try:
        req = lean_request(prog, obs["mats"] + [None] * (len(prog["comps"]) - len(obs["mats"])))
    except Exception:
        pass
    if req is None:
        return None
    req = dict(req, op="probssel", sel={"heralds": sel["heralds"], "ps": sel["ps"], "minDet": sel["minDet"],
                                         "keep": sel["keep"]})
    rep = chk.lean.ask(req)
    if "err" in obs:
        if "err" in rep:
            return None
        return ("violation", "selection-rejects-admissible-program",
                f"the real API raised {obs['err']} ({obs.get('msg')}) on a lossy program with a selection the model accepts")
    if "err" in rep:
        return ("broken", "selection-model-rejects", f"the model rejects ({rep['err']}) what the real API accepted")
    M = rep["M"]
    umat = None
    for run in obs["runs"]:
        mr = rep["runs"][prog["inputs"].index(run["input"])]
        if abs(float(Fraction(mr["mass"]) - 1)) > 1e-12:
            return ("broken", "enlarged-mass", f"the model's enlarged distribution has mass {mr['mass']}")
        # the theorem `loss_selection_is_conditioning` on the wire (its hypotheses: something passes the filter)
        sp = Fraction(mr["specPhysical"])
        if sp != 0 and sum(run["input"]) >= sel["minDet"]:
            if Fraction(mr["mass"]) == 1:        # the theorem's hypothesis holds exactly: exact equality
                same = (mr["physical"] == mr["specPhysical"] and mr["logical"] == mr["specLogical"] and
                        (Fraction(mr["retained"]) == 0 or (mr["results"] == mr["spec"] and mr["probs"] == mr["spec"])))
            else:                                # float leaves: unitary up to rounding only
                def dd(a, b):
                    return dist_close({tuple(k): float(Fraction(v)) for k, v in a},
                                      {tuple(k): Fraction(v) for k, v in b}, 1e-10)
                same = (abs(float(Fraction(mr["physical"]) - sp)) < 1e-10 and
                        abs(float(Fraction(mr["logical"]) - Fraction(mr["specLogical"]))) < 1e-10 and
                        (Fraction(mr["retained"]) < Fraction(1, 10**6) or
                         not (dd(mr["results"], mr["spec"]) or dd(mr["probs"], mr["spec"]))))
            if not same:
                return ("broken", "selection-model-vs-spec",
                        "the code-shaped model (two normalisations) and the specification (one conditioning) differ")
        if run["physical_perf"] is None:
            mj = {tuple(k): Fraction(v) * Fraction(mr["retained"]) for k, v in mr["probs"]}
            mphys, mret = sp, Fraction(mr["retained"])
        else:
            mphys, mlog = Fraction(mr["physical"]), Fraction(mr["logical"])
            mret = mphys * mlog
            mj = {tuple(k): Fraction(v) * mret for k, v in mr["results"]}
        probs = compare_sel(run, mj, mphys, mret, TOL)
        hkeys = M if sel["keep"] else M - len(sel["heralds"])
        if any(len(k) != hkeys for k in run["results"]):
            return ("violation", "selection-output-shape",
                    f"{run['via']} returned states that are not on the {hkeys} reported modes")
        if not probs:
            continue
        if umat is None:
            umat = oracle_matrix(prog, obs["mats"])
        od = oracle_dist(*umat, run["input"])
        joint, phys, ret = sel_spec(od, sel, M)
        if run["physical_perf"] is not None and sum(run["input"]) < sel["minDet"]:
            joint, phys, ret = {}, 0.0, 0.0
        oprobs = compare_sel(run, joint, phys, ret, 1e-7)
        what = (f"{run['via']} on input {run['input']} with heralds {sel['heralds']}, post-selection {sel['ps_src']!r}, "
                f"min_detected_photons {sel['minDet']}, keep_heralds {sel['keep']}")
        if "dist" in oprobs or "norm" in oprobs:
            return ("violation", "loss-selection-differs",
                    f"{what}: the reported distribution is not the enlarged lossless circuit's distribution on the "
                    f"original modes conditioned on the selection ({oprobs})")
        if "perf" in oprobs or "lperf" in oprobs:
            return ("violation", "loss-selection-perf",
                    f"{what}: physical_perf {run['physical_perf']!r} / logical_perf {run['logical_perf']!r}, the "
                    f"property gives {phys!r} / {(ret / phys if phys else None)!r}")
        return ("broken", "selection-model-vs-code", f"Lean model and {what} disagree ({probs}) but the numpy oracle "
                                                     "agrees with the implementation")
    return None


def handle_sel(chk, prog):
    sel = prog["sel"]
    chk.branch("selection-via-" + prog["mode"])
    if sel["heralds"]:
        chk.branch("selection-heralds")
        if any(v for _, v in sel["heralds"]):
            chk.branch("selection-herald-photons-in-filter")
    if sel["ps_src"]:
        chk.branch("selection-postselect")
    if sel["minDet"]:
        chk.branch("selection-photon-filter")
    if sel["keep"] and sel["heralds"]:
        chk.branch("selection-keep-heralds")
    if any(sum(s) < sel["minDet"] for s in prog["inputs"]) and prog["mode"] == "list":
        chk.branch("selection-inner-filter-drops-input")
    chk.count("sel-heralds", len(sel["heralds"]))
    chk.count("sel-minDet", sel["minDet"])
    res = judge_sel(chk, prog)
    chk.case(("sel",) + signature(prog) + (json.dumps(sel, sort_keys=True), tuple(map(tuple, prog["inputs"]))),
             nontrivial=bool(sel["heralds"] or sel["ps_src"] or sel["minDet"]),
             sample={"sel": {k: sel[k] for k in ("heralds", "ps_src", "minDet", "keep")}, "mode": prog["mode"],
                     "comps": [(r0, c["t"]) for r0, c in prog["comps"]][:8], "inputs": prog["inputs"][:2]})
    if res is not None:
        kind, sig, what = res

        def fails(p):
            try:
                r = judge_sel(chk, p)
            except core.LeanError:
                raise
            except Exception:
                return False
            return r is not None and r[1] == sig
        cur = copy.deepcopy(prog)
        for s0 in list(cur["inputs"]):
            if fails(dict(cur, inputs=[s0])):
                cur = dict(cur, inputs=[s0])
                break

        def f2(cs):
            if not any(sp["t"] == "LC" for _, sp in cs):
                return False
            if cur["mode"] == "list" and max(r0 + width(sp) for r0, sp in cs) != len(cur["inputs"][0]):
                return False
            return fails(dict(cur, comps=cs))
        cur["comps"] = gens.shrink_list(cur["comps"], f2, max_rounds=40)
        for cand_sel in (dict(cur["sel"], ps=True, ps_src=None), dict(cur["sel"], minDet=0),
                         dict(cur["sel"], keep=False)):
            cand = dict(cur, sel=cand_sel)
            if cand_sel != cur["sel"] and fails(cand):
                cur = cand
        try:
            again = judge_sel(chk, cur)
            if again is not None and again[1] == sig:
                what = again[2]
        except core.LeanError:
            raise
        except Exception:
            pass
        chk.fail(kind, sig, what, {"sel": cur})


# ------------------------------------------------------------------------------------------------
# ------------------------------------------------------------------------------------------------
# extension 5: detectors below the loss layer (LossSimulator._prepare_detectors_impl + simulate_detectors)

def gen_det_case(rng, chk, i=None):
    prog = gen_sel_case(rng, chk)
    M = prog["m"] if prog["mode"] == "processor" else max(r0 + width(c) for r0, c in prog["comps"])
    sel = prog["sel"]
    if prog["mode"] == "processor":          # a Processor's herald modes keep their own bookkeeping (C05/C13)
        sel["heralds"] = []
        prog["inputs"] = [s for s in prog["inputs"]]
    kind = rng.random()
    if i is not None and i % 8 < 2:          # every required kind of list occurs in every run
        kind = 0.0 if i % 8 == 0 else 0.2
    dets = []
    for i in range(M):
        if kind < 0.12:                      # PNR list: simulate_detectors hands the distribution back
            dets.append(rng.choice(["none", "pnr"]))
        elif kind < 0.24:                    # the caller's list is all-threshold: Mixed once padded
            dets.append("thr")
        else:
            dets.append(rng.choice(["none", "pnr", "thr", "thr", {"ppnr": [2, None]}, {"ppnr": [3, None]},
                                    {"ppnr": [3, 2]}, {"ppnr": [4, 3]}]))
    prog["dets"] = dets
    if i is not None and i % 8 == 1:         # threshold detectors meet a bunched input in every run
        s = list(prog["inputs"][0])
        j = max(range(M), key=lambda q: s[q])
        if s[j] < 2:
            if sum(s) + 2 - s[j] > 4:        # keep the driver's permanents small: at most 4 photons
                s = [0] * M
            s[j] = 2
        prog["inputs"][0] = s
    # photons where they meet a detector: at least one input with 2+ photons in total
    if all(sum(s) < 2 for s in prog["inputs"]):
        s = list(prog["inputs"][0])
        s[rng.randrange(M)] += 2
        prog["inputs"][0] = s
    return prog


def build_det(spec):
    from perceval.components import Detector
    if spec == "none":
        return None
    if spec == "pnr":
        return Detector.pnr()
    if spec == "thr":
        return Detector.threshold()
    w, mx = spec["ppnr"]
    return Detector.ppnr(w, mx) if mx is not None else Detector.ppnr(w)


def det_rows(det, need):
    """rows of `detect(n)`, n = 0..need, read from the real detector as exact rationals of its floats"""
    import perceval as pcvl
    rows = []
    for n in range(need + 1):
        d = det.detect(n)
        if isinstance(d, pcvl.BasicState):
            rows.append([(int(d[0]), Fraction(1))])
        else:
            rows.append(sorted((int(k[0]), Fraction(float(v))) for k, v in d.items()))
    return rows


def observe_det(prog):
    import perceval as pcvl
    from perceval.simulators import SimulatorFactory
    sel = prog["sel"]
    hv = {int(a): int(b) for a, b in sel["heralds"]}
    objs, mats, rows = [], [], []
    try:
        for r0, spec in prog["comps"]:
            objs.append(build_comp(spec))
        mats = snapshot_mats(prog["comps"], objs)
        dets = [build_det(d) for d in prog["dets"]]
        need = max(sum(s) for s in prog["inputs"])
        rows = [det_rows(d, need) if isinstance(spec, dict) else None for d, spec in zip(dets, prog["dets"])]
        runs = []
        if prog["mode"] == "processor":
            p = pcvl.Processor(prog["backend"], prog["m"])
            for (r0, spec), obj in zip(prog["comps"], objs):
                p.add(r0, obj)
            for i, d in enumerate(dets):
                if d is not None:
                    p.add(i, d)
            if sel["ps_src"]:
                p.set_postselection(pcvl.PostSelect(sel["ps_src"]))
            p.min_detected_photons_filter(sel["minDet"])
            for s in prog["inputs"]:
                p.with_input(pcvl.BasicState(s))
                res = p.probs(precision=0)
                runs.append({"input": s, "via": "Processor.probs", "results": bsd_to_dict(res["results"]),
                             "physical_perf": float(res["physical_perf"]), "logical_perf": float(res["logical_perf"])})
        else:
            lst = [(tuple(range(r0, r0 + obj.m)), obj) for (r0, spec), obj in zip(prog["comps"], objs)]
            sim = SimulatorFactory.build(lst, prog["backend"])
            sim.set_precision(0)
            sim.set_selection(min_detected_photons_filter=sel["minDet"],
                              postselect=pcvl.PostSelect(sel["ps_src"]) if sel["ps_src"] else None, heralds=hv)
            sim.keep_heralds(sel["keep"])
            for s in prog["inputs"]:
                res = sim.probs_svd(pcvl.SVDistribution(pcvl.BasicState(s)), detectors=list(dets))
                runs.append({"input": s, "via": "build(list).probs_svd(detectors)",
                             "results": bsd_to_dict(res["results"]),
                             "physical_perf": float(res["physical_perf"]), "logical_perf": float(res["logical_perf"])})
        return {"runs": runs, "mats": mats, "rows": rows}
    except Exception as e:
        if is_repo_error(e):
            return {"err": type(e).__name__, "msg": str(e)[:200], "mats": mats, "rows": rows}
        raise


def detect_py(dist, dets, rows):
    """the detectors applied in Python to a distribution {state: prob} on the original modes"""
    out = {}
    for t, pr in dist.items():
        parts = [((), pr)]
        for n, spec, row in zip(t, dets, rows):
            if spec in ("none", "pnr"):
                opts = [(n, 1.0)]
            elif spec == "thr":
                opts = [(min(n, 1), 1.0)]
            else:
                opts = [(c, float(w)) for c, w in row[n]]
            parts = [(k + (c,), q * w) for k, q in parts for c, w in opts]
        for k, q in parts:
            out[k] = out.get(k, 0.0) + q
    return out


def judge_det(chk, prog):
    obs = observe_det(prog)
    sel = prog["sel"]
    req = None
    try:
        req = lean_request(prog, obs["mats"] + [None] * (len(prog["comps"]) - len(obs["mats"])))
    except Exception:
        pass
    if req is None or len(obs["rows"]) != len(prog["dets"]):
        return None
    wire = [d if not isinstance(d, dict) else {"rows": [[[c, core.rat(w)] for c, w in row] for row in rows]}
            for d, rows in zip(prog["dets"], obs["rows"])]
    req = dict(req, op="probsdet", dets=wire,
               sel={"heralds": sel["heralds"], "ps": sel["ps"], "minDet": sel["minDet"], "keep": sel["keep"]})
    rep = chk.lean.ask(req)
    if "err" in obs:
        if "err" in rep:
            return None
        return ("violation", "detectors-with-loss-rejected",
                f"the real API raised {obs['err']} ({obs.get('msg')}) on a lossy program with detectors the model accepts")
    if "err" in rep:
        return ("broken", "detectors-model-rejects", f"the model rejects ({rep['err']}) what the real API accepted")
    M = rep["M"]
    pnr_list = all(d in ("none", "pnr") for d in prog["dets"])
    if (rep["dtype"] == "PNR") != pnr_list or rep["dtype"] not in ("PNR", "Mixed"):
        return ("broken", "padded-detection-type", f"the model's detection type of the padded list is {rep['dtype']}")
    umat = None
    for run in obs["runs"]:
        mr = rep["runs"][prog["inputs"].index(run["input"])]
        if not mr["commute"]:
            return ("broken", "detectors-do-not-commute-with-marginal",
                    "the model's detected enlarged distribution, marginalised, is not the detected marginal")
        if abs(float(Fraction(mr["mass"]) - 1)) > 1e-12 or abs(float(Fraction(mr["detMass"]) - 1)) > 1e-9:
            return ("broken", "enlarged-mass", f"the model's enlarged / detected mass is {mr['mass']} / {mr['detMass']}")
        mphys, mlog = Fraction(mr["physical"]), Fraction(mr["logical"])
        sp, sret = Fraction(mr["specPhysical"]), Fraction(mr["retained"])
        dropped = sum(run["input"]) < sel["minDet"]
        if not dropped and sp > Fraction(1, 10**6):
            # code-shaped model (inner filter on the enlarged detected state, three normalisations) against the
            # specification (detectors on the marginal, one conditioning)
            bad = abs(float(mphys - sp)) > 1e-9 or abs(float(mphys * mlog - sret)) > 1e-9
            if not bad and sret > Fraction(1, 10**6):
                bad = bool(dist_close({tuple(k): float(Fraction(v)) for k, v in mr["results"]},
                                      {tuple(k): Fraction(v) for k, v in mr["spec"]}, 1e-9))
            if bad:
                return ("broken", "detectors-model-vs-spec",
                        "the code-shaped model of simulate_detectors below the loss layer and the specification "
                        "(detectors on the marginal distribution) differ")
        mret = mphys * mlog
        mj = {tuple(k): Fraction(v) * mret for k, v in mr["results"]}
        probs = compare_sel(run, mj, mphys, mret, TOL)
        hkeys = M if sel["keep"] else M - len(sel["heralds"])
        if any(len(k) != hkeys for k in run["results"]):
            return ("violation", "detectors-output-shape",
                    f"{run['via']} returned states that are not on the {hkeys} reported modes")
        if not probs:
            continue
        if umat is None:
            umat = oracle_matrix(prog, obs["mats"])
        od = detect_py(oracle_dist(*umat, run["input"]), prog["dets"], obs["rows"])
        joint, phys, ret = sel_spec(od, sel, M)
        if dropped:
            joint, phys, ret = {}, 0.0, 0.0
        oprobs = compare_sel(run, joint, phys, ret, 1e-7)
        what = (f"{run['via']} on input {run['input']} with detectors {prog['dets']}, heralds {sel['heralds']}, "
                f"post-selection {sel['ps_src']!r}, min_detected_photons {sel['minDet']}, keep_heralds {sel['keep']}")
        if "dist" in oprobs or "norm" in oprobs:
            return ("violation", "loss-detectors-differ",
                    f"{what}: the reported distribution is not the enlarged lossless circuit's distribution on the "
                    f"original modes seen through the detectors and conditioned on the selection ({oprobs})")
        if "perf" in oprobs or "lperf" in oprobs:
            return ("violation", "loss-detectors-perf",
                    f"{what}: physical_perf {run['physical_perf']!r} / logical_perf {run['logical_perf']!r}, the "
                    f"property gives {phys!r} / {(ret / phys if phys else None)!r}")
        return ("broken", "detectors-model-vs-code", f"Lean model and {what} disagree ({probs}) but the numpy oracle "
                                                     "agrees with the implementation")
    return None


def handle_det(chk, prog):
    sel = prog["sel"]
    dets = prog["dets"]
    chk.branch("detectors-via-" + prog["mode"])
    if all(d in ("none", "pnr") for d in dets):
        chk.branch("detectors-pnr-list")
    if all(d == "thr" for d in dets):
        chk.branch("detectors-all-threshold-padded-mixed")
    if any(isinstance(d, dict) for d in dets):
        chk.branch("detectors-ppnr")
    if any(d == "thr" for d in dets) and any(x >= 2 for s in prog["inputs"] for x in s):
        chk.branch("detectors-threshold-bunched-input")
    if sel["minDet"] and not all(d in ("none", "pnr") for d in dets):
        chk.branch("detectors-inner-photon-filter")
    if sel["heralds"]:
        chk.branch("detectors-with-heralds")
    for d in dets:
        chk.count("det-kind", d if isinstance(d, str) else "ppnr")
    res = judge_det(chk, prog)
    chk.case(("det",) + signature(prog) + (json.dumps([sel, dets], sort_keys=True), tuple(map(tuple, prog["inputs"]))),
             nontrivial=not all(d in ("none", "pnr") for d in dets),
             sample={"dets": dets, "sel": {k: sel[k] for k in ("heralds", "ps_src", "minDet", "keep")},
                     "mode": prog["mode"], "comps": [(r0, c["t"]) for r0, c in prog["comps"]][:8],
                     "inputs": prog["inputs"][:2]})
    if res is not None:
        kind, sig, what = res

        def fails(p):
            try:
                r = judge_det(chk, p)
            except core.LeanError:
                raise
            except Exception:
                return False
            return r is not None and r[1] == sig
        cur = copy.deepcopy(prog)
        for s0 in list(cur["inputs"]):
            if fails(dict(cur, inputs=[s0])):
                cur = dict(cur, inputs=[s0])
                break

        def f2(cs):
            if not any(sp["t"] == "LC" for _, sp in cs):
                return False
            if cur["mode"] == "list" and max(r0 + width(sp) for r0, sp in cs) != len(cur["inputs"][0]):
                return False
            return fails(dict(cur, comps=cs))
        cur["comps"] = gens.shrink_list(cur["comps"], f2, max_rounds=40)
        for cand_sel in (dict(cur["sel"], ps=True, ps_src=None), dict(cur["sel"], minDet=0),
                         dict(cur["sel"], keep=False), dict(cur["sel"], heralds=[])):
            cand = dict(cur, sel=cand_sel)
            if cand_sel != cur["sel"] and fails(cand):
                cur = cand
        for i in range(len(cur["dets"])):
            if cur["dets"][i] != "none":
                cand = dict(cur, dets=cur["dets"][:i] + ["none"] + cur["dets"][i + 1:])
                if fails(cand):
                    cur = cand
        try:
            again = judge_det(chk, cur)
            if again is not None and again[1] == sig:
                what = again[2]
        except core.LeanError:
            raise
        except Exception:
            pass
        chk.fail(kind, sig, what, {"det": cur})



# ------------------------------------------------------------------------------------------------
# extension 5: a noisy source TOGETHER with heralds / post-selection / filter on the loss layer

def gen_msel_case(rng, chk, i=None):
    prog = gen_sel_case(rng, chk)
    while i is not None and (prog["mode"] == "list") != (i % 2 == 0):
        prog = gen_sel_case(rng, chk)
    M = prog["m"] if prog["mode"] == "processor" else max(r0 + width(c) for r0, c in prog["comps"])
    sel = prog["sel"]
    if prog["mode"] == "processor":
        prog["noise"] = list(rng.choice([x for x in SRC_PARAMS if tuple(x) != ("1", "1")]))
        prog["inputs"] = prog["inputs"][:1]
        prog["src"] = None
    else:
        # an explicit source distribution: 2-4 distinct Fock inputs, dyadic weights summing to one
        k = rng.randint(2, 4)
        states = [list(s) for s in prog["inputs"]]
        tries = 0
        while len(states) < k and tries < 30:
            tries += 1
            s = [0] * M
            for _ in range(rng.choice([0, 1, 1, 2, 2, 3])):
                s[rng.randrange(M)] += 1
            if s not in states:
                states.append(s)
        if i is not None and i % 4 == 0:       # the inner filter drops some inputs of the mixture, not all
            sel["minDet"] = max(1, sel["minDet"])
            if all(sum(s) >= sel["minDet"] for s in states):
                states.append([0] * M)
            if all(sum(s) < sel["minDet"] for s in states):
                s = [0] * M
                s[rng.randrange(M)] = sel["minDet"]
                states.append(s)
        cuts = sorted(rng.sample(range(1, 16), len(states) - 1)) if len(states) > 1 else []
        ws = [b - a for a, b in zip([0] + cuts, cuts + [16])]
        prog["src"] = [[core.rat(Fraction(w, 16)), s] for w, s in zip(ws, states)]
        prog["inputs"] = []
    return prog


def observe_msel(prog):
    import perceval as pcvl
    from perceval.simulators import SimulatorFactory
    sel = prog["sel"]
    hv = {int(a): int(b) for a, b in sel["heralds"]}
    objs, mats = [], []
    try:
        for r0, spec in prog["comps"]:
            objs.append(build_comp(spec))
        mats = snapshot_mats(prog["comps"], objs)
        if prog["mode"] == "processor":
            b, t = (float(Fraction(x)) for x in prog["noise"])
            p = pcvl.Processor(prog["backend"], prog["m"], noise=pcvl.NoiseModel(brightness=b, transmittance=t))
            for (r0, spec), obj in zip(prog["comps"], objs):
                p.add(r0, obj)
            for i, v in hv.items():
                p.add_herald(i, v)
            if sel["ps_src"]:
                p.set_postselection(pcvl.PostSelect(sel["ps_src"]))
            p.min_detected_photons_filter(sel["minDet"])
            s = prog["inputs"][0]
            p.with_input(pcvl.BasicState([x for i, x in enumerate(s) if i not in hv]))
            src = []
            for sv, w in p.source_distribution.items():
                comps = [(tuple(int(x) for x in st), complex(a)) for st, a in sv]
                if len(comps) != 1 or any(st.has_annotations for st, _ in sv):
                    return {"err": "SourceShape", "msg": f"unexpected source state {sv}", "mats": mats}
                src.append([float(w), list(comps[0][0])])
            res = p.probs(precision=0)
            via = f"Processor(noise {prog['noise']}).probs on {s}"
        else:
            lst = [(tuple(range(r0, r0 + obj.m)), obj) for (r0, spec), obj in zip(prog["comps"], objs)]
            sim = SimulatorFactory.build(lst, prog["backend"])
            sim.set_precision(0)
            sim.set_selection(min_detected_photons_filter=sel["minDet"],
                              postselect=pcvl.PostSelect(sel["ps_src"]) if sel["ps_src"] else None, heralds=hv)
            sim.keep_heralds(sel["keep"])
            src = [[float(Fraction(w)), list(s)] for w, s in prog["src"]]
            svd = pcvl.SVDistribution({pcvl.StateVector(pcvl.BasicState(s)): w for w, s in src})
            res = sim.probs_svd(svd)
            via = f"build(list).probs_svd on the source distribution {prog['src']}"
        run = {"via": via, "results": bsd_to_dict(res["results"]),
               "physical_perf": float(res["physical_perf"]), "logical_perf": float(res["logical_perf"])}
        return {"run": run, "src": src, "mats": mats}
    except Exception as e:
        if is_repo_error(e):
            return {"err": type(e).__name__, "msg": str(e)[:200], "mats": mats}
        raise


def judge_msel(chk, prog):
    obs = observe_msel(prog)
    sel = prog["sel"]
    if obs.get("err") == "SourceShape":
        return None
    req = None
    try:
        req = lean_request(dict(prog, inputs=[]), obs["mats"] + [None] * (len(prog["comps"]) - len(obs["mats"])))
    except Exception:
        pass
    if req is None:
        return None
    del req["inputs"]
    src = obs.get("src") or [[float(Fraction(w)), s] for w, s in (prog["src"] or [])]
    req.update({"op": "mixsel", "src": [[core.rat(Fraction(*float(w).as_integer_ratio())), s] for w, s in src],
                "sel": {"heralds": sel["heralds"], "ps": sel["ps"], "minDet": sel["minDet"], "keep": sel["keep"]}})
    rep = chk.lean.ask(req)
    if "err" in obs:
        if "err" in rep:
            return None
        return ("violation", "noisy-selection-rejects-admissible-program",
                f"the real API raised {obs['err']} ({obs.get('msg')}) on a lossy program with a noisy source and a "
                "selection the model accepts")
    if "err" in rep:
        return ("broken", "noisy-selection-model-rejects", f"the model rejects ({rep['err']}) what the real API accepted")
    M = rep["M"]
    run = obs["run"]
    if abs(float(Fraction(rep["mass"]) - 1)) > 1e-9 or abs(float(Fraction(rep["weights"]) - 1)) > 1e-9:
        return ("broken", "enlarged-mass", f"the model's mixture has mass {rep['mass']} (weights {rep['weights']})")
    mphys, mlog = Fraction(rep["physical"]), Fraction(rep["logical"])
    sp, sret = Fraction(rep["specPhysical"]), Fraction(rep["retained"])
    if sp > Fraction(1, 10**6):
        # `loss_noisy_selection_is_conditioning` on the wire
        bad = abs(float(mphys - sp)) > 1e-9 or abs(float(mphys * mlog - sret)) > 1e-9
        if not bad and sret > Fraction(1, 10**6):
            bad = bool(dist_close({tuple(k): float(Fraction(v)) for k, v in rep["results"]},
                                  {tuple(k): Fraction(v) for k, v in rep["spec"]}, 1e-9))
        if bad:
            return ("broken", "noisy-selection-model-vs-spec",
                    "the code-shaped model (inputs dropped by the inner filter, successive normalisations) and the "
                    "specification (one conditioning of the mixture of the marginals) differ")
    mret = mphys * mlog
    mj = {tuple(k): Fraction(v) * mret for k, v in rep["results"]}
    probs = compare_sel(run, mj, mphys, mret, TOL)
    hkeys = M if sel["keep"] else M - len(sel["heralds"])
    if any(len(k) != hkeys for k in run["results"]):
        return ("violation", "selection-output-shape",
                f"{run['via']} returned states that are not on the {hkeys} reported modes")
    if not probs:
        return None
    umat = oracle_matrix(prog, obs["mats"])
    od = {}
    for w, st in src:
        for k, v in oracle_dist(*umat, st).items():
            od[k] = od.get(k, 0.0) + w * v
    joint, phys, ret = sel_spec(od, sel, M)
    oprobs = compare_sel(run, joint, phys, ret, 1e-7)
    what = (f"{run['via']} with heralds {sel['heralds']}, post-selection {sel['ps_src']!r}, "
            f"min_detected_photons {sel['minDet']}, keep_heralds {sel['keep']}")
    if "dist" in oprobs or "norm" in oprobs:
        return ("violation", "noisy-loss-selection-differs",
                f"{what}: the reported distribution is not the mixture over the source's inputs of the enlarged "
                f"lossless circuit's distributions on the original modes conditioned on the selection ({oprobs})")
    if "perf" in oprobs or "lperf" in oprobs:
        return ("violation", "noisy-loss-selection-perf",
                f"{what}: physical_perf {run['physical_perf']!r} / logical_perf {run['logical_perf']!r}, the "
                f"property gives {phys!r} / {(ret / phys if phys else None)!r}")
    return ("broken", "noisy-selection-model-vs-code", f"Lean model and {what} disagree ({probs}) but the numpy oracle "
                                                       "agrees with the implementation")


def handle_msel(chk, prog):
    sel = prog["sel"]
    chk.branch("noisy-selection-via-" + prog["mode"])
    if sel["heralds"]:
        chk.branch("noisy-selection-heralds")
    if sel["ps_src"]:
        chk.branch("noisy-selection-postselect")
    if prog["mode"] == "list" and sel["minDet"] and any(sum(s) < sel["minDet"] for _, s in prog["src"]) \
            and any(sum(s) >= sel["minDet"] for _, s in prog["src"]):
        chk.branch("noisy-selection-inner-filter-drops-some-inputs")
    res = judge_msel(chk, prog)
    chk.case(("msel",) + signature(prog) + (json.dumps([sel, prog.get("noise"), prog["src"], prog["inputs"]],
                                                       sort_keys=True),),
             nontrivial=bool(sel["heralds"] or sel["ps_src"] or sel["minDet"]),
             sample={"sel": {k: sel[k] for k in ("heralds", "ps_src", "minDet", "keep")}, "mode": prog["mode"],
                     "noise": prog.get("noise"), "src": prog["src"],
                     "comps": [(r0, c["t"]) for r0, c in prog["comps"]][:8]})
    if res is not None:
        kind, sig, what = res

        def fails(p):
            try:
                r = judge_msel(chk, p)
            except core.LeanError:
                raise
            except Exception:
                return False
            return r is not None and r[1] == sig
        cur = copy.deepcopy(prog)

        def f2(cs):
            if not any(sp["t"] == "LC" for _, sp in cs):
                return False
            if cur["mode"] == "list" and max(r0 + width(sp) for r0, sp in cs) != len(cur["src"][0][1]):
                return False
            return fails(dict(cur, comps=cs))
        cur["comps"] = gens.shrink_list(cur["comps"], f2, max_rounds=40)
        for cand_sel in (dict(cur["sel"], ps=True, ps_src=None), dict(cur["sel"], minDet=0),
                         dict(cur["sel"], keep=False)):
            cand = dict(cur, sel=cand_sel)
            if cand_sel != cur["sel"] and fails(cand):
                cur = cand
        try:
            again = judge_msel(chk, cur)
            if again is not None and again[1] == sig:
                what = again[2]
        except core.LeanError:
            raise
        except Exception:
            pass
        chk.fail(kind, sig, what, {"msel": cur})



def load_corpus():
    out = []
    if os.environ.get("VERIF_C07_NO_CORPUS"):      # development aid: what does the generator find on its own?
        return out
    for p in sorted(glob.glob(os.path.join(core.VERIF, "corpus", "C07", "*.json"))):
        out.append(json.load(open(p)))
    return out


def silence_logger():
    try:
        from perceval.utils.logging import get_logger, channel, level
        for ch in (channel.user, channel.general, channel.resources):
            get_logger().set_level(level.off, ch)
    except Exception:
        pass


def run(chk: core.Check):
    silence_logger()
    chk.rule = ("random programs: 1-4 modes, 1-4 (thorough 6) LC channels with loss in {0, 1, (b/h)^2 for Pythagorean "
                "triples} interleaved with 0-5 BS/PS/PERM/Unitary leaves, 35% of channels on one 'hot' mode, 1-3 inputs "
                "with 0-3 photons, through Processor.probs (cached-simulator path on later inputs) and "
                "SimulatorFactory.build(list).probs/probs_svd, backends SLOS/Naive/SLAP, photon filter 0/1/2, 10% "
                "malformed; distinct = (m, entry point, positions+kinds+loss values, filter); non-trivial = at least two "
                "channels interleaved with a unitary, one on an interior mode or two on the same mode. "
                "Sessions (quick 90 / thorough 600): ONE long-lived Processor or SimulatorFactory.build(list) simulator "
                "queried after each of 1-4 steps: the loss of a channel given by a variable Parameter (possibly shared "
                "by several channels) or the phase of a PS changes (set_value, incl. to 0 and 1; an out-of-range value "
                "must be rejected and change nothing), a component is added (Processor.add / list.append), the list is "
                "edited in place (replace, delete) and handed again to set_circuit as the same object, the photon "
                "filter or the input changes, or nothing changes; every answer is compared with the model for the "
                "values at the time of the query, a failing one also with a fresh object; distinct = (program, steps), "
                "non-trivial = a value or the list changes between two queries. "
                "DensityMatrix.apply_loss cases (30% with 1-2 further losses on the same object): distinct (m, source "
                "kind, modes, p, states, further losses), non-trivial = a lossy mode is populated and 0 < p < 1; the "
                "whole complex matrix is compared entry by entry (superpositions with phases 1, i, -1, -i). "
                "evolve cases (quick 70 / thorough 700): list programs of 1-3 modes, 1-3 channels (40% cut down to one "
                "channel), 1-2 inputs each a Fock state or a 2-term superposition with coefficients from {1, i, -1, 2, "
                "1+i, 1/2, -3i/2} and 0-3 photons per term; every amplitude of SimulatorFactory.build(list).evolve "
                "against the model of _postprocess_sv_impl (normalised), with one channel also |evolve|^2 against the "
                "real probs. Noisy-source cases (60 / 600): Processor(noise=NoiseModel(brightness, transmittance)) from 7 "
                "dyadic settings with LC programs, 1-3 expected photons, filter 0/1/2: source distribution against the "
                "emission model, results and physical_perf against the mixture. LC.apply cases (80 / 800), in a child "
                "process: 1-3 modes, 1-3 term superpositions, one or two successive LC(loss).apply((r,), sv). "
                "Thinning-with-spectators cases (50 / 500): programs of 1-3 loss channels (also several on one mode) and "
                "0-2 phase shifters on 1-4 modes, 1-4 photons on any modes, Processor and list entry points: real "
                "distribution against the exact product of binomials (independent oracle), against the model of the "
                "rewrite, and the first channel's block with the input's photons as spectators by permanents against "
                "the closed form of lc_thinning_with_spectators. Selection cases (110 / 1100): random lossy programs "
                "(<= 3 channels) with 0-2 heralds (expected 0-3 photons; 0/1 through Processor.add_herald), a "
                "post-selection expression of depth <= 2 (65%), min_detected_photons 0-3, keep_heralds either way "
                "(list entry point), 1-2 inputs with <= 4 photons (herald modes fed or not), through "
                "SimulatorFactory.build(list).set_selection/keep_heralds/probs/probs_svd and Processor.add_herald/"
                "set_postselection/min_detected_photons_filter/probs: joint probabilities, physical_perf, logical_perf, "
                "key shapes and normalisation against the model of _postprocess_bsd, the model against the "
                "specification (exactly when the enlarged matrix is exactly unitary), disagreements classified by "
                "numpy permanents conditioned in Python. Detector cases (24 / 300): the same lossy programs with one "
                "detector per original mode from None / Detector.pnr / Detector.threshold / Detector.ppnr(2-4 wires, "
                "max_detections None/2/3) (12% all-PNR lists, 12% all-threshold lists), heralds (list entry point), "
                "post-selection, min_detected_photons 0-3, at least one input with two or more photons, through "
                "SimulatorFactory.build(list).probs_svd(svd, detectors=...) and Processor.add(mode, Detector)/probs: "
                "results, physical_perf, logical_perf, key shapes against the model of _prepare_detectors_impl + "
                "simulate_detectors + _postprocess_bsd, the model against the specification (detectors on the marginal, "
                "one conditioning) and the commutation theorem on the wire; oracle: numpy permanents, marginal, detectors "
                "and conditioning in Python. Noisy-source-with-selection cases (12 / 200): half through "
                "SimulatorFactory.build(list).probs_svd on an explicit source distribution (2-5 Fock inputs, dyadic "
                "weights; every fourth case has inputs below and above min_detected_photons so that the inner simulator "
                "drops some of them) with set_selection(heralds 0-3 photons, post-selection, filter)/keep_heralds, half "
                "through Processor(noise=NoiseModel(brightness, transmittance)) with add_herald/set_postselection/"
                "min_detected_photons_filter (the real source distribution is read from the Processor): results, "
                "physical_perf, logical_perf against the model of the inner drop + _postprocess_bsd, the model against "
                "the specification on the wire, oracle: numpy mixture conditioned in Python")
    chk.assumptions = [
        "leaf matrices are taken from each leaf's own compute_unitary() (their correctness is C14)",
        "the strong-simulation backends return the Fock-space probabilities of the matrix they are given (C02)",
        "Fock-state inputs or the emission-only noisy source (brightness, transmittance); heralds / post-selection / "
        "photon filter on top of the loss layer are modelled for a perfect source (the evaluation of a PostSelect "
        "expression and the Processor's herald bookkeeping are C04's / C05's; here they are only driven); detectors below "
        "the loss layer are modelled for a perfect source, the rows of a partially resolving detector being read from "
        "the real detector (its probabilities are not C07's); "
        "the source distribution itself is C06's (it is read from the real Processor and "
        "compared with the emission model), annotated photons (g2, indistinguishability) with loss are not modelled",
        "evolve is compared with the code as it is (amplitudes of different loss patterns added), not with the physical "
        "mixed state; the containers StateVector/BSDistribution (normalisation on iteration) are exqalibur's",
        "square roots: the model returns exact pairs (a, q) = a*sqrt(q); the one floating-point sqrt per contribution is "
        "taken in the harness",
    ]
    chk.required_branches = ["perm-branch", "adjacent-branch", "perm-after-earlier-channel", "two-channels-same-mode",
                             "loss-0", "loss-1", "via-processor", "via-list", "photon-filter", "rejected",
                             "dm-apply-loss", "dm-several-modes", "dm-repeated-loss", "layer-choice",
                             "session-loss-parameter-changed-processor",
                             "session-loss-parameter-changed-set-circuit-same-list",
                             "session-phase-parameter-changed", "session-shared-loss-parameter",
                             "session-processor-add-after-query", "session-list-edited-in-place",
                             "session-filter-changed", "session-input-changed",
                             "session-out-of-range-loss-rejected", "session-repeated-query",
                             "dm-off-diagonal", "dm-complex-off-diagonal",
                             "evolve-single-pattern", "evolve-several-patterns", "evolve-superposition",
                             "lc-apply", "lc-apply-twice", "lc-apply-superposition",
                             "noisy-source-with-loss", "noisy-source-with-loss-filter",
                             "thinning-with-spectators", "thinning-spectator-photons",
                             "thinning-three-or-more-photons", "thinning-two-channels-one-mode",
                             "selection-via-processor", "selection-via-list", "selection-heralds",
                             "selection-herald-photons-in-filter", "selection-postselect",
                             "selection-photon-filter", "selection-keep-heralds",
                             "selection-inner-filter-drops-input",
                             "detectors-via-processor", "detectors-via-list", "detectors-pnr-list",
                             "detectors-all-threshold-padded-mixed", "detectors-ppnr",
                             "detectors-threshold-bunched-input", "detectors-inner-photon-filter",
                             "detectors-with-heralds",
                             "noisy-selection-via-processor", "noisy-selection-via-list", "noisy-selection-heralds",
                             "noisy-selection-postselect", "noisy-selection-inner-filter-drops-some-inputs"]
    chk.lean = core.LeanDriver("C07")
    rng = chk.rng
    for item in load_corpus():
        replay_item(chk, item)
    guarded(chk, "layer-choice", {"layers": []}, handle_layers, chk)
    handle_thinning(chk)
    n = chk.pick(220, 2500)
    max_lc = chk.pick(4, 6)
    for i in range(n):
        if rng.random() < 0.1:
            prog = gen_malformed(rng, chk)
        else:
            prog = gen_program(rng, chk, max_lc=max_lc)
        handle(chk, prog)
    for i in range(chk.pick(90, 600)):
        handle_session(chk, gen_session(rng, chk, max_lc=chk.pick(3, 4)))
    for i in range(chk.pick(120, 1200)):
        case = gen_dm_case(rng)
        guarded(chk, "dm-apply-loss", {"dm": case}, handle_dm, chk, case)
    handle_dilation(chk)
    for i in range(chk.pick(70, 700)):
        handle_evolve(chk, gen_evolve_case(rng, chk))
    for i in range(chk.pick(60, 600)):
        handle_source(chk, gen_source_case(rng, chk))
    handle_lcapply_batch(chk, [gen_lcapply_case(rng, k) for k in range(chk.pick(80, 800))])
    for i in range(chk.pick(50, 500)):
        handle_thin(chk, gen_thin_case(rng, chk))
    for i in range(chk.pick(110, 1100)):
        handle_sel(chk, gen_sel_case(rng, chk))
    for i in range(chk.pick(24, 300)):
        handle_det(chk, gen_det_case(rng, chk, i))
    for i in range(chk.pick(12, 200)):
        handle_msel(chk, gen_msel_case(rng, chk, i))


def guarded(chk, what, replay, fn, *args):
    """an exception of the real code outside the program runner is a finding, not a harness crash"""
    try:
        fn(*args)
    except core.LeanError:
        raise
    except Exception as e:
        import traceback
        tb = traceback.extract_tb(e.__traceback__)
        in_repo = any("perceval" in (fr.filename or "") for fr in tb)
        if not in_repo:
            raise
        chk.fail("violation", what + "-raises", f"{what}: the implementation raised {type(e).__name__}: {str(e)[:160]}",
                 replay)


def replay_item(chk, item):
    if "program" in item:
        handle(chk, item["program"])
    elif "session" in item:
        handle_session(chk, item["session"])
    elif "dm" in item:
        guarded(chk, "dm-apply-loss", item, handle_dm, chk, item["dm"])
    elif "layers" in item:
        guarded(chk, "layer-choice", item, handle_layers, chk)
    elif "evolve" in item:
        handle_evolve(chk, item["evolve"])
    elif "source" in item:
        handle_source(chk, item["source"])
    elif "lcapply" in item:
        handle_lcapply_batch(chk, [item["lcapply"]])
    elif "dilation" in item:
        handle_dilation(chk)
    elif "thin" in item and isinstance(item["thin"], dict):
        handle_thin(chk, item["thin"])
    elif "sel" in item:
        handle_sel(chk, item["sel"])
    elif "det" in item:
        handle_det(chk, item["det"])
    elif "msel" in item:
        handle_msel(chk, item["msel"])
    else:
        handle_thinning(chk)


def replay(chk, data):
    silence_logger()
    chk.lean = core.LeanDriver("C07")
    chk.rule = "replay of one stored case"
    replay_item(chk, data["replay"])
