"""C14 — elementary components realise their documented matrices for all parameter values.

Eight correspondence streams, each run on the REAL classes (`BS`, `PS`, `WP`, `HWP`, `QWP`, `PR`, `PERM`,
`Parameter`, `Expression`) and on the Lean model (`Model/C14.lean` through `Driver/C14.lean`):

* matrix — every component/convention at rational-trigonometric points (Pythagorean-triple cos/sin,
  exact in the model) shifted by 0 … ±50 (occasionally ±1000) declared periods; value given to the
  constructor, through a named parameter (set once / twice), forced onto a fixed parameter, or held by a
  parameter that was set before it was bound.  Compared: `compute_unitary(use_symbolic=False)`,
  `use_symbolic=True` evaluated (with values and with free symbols substituted afterwards), `.U`,
  `definition()` against the model's exact matrix (tolerance 1e-9); stored values against the model's
  exact `wrap`; declared bounds exactly.
* wrap — `Parameter._check_value` through `Parameter(...)`, `set_value`, `fix_value` and the component
  constructors on every exact float multiple `bound + k*span`, |k| <= 100, of the three declared intervals
  (exhaustive), random far-out values, arbitrary bounds, non-periodic / one-sided / unbounded parameters.
* perm — every permutation of <= 5 modes (exhaustive), random ones up to 12 modes, malformed lists.
* expr — parameters bound by name and by arithmetic expressions (+ - * / ** neg, nesting <= 3) to
  component slots, values changed repeatedly (accepted, wrapped and rejected calls); after every call the
  slot values are compared with the model's exact evaluation at the live values and the matrices with the
  model evaluated exactly on the doubles `(cos x, sin x)` the implementation holds.  Numeric operands are
  short rationals and "long" numbers (17-digit floats such as pi and 1/3, floats printed in exponent
  notation, integral floats, integers >= 1e6): the expression's text is parsed back by sympy, so the operand
  the model computes with is the exact value of the double handed to the operator.  A deterministic sweep
  puts every operator form on every long operand; real / negative exponents (`p**2.5`, `p**-1`) are outside
  the model's language and judged by the direct oracle alone.

* life — the Parameter lifecycle and parameters shared between slots (`Model/C14Life.lean`): whole histories on
  1-3 parameter objects (no / own / one-sided / degenerate ranges, fixed from the start) and up to 3 components
  (PS, BS, WP, PR; slots given as numbers or as shared objects, also across slots of different declared ranges):
  constructor, `set_value(force)`, `fix_value`, `reset`, `set_periodic`, `assign` (also through
  `compute_unitary(assign=)`), `reset_parameters`, `copy`.  After every call: the exception class, every object's
  min / max / periodic / is_variable / value, every component's `vars`, `defined`, `get_variables()`, the copy.
  The model answers for both `_set_parameter` rules (pinned: periodic over the intersection of the ranges;
  repaired, `fixes/C14-shared-range.diff`: periodic only on exactly the slot's range); the code must follow one
  of them, and the property itself is decided by the direct oracle (accepted value inside the bounds, fixed
  parameters unchanged, numeric matrix = documented matrix at the values REQUESTED for the parameters).

* xsess — Expression objects and the symbolic branch (`Model/C14Expr.lean`, `Model/C14Sym.lean`): histories on raw
  parameters and `Expression` objects built with the overloaded operators, from text (`Expression("sin(a)+b**-2", …)`:
  + - * / ** with positive and negative integer exponents, unary minus, sin cos exp sqrt acos, pi), from other
  Expression objects (`e1*e2`, `e1+b`, `-e1`, `e1**-2`) and by `BS.r_to_theta`; components BS (3 conventions), PS, WP,
  HWP, QWP, PR whose slots hold numbers, the sympy default, raw parameters (free / valued / fixed) or Expression objects
  (one object in several slots and components); `set_value` / `fix_value` / `reset` on raw parameters AND on
  Expression objects (directly and through `component.assign`).  After every call: exception class, every parameter,
  every Expression object (`_min`, `_max`, `_periodic`, `_symbol`, `_value`, `defined`), every slot read `float()`, the
  numeric matrix and the symbolic matrix evaluated at the current values; at the end the free symbols of the symbolic
  matrix and its value at two points (inside and far outside the nominal ranges), `.U` on tame expressions.  The model
  evaluates the functions through a table of `math.*` values that the harness supplies on request (they are external
  numerics).  A deterministic sweep covers every leaf kind × every kind of slot content.  `PBS` (stream pbs): numeric,
  symbolic, `.U`, `definition()` against the model's matrix.
* pserr — `PS(phi, max_error != 0)`: stored amplitude against the model's wrap into [0, pi]; every draw of the numeric
  and symbolic matrix is a unit phase within `max_error` of `phi` (the draw itself is external).
* refl — `BS.theta_to_r`, `BS.r_to_theta`, `BS.reflectivity` (`Model/C14Refl.lean`): theta given as a number, a fixed /
  free / valued parameter or the Expression `2*t`, at exact half-angle points shifted by whole spans; kind (number or
  Expression), free symbols and value of what is returned before and after the values are set, against the model
  (exact `cos²(θ/2)`, exact squared moduli, trees evaluated with the supplied `math.*` table); direct oracle on the
  real code: reflectivity = squared moduli of its own numeric matrix, `BS(r_to_theta(r))` has `|U00|² = r`.

Direct oracles (independent of the Lean driver) used to classify a disagreement: the documentation's
formulas written in numpy/cmath, `lo <= stored <= hi and stored ≡ requested (mod span)`, `U e_k = e_{l[k]}`; for Expression objects that were not given a
value: the slot reads the expression evaluated in plain Python floats at the current values of the raw parameters, and
both matrices are the documented matrix at the values the slots read.
"""
from __future__ import annotations

import cmath
import copy
import glob
import itertools
import json
import math
import multiprocessing as mp
import os
import random
from fractions import Fraction

import numpy as np

from . import core

PI = math.pi
TWO_PI = 2 * math.pi
FOUR_PI = 4 * math.pi

# declared bounds per slot (DESIGN 7/C14): theta [0,4pi], phases [0,2pi], delta/xsi [-pi,pi]
SLOTS = {
    "BS": [("theta", 0.0, FOUR_PI), ("phi_tl", 0.0, TWO_PI), ("phi_bl", 0.0, TWO_PI),
           ("phi_tr", 0.0, TWO_PI), ("phi_br", 0.0, TWO_PI)],
    "PS": [("phi", 0.0, TWO_PI)],
    "WP": [("delta", -PI, PI), ("xsi", -PI, PI)],
    "HWP": [("xsi", -PI, PI)],
    "QWP": [("xsi", -PI, PI)],
    "PR": [("delta", -PI, PI)],
}
KINDS = [("BS", "Rx"), ("BS", "Ry"), ("BS", "H"), ("PS", None), ("WP", None), ("HWP", None), ("QWP", None),
         ("PR", None)]
MODES = ["const", "named", "named2", "force", "fixedP", "preset"]
WRAPPING_MODES = ("const", "named", "named2", "force")
INTERVALS = {"2pi": (0.0, TWO_PI), "4pi": (0.0, FOUR_PI), "pm": (-PI, PI)}


def slot_bounds(kind, slot):
    for n, lo, hi in SLOTS[kind]:
        if n == slot:
            return lo, hi
    raise KeyError(slot)


# ------------------------------------------------------------------------------------------------
# numbers
# ------------------------------------------------------------------------------------------------
def base_angle(slot, spec, lo, hi):
    """float angle of the exact point (c, s), brought into the declared interval."""
    c, s = Fraction(spec["c"]), Fraction(spec["s"])
    a = math.atan2(float(s), float(c))
    if slot == "theta":         # (c, s) are cos/sin of theta/2
        a = 2 * a
    if a < lo:
        a += hi - lo
    return a


def angle_value(slot, spec, lo, hi):
    return base_angle(slot, spec, lo, hi) + spec["k"] * (hi - lo)


def raw_ang(x):
    """the doubles (cos x, sin x) as the implementation computes them, as exact dyadic rationals"""
    return {"raw": [core.rat(math.cos(x)), core.rat(math.sin(x))]}


def cmat(m):
    return [[complex(z) for z in r] for r in m]


def finite_mat(m):
    return all(math.isfinite(z.real) and math.isfinite(z.imag) for r in m for z in r)


def equiv_mod(r, v, span, tol=1e-9):
    """r ≡ v (mod span) up to tol (all floats taken as the exact rationals they are)"""
    q = (Fraction(r) - Fraction(v)) / Fraction(span)
    return abs(q - round(q)) * Fraction(span) <= Fraction(tol) * (1 + abs(Fraction(v)) / 1000)


def close_mod(r, exact, lo, hi, tol=core.TOL):
    """|r - exact| small, or both sit at the two ends of the interval (which are the same angle)"""
    if core.close(r, exact, tol):
        return True
    return abs(abs(r - exact) - (hi - lo)) <= tol * (1 + abs(hi - lo))


# ------------------------------------------------------------------------------------------------
# the documentation's formulas (docs/source/components.rst), direct oracle
# ------------------------------------------------------------------------------------------------
def doc_matrix(kind, conv, a):
    e = lambda x: cmath.exp(1j * x)  # noqa: E731
    if kind == "BS":
        c, s = math.cos(a["theta"] / 2), math.sin(a["theta"] / 2)
        tl, bl, tr, br = a["phi_tl"], a["phi_bl"], a["phi_tr"], a["phi_br"]
        if conv == "Rx":
            return [[e(tl + tr) * c, 1j * e(tr + bl) * s], [1j * e(tl + br) * s, e(br + bl) * c]]
        if conv == "Ry":
            return [[e(tl + tr) * c, -e(tr + bl) * s], [e(tl + br) * s, e(br + bl) * c]]
        return [[e(tl + tr) * c, e(tr + bl) * s], [e(tl + br) * s, -e(br + bl) * c]]
    if kind == "PS":
        return [[e(a["phi"])]]
    if kind in ("WP", "HWP", "QWP"):
        d = a["delta"] if kind == "WP" else (PI / 2 if kind == "HWP" else PI / 4)
        x = a["xsi"]
        return [[1j * math.sin(d) * math.cos(2 * x) + math.cos(d), 1j * math.sin(d) * math.sin(2 * x)],
                [1j * math.sin(d) * math.sin(2 * x), -1j * math.sin(d) * math.cos(2 * x) + math.cos(d)]]
    if kind == "PR":
        d = a["delta"]
        return [[math.cos(d), math.sin(d)], [-math.sin(d), math.cos(d)]]
    raise KeyError(kind)


def lean_matrix_req(kind, conv, ang):
    """ang: slot -> driver angle ([c, s] exact, or {"raw": [c, s]})"""
    if kind == "BS":
        return {"op": "bs", "conv": conv, "h": ang["theta"], "tl": ang["phi_tl"], "bl": ang["phi_bl"],
                "tr": ang["phi_tr"], "br": ang["phi_br"]}
    if kind == "PS":
        return {"op": "ps", "phi": ang["phi"]}
    if kind == "WP":
        return {"op": "wp", "d": ang["delta"], "x": ang["xsi"]}
    if kind == "HWP":
        return {"op": "wp", "d": ["0", "1"], "x": ang["xsi"]}
    if kind == "QWP":
        return {"op": "wp", "d": raw_ang(PI / 4), "x": ang["xsi"]}
    if kind == "PR":
        return {"op": "pr", "d": ang["delta"]}
    raise KeyError(kind)


def raw_angles(kind, vals):
    """slot -> raw driver angle from the float slot values"""
    return {s: raw_ang(vals[s] / 2 if s == "theta" else vals[s]) for s, _, _ in SLOTS[kind]}


# ------------------------------------------------------------------------------------------------
# real code (runs in worker processes; everything returned is picklable)
# ------------------------------------------------------------------------------------------------
def sym_np(M, vals=None):
    """evaluate a (possibly symbolic) perceval matrix numerically; free symbols are looked up by name"""
    import sympy as sp
    if isinstance(M, np.ndarray):
        return cmat(np.array(M, dtype=complex).tolist())
    M = sp.Matrix(M)
    subs = {s: (vals or {})[s.name] for s in M.free_symbols}
    out = M.subs(subs).evalf(20)
    return cmat(np.array(out.tolist(), dtype=complex).tolist())


def build_component(kind, conv, args, how="ctor"):
    from perceval.components import BS, PS, WP, HWP, QWP, PR, BSConvention
    if kind == "BS":
        if how == "static":
            return getattr(BS, conv)(**args)
        return BS(convention=BSConvention[conv], **args)
    return {"PS": PS, "WP": WP, "HWP": HWP, "QWP": QWP, "PR": PR}[kind](**args)


def observe_matrix(case):
    import perceval as pcvl
    kind, conv = case["kind"], case["conv"]
    out = {}
    stage = "construct"
    try:
        args, named = {}, {}
        req = {}
        for slot, lo, hi in SLOTS[kind]:
            sp_ = case["slots"][slot]
            v = angle_value(slot, sp_, lo, hi)
            req[slot] = v
            mode = sp_["mode"]
            if mode == "const":
                args[slot] = v
            elif mode in ("named", "named2"):
                p = pcvl.P(slot + "_p")
                args[slot] = p
                named[slot] = p
            elif mode == "force":
                args[slot] = sp_["decoy"]
            elif mode == "fixedP":
                args[slot] = pcvl.P(slot + "_p", v)
            elif mode == "preset":
                p = pcvl.P(slot + "_p")
                p.set_value(v)
                args[slot] = p
        comp = build_component(kind, conv, args, case.get("how", "ctor"))
        stage = "set"
        for slot, _, _ in SLOTS[kind]:
            if case["slots"][slot]["mode"] == "force":
                comp.param(slot).set_value(req[slot], force=True)
        if named:
            stage = "symbolic-free"
            M = comp.compute_unitary(use_symbolic=True)
            out["symvar"] = sym_np(M, {p.name: req[s] for s, p in named.items()})
        stage = "set"
        for slot, p in named.items():
            if case["slots"][slot]["mode"] == "named2":
                p.set_value(case["slots"][slot]["decoy"])
            p.set_value(req[slot])
        stage = "read"
        out["stored"] = {s: float(comp.param(s)) for s, _, _ in SLOTS[kind]}
        out["bounds"] = {s: [comp.param(s).min, comp.param(s).max, bool(comp.param(s).is_periodic)]
                         for s, _, _ in SLOTS[kind]}
        stage = "numeric"
        out["num"] = cmat(np.array(comp.compute_unitary(use_symbolic=False), dtype=complex).tolist())
        out["num2"] = cmat(np.array(comp.compute_unitary(), dtype=complex).tolist())
        stage = "symbolic"
        out["sym"] = sym_np(comp.compute_unitary(use_symbolic=True))
        if case.get("deep"):
            stage = "U"
            out["U"] = sym_np(comp.U)
            stage = "definition"
            vals = dict(req)
            vals["max_error"] = 0
            out["def"] = sym_np(comp.definition(), vals)
    except Exception as e:  # noqa: BLE001
        out["err"] = type(e).__name__
        out["stage"] = stage
        out["msg"] = str(e)[:200]
    return out


def observe_wrap(case):
    import perceval as pcvl
    from perceval.components import BS, PS, WP, PR
    lo, hi, per, v, entry = case["lo"], case["hi"], case["periodic"], case["v"], case["entry"]
    # the TYPE of the value handed in (the model sees the number only): Python int, numpy float64, float
    if case.get("vtype") == "int":
        v = int(v)
    elif case.get("vtype") == "np64":
        v = np.float64(v)
    try:
        if entry == "check":
            r = pcvl.Parameter._check_value(v, lo, hi, per)
        elif entry == "ctor":
            r = float(pcvl.P("x", v, lo, hi, per))
        elif entry == "set":
            p = pcvl.P("x", None, lo, hi, per)
            p.set_value(v)
            r = float(p)
        elif entry == "set2":
            p = pcvl.P("x", None, lo, hi, per)
            p.set_value(lo if lo is not None else hi if hi is not None else 0.0)
            p.set_value(v)
            r = float(p)
        elif entry == "fix":
            p = pcvl.P("x", None, lo, hi, per)
            p.fix_value(v)
            r = float(p)
        elif entry == "PS":
            r = float(PS(v).param("phi"))
        elif entry == "BS.theta":
            r = float(BS(theta=v).param("theta"))
        elif entry == "BS.phi":
            r = float(BS.H(phi_tr=v).param("phi_tr"))
        elif entry == "PR":
            r = float(PR(v).param("delta"))
        elif entry == "WP.xsi":
            r = float(WP(0.25, v).param("xsi"))
        elif entry == "PS.named":
            p = pcvl.P("x")
            c = PS(p)
            p.set_value(v)
            r = float(c.param("phi"))
        else:
            raise KeyError(entry)
        return {"r": float(r)}
    except Exception as e:  # noqa: BLE001
        return {"err": type(e).__name__, "msg": str(e)[:200]}


def observe_perm(case):
    import perceval as pcvl
    from perceval.components import PERM
    l = case["l"]
    try:
        c = PERM(list(l))
    except Exception as e:  # noqa: BLE001
        return {"err": type(e).__name__}
    out = {}
    try:
        u = np.array(c.compute_unitary(), dtype=complex)
        out["num"] = cmat(u.tolist())
        out["sym"] = sym_np(c.compute_unitary(use_symbolic=True))
        out["U"] = sym_np(c.U)
        out["def"] = sym_np(c.definition())
        out["vec"] = [int(x) for x in c.perm_vector]
        out["m"] = int(c.m)
        out["sends"] = [[int(i) for i in np.nonzero(u[:, k])[0]] for k in range(len(l))]
        if len(l) <= 8:
            app = []
            for k in range(len(l)):
                st = [0] * len(l)
                st[k] = 1
                sv = c.apply(tuple(range(len(l))), pcvl.BasicState(st))
                app.append(sorted([list(s) for s in sv.keys()]))
            out["apply"] = app
    except Exception as e:  # noqa: BLE001
        out["err2"] = type(e).__name__ + ": " + str(e)[:150]
    return out


# expression ASTs: {"v": name} | {"c": "num/den"} | {"op": add|sub|mul|div, "a", "b"} | {"op": "neg", "a"}
# | {"op": "pow", "a", "n"}
def ast_vars(a):
    if "v" in a:
        return {a["v"]}
    if "c" in a:
        return set()
    out = ast_vars(a["a"])
    if "b" in a:
        out |= ast_vars(a["b"])
    return out


def ast_depth(a):
    if "v" in a or "c" in a:
        return 0
    return 1 + max(ast_depth(a["a"]), ast_depth(a["b"]) if "b" in a else 0)


def const_py(node):
    """the Python number handed to the overloaded operator: `{"c": q}` is an int when q is integral and the
    double nearest to q otherwise; `{"c": q, "f": 1}` is always a float (q is then the exact dyadic value of
    that double, so the model computes with exactly the operand the code was given)"""
    q = Fraction(node["c"] if isinstance(node, dict) else node)
    if isinstance(node, dict) and node.get("f"):
        return float(q)
    return int(q) if q.denominator == 1 else float(q)


def const_node(k):
    return {"c": core.rat(k), "f": 1} if isinstance(k, float) else {"c": str(int(k))}


def is_long(k):
    """more than 6 significant digits (a `%g` rendering does not give the number back)"""
    return float(f"{k:g}") != k


def has_powf(a):
    if "v" in a or "c" in a:
        return False
    return a["op"] == "powf" or has_powf(a["a"]) or ("b" in a and has_powf(a["b"]))


def lean_ast(a):
    """the model's expression language has natural exponents only: a slot whose expression contains a
    real / negative exponent is judged by the direct oracle alone (the model is sent a placeholder)"""
    return {"v": sorted(ast_vars(a))[0]} if has_powf(a) else a


def ast_str(a):
    """the expression as the user writes it in Python"""
    if "v" in a:
        return a["v"]
    if "c" in a:
        return repr(const_py(a))
    if a["op"] == "neg":
        return f"-({ast_str(a['a'])})"
    if a["op"] == "pow":
        return f"({ast_str(a['a'])})**{a['n']}"
    if a["op"] == "powf":
        return f"({ast_str(a['a'])})**{const_py({'c': a['x'], 'f': a.get('f')})!r}"
    return f"({ast_str(a['a'])} {dict(add='+', sub='-', mul='*', div='/')[a['op']]} {ast_str(a['b'])})"


def ast_operands(a, depth=0):
    """(operator form, Python operand) of every numeric operand: mul/add/sub/div = number on the right,
    rmul/radd/rsub = number on the left, pow = the exponent"""
    if "v" in a or "c" in a:
        return
    if a["op"] == "powf":
        yield "pow", const_py({"c": a["x"], "f": a.get("f")})
    for sub in ("a", "b"):
        if sub in a:
            if "c" in a[sub]:
                yield (a["op"] if sub == "b" else "r" + a["op"]), const_py(a[sub])
            else:
                yield from ast_operands(a[sub])


def build_expr(a, P, memo=None):
    """the real Expression object of an AST, built with the overloaded operators.  Two Expression objects
    with the same (sympy-normalised) name cannot live in one component ("two parameters with the same
    name in the circuit"), so a repeated sub-expression is built once and shared, as a user has to (the
    generator never puts two different expressions with the same normalised name into one case)."""
    memo = {} if memo is None else memo
    if "v" in a:
        return P[a["v"]]
    if "c" in a:
        return const_py(a)
    x = build_expr(a["a"], P, memo)
    op = a["op"]
    if op == "neg":
        r = -x
    elif op == "pow":
        r = x ** a["n"]
    elif op == "powf":
        r = x ** const_py({"c": a["x"], "f": a.get("f")})
    else:
        y = build_expr(a["b"], P, memo)
        if op == "add":
            r = x + y
        elif op == "sub":
            r = x - y
        elif op == "mul":
            r = x * y
        elif op == "div":
            r = x / y
        else:
            raise KeyError(op)
    if hasattr(r, "name"):
        r = memo.setdefault(json.dumps(a, sort_keys=True), r)
    return r


def eval_ast(a, env):
    """harness-side evaluation (floats or Fractions); None when undefined / division by zero"""
    if "v" in a:
        return env.get(a["v"])
    if "c" in a:
        return Fraction(a["c"]) if any(isinstance(x, Fraction) for x in env.values()) else float(Fraction(a["c"]))
    x = eval_ast(a["a"], env)
    if x is None:
        return None
    op = a["op"]
    if op == "neg":
        return -x
    if op == "pow":
        return x ** a["n"]
    if op == "powf":        # real exponent: defined here for a positive base only (float arithmetic)
        xf, ex = float(x), float(Fraction(a["x"]))
        if not (xf > 0) or abs(math.log(xf) * ex) > 600:
            return None
        return xf ** ex
    y = eval_ast(a["b"], env)
    if y is None:
        return None
    if op == "add":
        return x + y
    if op == "sub":
        return x - y
    if op == "mul":
        return x * y
    if y == 0:
        return None
    return x / y


def ast_scale(a, env):
    """(|.|-scale, well_conditioned): value computed with every operation replaced by its absolute
    version; bounds the rounding error of a floating-point evaluation relative to 1e-16"""
    if "v" in a:
        v = env.get(a["v"])
        return (abs(v) if v is not None else Fraction(0)), True
    if "c" in a:
        return abs(Fraction(a["c"])), True
    sx, okx = ast_scale(a["a"], env)
    op = a["op"]
    if op == "neg":
        return sx, okx
    if op == "pow":
        return sx ** a["n"], okx
    if op == "powf":
        v = eval_ast(a, env)
        return (abs(v) if v is not None else 0.0), okx and v is not None
    sy, oky = ast_scale(a["b"], env)
    ok = okx and oky
    if op in ("add", "sub"):
        return sx + sy, ok
    if op == "mul":
        return sx * sy, ok
    y = eval_ast(a["b"], env)
    if y is None or y == 0 or abs(y) * 1000 < sy:
        return Fraction(0), False
    return sx / abs(y), ok


def observe_expr(case):
    """params, comps (slots bound to ASTs), history of set_value; a snapshot after every call"""
    import perceval as pcvl
    out = {"snaps": [], "acc": []}
    try:
        P = {}
        for ps in case["params"]:
            P[ps["name"]] = pcvl.P(ps["name"], None, ps["lo"], ps["hi"], ps["periodic"])
        comps = []
        memo = {}
        for cs in case["comps"]:
            args = {}
            for slot, ast in cs["slots"].items():
                args[slot] = build_expr(ast, P, memo)
            comps.append(build_component(cs["kind"], cs["conv"], args, cs.get("how", "ctor")))
        out["pbounds"] = {n: [p.min, p.max, bool(p.is_periodic)] for n, p in P.items()}
    except RuntimeError as e:
        if "Missing parameters" in str(e):
            return {"degenerate": True}
        return {"err": "RuntimeError", "stage": "build", "msg": str(e)[:200]}
    except Exception as e:  # noqa: BLE001
        return {"err": type(e).__name__, "stage": "build", "msg": str(e)[:200]}

    def num(x):
        try:
            r = float(x)
            return r if math.isfinite(r) else "nonfinite"
        except Exception as e:  # noqa: BLE001
            return "err:" + type(e).__name__

    def snap():
        s = {"params": {n: (float(p) if p.defined else None) for n, p in P.items()}, "comps": []}
        for cs, c in zip(case["comps"], comps):
            d = {"slots": {sl: num(c.param(sl)) for sl, _, _ in SLOTS[cs["kind"]]}, "defined": bool(c.defined)}
            for key, symb in (("num", False), ("sym", True)):
                try:
                    M = c.compute_unitary(use_symbolic=symb)
                    # (a slot bound to an Expression stays symbolic in its sub-parameters: evaluate at the live values)
                    d[key] = sym_np(M, {n: v for n, v in s["params"].items() if v is not None}) if symb \
                        else cmat(np.array(M, dtype=complex).tolist())
                    if not finite_mat(d[key]):
                        d[key] = "nonfinite"
                except Exception as e:  # noqa: BLE001
                    d[key] = "err:" + type(e).__name__
            s["comps"].append(d)
        return s

    out["snaps"].append(snap())
    for name, v in case["hist"]:
        try:
            P[name].set_value(v)
            out["acc"].append("ok")
        except Exception as e:  # noqa: BLE001
            out["acc"].append("err:" + type(e).__name__)
        out["snaps"].append(snap())
    return out


OBSERVERS = {"matrix": observe_matrix, "wrap": observe_wrap, "perm": observe_perm, "expr": observe_expr,
             "life": lambda case: observe_life(case), "xsess": lambda case: observe_xsess_bounded(case),
             "pbs": lambda case: observe_pbs(case), "pserr": lambda case: observe_pserr(case),
             "refl": lambda case: observe_refl(case)}


def observe(item):
    stream, case = item
    try:
        return OBSERVERS[stream](case)
    except Exception as e:  # noqa: BLE001  (never kill a worker)
        return {"err": type(e).__name__, "stage": "harness", "msg": str(e)[:200]}


# ------------------------------------------------------------------------------------------------
# generators
# ------------------------------------------------------------------------------------------------
AXIS = [("1", "0"), ("0", "1"), ("-1", "0"), ("0", "-1")]


def gen_k(rng):
    r = rng.random()
    if r < 0.25:
        return 0
    if r < 0.55:
        return rng.choice([-3, -2, -1, 1, 2, 3])
    if r < 0.92:
        return rng.choice([-1, 1]) * rng.randint(4, 50)
    return rng.choice([-1, 1]) * rng.randint(51, 1000)


def gen_angle(rng, modes=MODES):
    if rng.random() < 0.08:
        c, s = rng.choice(AXIS)
    else:
        cf, sf = core.rational_cs(rng)
        c, s = str(cf), str(sf)
    return {"c": c, "s": s, "k": gen_k(rng), "mode": rng.choice(modes),
            "decoy": round(rng.uniform(0.05, 3.0), 6)}


def gen_matrix_case(rng, kind=None, conv=None, deep=False):
    if kind is None:
        kind, conv = rng.choice(KINDS)
    return {"kind": kind, "conv": conv, "how": rng.choice(["ctor", "static"]) if kind == "BS" else "ctor",
            "slots": {s: gen_angle(rng) for s, _, _ in SLOTS[kind]}, "deep": deep}


def exact_multiple_cases():
    """every `bound + k*span`, |k| <= 100, for the three declared intervals (and the odd multiples of pi)"""
    entries = {"2pi": ["PS", "BS.phi", "check", "set", "PS.named"], "4pi": ["BS.theta", "check", "ctor", "fix"],
               "pm": ["PR", "WP.xsi", "check", "set2"]}
    out = []
    for name, (lo, hi) in INTERVALS.items():
        span = hi - lo
        i = 0
        for k in range(-100, 101):
            vals = [lo + k * span, hi + k * span]
            if name == "pm":
                vals.append((2 * k + 1) * PI)
            for v in vals:
                out.append({"entry": entries[name][i % len(entries[name])], "lo": lo, "hi": hi,
                            "periodic": True, "v": v, "tag": "exact-multiple"})
                i += 1
    return out


def gen_wrap_case(rng):
    case = gen_wrap_case_float(rng)
    # the value type is drawn from a generator derived from the case itself (a function of `rng`'s draws), so that
    # the sequence of `rng` - hence every later stream - is the one the earlier rounds were validated with
    sub = random.Random(repr((case["v"], case["entry"])))
    u = sub.random()
    if u < 0.15:
        case["vtype"] = "np64"
    elif u < 0.30:       # an integer (exactly representable: the float path computes the same numbers)
        span = (case["hi"] - case["lo"]) if case["lo"] is not None and case["hi"] is not None else 1.0
        case["v"] = float(sub.randint(-40, 40) if span >= 1 else sub.randint(-3, 3))
        case["vtype"] = "int"
    return case


def gen_wrap_case_float(rng):
    r = rng.random()
    if r < 0.45:        # a declared interval, random far-out value, through any entry point
        name = rng.choice(list(INTERVALS))
        lo, hi = INTERVALS[name]
        entry = rng.choice({"2pi": ["PS", "BS.phi", "PS.named"], "4pi": ["BS.theta"], "pm": ["PR", "WP.xsi"]}[name]
                           + ["check", "ctor", "set", "set2", "fix"])
        v = lo + rng.uniform(-60, 61) * (hi - lo) if rng.random() < 0.8 else rng.uniform(lo, hi)
        return {"entry": entry, "lo": lo, "hi": hi, "periodic": True, "v": v, "tag": "declared"}
    entry = rng.choice(["check", "ctor", "set", "set2", "fix"])
    lo = rng.choice([0.0, -1.0, 0.1, -0.3, 1.5, -2.5, 1e-3])
    hi = lo + rng.choice([1.0, 0.1, 0.7, 2.0, 3.3, 10.0, 1e-2])
    if r < 0.70:        # arbitrary bounds, periodic
        v = lo + rng.uniform(-200, 200) * (hi - lo) if rng.random() < 0.7 else \
            rng.choice([lo, hi]) + rng.randint(-100, 100) * (hi - lo)
        return {"entry": entry, "lo": lo, "hi": hi, "periodic": True, "v": v, "tag": "custom"}
    if r < 0.85:        # non-periodic: kept as given or rejected
        v = rng.uniform(lo - 2 * (hi - lo), hi + 2 * (hi - lo)) if rng.random() < 0.8 else rng.choice([lo, hi])
        return {"entry": entry, "lo": lo, "hi": hi, "periodic": False, "v": v, "tag": "nonperiodic"}
    # a missing bound (periodic flag irrelevant)
    which = rng.choice(["lo", "hi", "none"])
    v = rng.uniform(lo - 5, hi + 5)
    return {"entry": entry, "lo": None if which in ("lo", "none") else lo,
            "hi": None if which in ("hi", "none") else hi, "periodic": rng.random() < 0.7, "v": v, "tag": "onesided"}


def gen_bad_perm(rng):
    n = rng.randint(0, 7)
    l = list(range(n))
    rng.shuffle(l)
    how = rng.choice(["dup", "shift", "gap", "neg", "float", "empty", "big"])
    if how == "empty" or n == 0:
        return []
    if how == "dup":
        l[rng.randrange(n)] = l[rng.randrange(n)] if n > 1 else 0
        if sorted(l) == list(range(n)):
            l.append(l[0])
    elif how == "shift":
        l = [x + 1 for x in l]
    elif how == "gap":
        l[l.index(n - 1)] = n
    elif how == "neg":
        l = [x - 1 for x in l]
    elif how == "float":
        l[rng.randrange(n)] = float(l[0])
    elif how == "big":
        l[l.index(n - 1)] = n + rng.randint(1, 5)
    return l


CONSTS = ["1", "2", "3", "-1", "1/2", "1/4", "3/2", "5", "-2", "1/10", "3/10"]
# numeric operands that need many significant digits / an exponent notation / are integral floats or large ints
LONG_POOL = [PI, -math.e, 1 / 3, TWO_PI / 7, 0.123456789, 0.1 + 0.2, 1234567.25, 2 ** 0.5, 1.2345678912345e-05,
             123456789.125, 2.5000001e-3, 1e16 + 2, 33554433.0, -0.7071067811865476, 2.0, 1e-7,
             12345678, 1000003, -7654321, 2 ** 31 + 1, 123456789]
POW_POOL = [0.5, 2.5, 1.2345678, -1, -2, 3.3333333333333335, 0.123456789, 2]


def long_const(rng):
    r = rng.random()
    if r < 0.3:
        k = rng.choice(LONG_POOL)
    elif r < 0.6:
        k = rng.uniform(-10, 10)
    elif r < 0.8:
        k = rng.choice([-1, 1]) * rng.uniform(1, 10) * 10.0 ** rng.randint(-5, 6)
    else:
        k = rng.choice([-1, 1]) * rng.randint(10 ** 6, 10 ** 9)
    return const_node(k)


def gen_const(rng):
    return {"c": rng.choice(CONSTS)} if rng.random() < 0.6 else long_const(rng)


def operand_sweep_cases():
    """every operator form of `Parameter` arithmetic with a numeric operand (p*k, k*p, p+k, k+p, p-k, k-p,
    p/k, p**x) on every operand of LONG_POOL / POW_POOL, bound to a component slot, the parameter set
    three times (deterministic, independent of the seed)"""
    targets = [("PS", None, "phi"), ("BS", "Rx", "theta"), ("PR", None, "delta"), ("BS", "H", "phi_tr"),
               ("BS", "Ry", "theta")]
    forms = [("mul", False), ("mul", True), ("add", False), ("add", True), ("sub", False), ("sub", True),
             ("div", False)]
    out = []
    i = 0

    def case(ast, hist):
        nonlocal i
        kind, conv, slot = targets[i % len(targets)]
        i += 1
        slots = {slot: ast}
        return {"params": [{"name": "p", "lo": None, "hi": None, "periodic": False}],
                "comps": [{"kind": kind, "conv": conv, "slots": slots, "how": "ctor"}],
                "hist": [["p", v] for v in hist], "tag": "operand-sweep"}

    for k in LONG_POOL:
        for op, left in forms:
            c, v = const_node(k), {"v": "p"}
            out.append(case({"op": op, "a": c if left else v, "b": v if left else c}, [0.37, -1.9, 25.0]))
    for x in POW_POOL:
        node = const_node(x)
        out.append(case({"op": "powf", "a": {"v": "p"}, "x": node["c"], "f": node.get("f", 0)}, [0.37, 2.5, 25.0]))
    return out


def gen_ast(rng, names, depth):
    if depth == 0 or rng.random() < 0.2:
        return {"v": rng.choice(names)}
    op = rng.choice(["add", "sub", "mul", "div", "pow", "neg", "add", "mul"])
    a = gen_ast(rng, names, depth - 1)
    if op == "neg":
        # `-(-p)` returns the object p itself (`Parameter.__neg__`): generated as p, so that "directly bound" is visible
        return a["a"] if a.get("op") == "neg" else {"op": "neg", "a": a}
    if op == "pow":
        return {"op": "pow", "a": a, "n": rng.choice([1, 2, 2, 3])}
    r = rng.random()
    if r < 0.35:        # constant on the right
        return {"op": op, "a": a, "b": gen_const(rng)}
    if r < 0.5 and op != "div":        # constant on the left (radd / rsub / rmul)
        return {"op": op, "a": gen_const(rng), "b": a}
    return {"op": op, "a": a, "b": gen_ast(rng, names, depth - 1)}


def sympy_names(ast):
    """{json(node): normalised Expression name} for every operator node; None when some sub-expression
    loses a variable under sympy's automatic evaluation (`Expression.__init__` refuses it: RuntimeError
    'Missing parameters') or two different nodes get the same name"""
    import sympy as sp
    names = {}

    def go(a):
        if "v" in a:
            return sp.Symbol(a["v"])
        if "c" in a:
            return sp.S(str(const_py(a)))
        x = go(a["a"])
        if a["op"] == "neg":
            e = -x
        elif a["op"] == "pow":
            e = x ** a["n"]
        elif a["op"] == "powf":
            e = x ** sp.S(str(const_py({"c": a["x"], "f": a.get("f")})))
        else:
            y = go(a["b"])
            e = {"add": lambda: x + y, "sub": lambda: x - y, "mul": lambda: x * y, "div": lambda: x / y}[a["op"]]()
        e = sp.S(f"({e})")
        if {s.name for s in e.free_symbols} != ast_vars(a):
            raise ValueError
        if ast_vars(a):
            key = json.dumps(a, sort_keys=True)
            nm = f"({e})"
            if any(n == nm and k != key for k, n in names.items()):
                raise ValueError
            names[key] = nm
        return e

    try:
        go(ast)
        return names
    except Exception:  # noqa: BLE001
        return None


RANGE_CLASS = {"theta": "4pi", "phi_tl": "2pi", "phi_bl": "2pi", "phi_tr": "2pi", "phi_br": "2pi", "phi": "2pi",
               "delta": "pm", "xsi": "pm"}


def gen_expr_case(rng):
    n_par = rng.randint(1, 3)
    names = ["a", "b", "c"][:n_par]
    bound_class = {}        # name -> range class of the slots it is directly bound to
    seen_names = {}         # normalised expression name -> the one AST node that carries it in this case
    comps = []
    for _ in range(rng.randint(1, 2)):
        kind, conv = rng.choice([("PS", None), ("PS", None), ("BS", "Rx"), ("BS", "Ry"), ("BS", "H"), ("PR", None),
                                 ("WP", None), ("HWP", None), ("QWP", None)])
        slots = {}
        cand = [s for s, _, _ in SLOTS[kind]]
        rng.shuffle(cand)
        need = 1 if kind != "WP" else 2
        for s in cand[:max(need, rng.randint(1, min(3, len(cand))))]:
            for _try in range(20):
                if rng.random() < 0.3:
                    nm = rng.choice(names)
                    if bound_class.get(nm, RANGE_CLASS[s]) != RANGE_CLASS[s]:
                        continue
                    ast = {"v": nm}
                else:
                    ast = gen_ast(rng, names, rng.randint(1, 3))
                    nn = None if "v" in ast else sympy_names(ast)
                    if nn is None or any(seen_names.get(n, k) != k for k, n in nn.items()):
                        continue
                    seen_names.update({n: k for k, n in nn.items()})
                if "v" in ast:
                    bound_class[ast["v"]] = RANGE_CLASS[s]
                slots[s] = ast
                break
        if kind == "WP" and len(slots) < 2:
            continue
        if slots:
            comps.append({"kind": kind, "conv": conv, "slots": slots,
                          "how": rng.choice(["ctor", "static"]) if kind == "BS" else "ctor"})
    if not comps:
        comps = [{"kind": "PS", "conv": None, "slots": {"phi": {"v": "a"}}, "how": "ctor"}]
        bound_class["a"] = "2pi"
    params = []
    for nm in names:
        if nm in bound_class:
            # (binding makes it periodic whatever it was created with: `_set_parameter` -> `set_periodic`)
            params.append({"name": nm, "lo": None, "hi": None, "periodic": rng.random() < 0.6})
        elif rng.random() < 0.6:
            params.append({"name": nm, "lo": None, "hi": None, "periodic": True})
        elif rng.random() < 0.5:        # own non-periodic bounds: set_value outside is rejected
            params.append({"name": nm, "lo": -2.0, "hi": 5.0, "periodic": False})
        else:                           # own periodic bounds
            params.append({"name": nm, "lo": rng.choice([0.0, -1.0]), "hi": rng.choice([1.0, 4.0]), "periodic": True})
    hist = []
    for _ in range(rng.randint(1, 7)):
        nm = rng.choice(names)
        if nm in bound_class:
            lo, hi = INTERVALS[bound_class[nm]]
            # (exact multiples of the span go through the wrap stream, entry "PS.named")
            v = rng.uniform(lo, hi) if rng.random() < 0.3 else lo + rng.uniform(-50, 51) * (hi - lo)
        else:
            v = rng.choice([rng.uniform(-20, 20), float(rng.randint(-6, 6)), rng.uniform(-2, 5), 0.0, 0.5])
        hist.append([nm, v])
    return {"params": params, "comps": comps, "hist": hist}


def expected_param_bounds(case):
    """`_set_parameter`: a directly bound parameter takes the slot's bounds (narrowing) and becomes periodic"""
    out = {}
    for ps in case["params"]:
        out[ps["name"]] = [ps["lo"], ps["hi"], ps["periodic"]]
    for cs in case["comps"]:
        for slot, ast in cs["slots"].items():
            if "v" in ast:
                lo, hi = slot_bounds(cs["kind"], slot)
                b = out[ast["v"]]
                b[0] = lo if b[0] is None or lo > b[0] else b[0]
                b[1] = hi if b[1] is None or hi < b[1] else b[1]
                b[2] = True
    return out


# ------------------------------------------------------------------------------------------------
# judges: (case, obs, lean) -> list of (kind, signature, what)
# ------------------------------------------------------------------------------------------------
def wrap_req(lo, hi, periodic, v):
    return {"op": "wrap", "periodic": bool(periodic), "lo": None if lo is None else core.rat(lo),
            "hi": None if hi is None else core.rat(hi), "v": core.rat(v)}


def judge_stored(r, err, lo, hi, periodic, v, rep, where):
    """one stored value (or exception) of the real code against the model's exact wrap and the direct oracle"""
    fails = []
    if "err" in rep:
        return [("broken", "lean-driver", f"wrap request rejected: {rep['err']}")]
    wrapping = bool(periodic) and lo is not None and hi is not None
    exact = None if rep["exact"] is None else core.unrat(rep["exact"])
    if err is not None:
        if exact is None:
            # (with a missing bound the code's own error message fails to format: TypeError, still a rejection)
            return fails if err in ("ValueError", "TypeError") else [
                ("broken", "wrap-exception-class", f"{where}: raised {err}, model expects ValueError")]
        if wrapping and err == "ValueError":
            return [("violation", "wrap-raises-periodic",
                     f"{where}: value {v!r} on the periodic interval [{lo!r}, {hi!r}] raises ValueError although "
                     f"{float(exact)!r} is an equivalent value inside the interval")]
        return [("violation" if wrapping else "broken", "wrap-raises", f"{where}: raised {err} for {v!r}")]
    if exact is None:
        return [("broken", "wrap-accepts-out-of-bound",
                 f"{where}: {v!r} outside [{lo}, {hi}] (not periodic / one-sided) was stored as {r!r}; model raises")]
    if not wrapping:
        if r != v:
            return [("violation", "stored-not-equivalent", f"{where}: {v!r} was stored as {r!r} without wrapping")]
        return fails
    if not (lo <= r <= hi) or not equiv_mod(r, v, hi - lo):
        return [("violation", "stored-not-equivalent",
                 f"{where}: {v!r} on [{lo!r}, {hi!r}] is stored as {r!r} (not inside the interval or not "
                 f"congruent modulo the span {hi - lo!r})")]
    if not close_mod(r, float(exact), lo, hi):
        return [("broken", "wrap-model-vs-code", f"{where}: stored {r!r}, model {float(exact)!r}")]
    return fails


def matrix_lean_reqs(case):
    kind = case["kind"]
    reqs = []
    for slot, lo, hi in SLOTS[kind]:
        reqs.append(wrap_req(lo, hi, True, angle_value(slot, case["slots"][slot], lo, hi)))
    ang = {s: [case["slots"][s]["c"], case["slots"][s]["s"]] for s, _, _ in SLOTS[kind]}
    reqs.append(lean_matrix_req(kind, case["conv"], ang))
    return reqs


def judge_matrix(case, obs, reps):
    kind, conv = case["kind"], case["conv"]
    label = kind + ("." + conv if conv else "")
    req = {s: angle_value(s, case["slots"][s], lo, hi) for s, lo, hi in SLOTS[kind]}
    mrep = reps[-1]
    if "err" in mrep:
        return [("broken", "lean-driver", f"matrix request rejected: {mrep['err']}")]
    if not mrep["sym"] or (kind != "QWP" and not mrep["unitary"]):
        return [("broken", "model-internal", f"model: numeric≠symbolic or not unitary at an exact point ({label})")]
    if "err" in obs:
        if obs["err"] == "ValueError" and "out of bound" in obs.get("msg", ""):
            return [("violation", "wrap-raises-periodic",
                     f"{label} with {json.dumps(req)}: {obs['msg']} (stage {obs['stage']}); every slot is periodic "
                     f"and an equivalent in-range value exists")]
        return [("violation", f"raises:{obs['err']}:{obs['stage']}", f"{label}: {obs['err']}: {obs.get('msg')}")]
    fails = []
    # declared bounds
    for slot, lo, hi in SLOTS[kind]:
        b = obs["bounds"][slot]
        mode = case["slots"][slot]["mode"]
        if [b[0], b[1]] != [lo, hi] or (mode != "fixedP" and b[2] is not True):
            fails.append(("broken", f"declared-bounds:{slot}",
                          f"{label}.{slot}: bounds {b} but the documented range is [{lo}, {hi}] periodic"))
    # stored values
    for (slot, lo, hi), rep in zip(SLOTS[kind], reps):
        mode = case["slots"][slot]["mode"]
        r = obs["stored"][slot]
        if mode in WRAPPING_MODES:
            fails += judge_stored(r, None, lo, hi, True, req[slot], rep, f"{label}.{slot} ({mode})")
        elif r != req[slot]:
            fails.append(("violation", "stored-not-equivalent",
                          f"{label}.{slot} ({mode}): {req[slot]!r} held by the parameter reads back {r!r}"))
    # matrices
    model = core.unmat(mrep["U"])
    doc = doc_matrix(kind, conv, req)
    for key in ("num", "num2", "sym", "symvar", "U", "def"):
        if key not in obs:
            continue
        if not core.mat_close(obs[key], model):
            which = {"num": "numeric", "num2": "numeric", "sym": "symbolic", "symvar": "symbolic-free",
                     "U": "U", "def": "definition"}[key]
            d = core.mat_maxdiff(obs[key], model)
            if not core.mat_close(obs[key], doc, 1e-8):
                fails.append(("violation", f"matrix-differs:{label}:{which}",
                              f"{label} at {json.dumps(req)}: the {which} matrix differs from the documented one "
                              f"by {d:.3g}"))
            else:
                fails.append(("broken", f"model-vs-code:{label}:{which}",
                              f"{label}: {which} matrix differs from the model by {d:.3g} but matches the formula"))
    u = np.array(obs["num"])
    if not np.allclose(u @ u.conj().T, np.eye(len(u)), atol=1e-9, rtol=0):
        fails.append(("violation", f"not-unitary:{label}", f"{label} at {json.dumps(req)}: numeric matrix not unitary"))
    return fails


def judge_wrap(case, obs, reps):
    where = f"{case['entry']}"
    return judge_stored(obs.get("r"), obs.get("err"), case["lo"], case["hi"], case["periodic"], case["v"],
                        reps[0], where)


def judge_perm(case, obs, reps):
    rep = reps[0]
    l = case["l"]
    if "err" in obs:
        if "err" in rep:
            return []
        return [("violation", "perm-rejects-permutation", f"PERM({l}) raised {obs['err']} on a permutation")]
    if "err" in rep:
        return [("violation", "perm-accepts-non-permutation", f"PERM({l}) was accepted but {l} is not a permutation")]
    if "err2" in obs:
        return [("violation", "perm-raises", f"PERM({l}): {obs['err2']}")]
    fails = []
    n = len(l)
    model = core.unmat(rep["U"])
    direct_ok = obs["sends"] == [[v] for v in l]
    for key in ("num", "sym", "U", "def"):
        if not core.mat_close(obs[key], model):
            fails.append(("violation" if not direct_ok or key != "num" else "broken", f"perm-matrix:{key}",
                          f"PERM({l}): {key} matrix differs from u[l[i], i] = 1"))
    if not rep["unitary"] or rep["vec"] != l or rep["sends"] != [[v] for v in l]:
        fails.append(("broken", "model-internal", f"PERM model inconsistent on {l}"))
    if obs["vec"] != l:
        fails.append(("violation", "perm-vector", f"PERM({l}).perm_vector = {obs['vec']}"))
    if not direct_ok:
        fails.append(("violation", "perm-sends", f"PERM({l}): input mode k leaves on {obs['sends']}"))
    if obs["m"] != n:
        fails.append(("violation", "perm-size", f"PERM({l}).m = {obs['m']}"))
    if "apply" in obs:
        want = [[[1 if i == l[k] else 0 for i in range(n)]] for k in range(n)]
        if obs["apply"] != want:
            fails.append(("violation", "perm-apply", f"PERM({l}).apply moves single photons to {obs['apply']}"))
    return fails


def expr_lean_reqs(case, obs):
    """request 0: the live-expression model; then one raw-matrix request per (snapshot, component) defined"""
    pb = expected_param_bounds(case)
    params = [{"name": n, "lo": None if b[0] is None else core.rat(b[0]), "hi": None if b[1] is None else core.rat(b[1]),
               "periodic": bool(b[2]), "val": None} for n, b in pb.items()]
    slots = [{"v": n} for n in pb]
    for cs in case["comps"]:
        for s, _, _ in SLOTS[cs["kind"]]:
            if s in cs["slots"]:
                slots.append(lean_ast(cs["slots"][s]))
    reqs = [{"op": "expr", "params": params, "slots": slots, "hist": [[n, core.rat(v)] for n, v in case["hist"]]}]
    index = []
    for si, snp in enumerate(obs.get("snaps", [])):
        for ci, (cs, d) in enumerate(zip(case["comps"], snp["comps"])):
            vals = d["slots"]
            if all(isinstance(vals[s], float) for s, _, _ in SLOTS[cs["kind"]]):
                reqs.append(lean_matrix_req(cs["kind"], cs["conv"], raw_angles(cs["kind"], vals)))
                index.append((si, ci))
    return reqs, index


def judge_expr(case, obs, reps, index):
    if obs.get("degenerate"):
        return []
    if "err" in obs:
        return [("violation", f"expr-raises:{obs['err']}", f"building {json.dumps(case['comps'])}: {obs['err']}: "
                 f"{obs.get('msg')}")]
    rep = reps[0]
    if "err" in rep:
        return [("broken", "lean-driver", f"expr request rejected: {rep['err']}")]
    fails = []
    pb = expected_param_bounds(case)
    names = list(pb)
    if obs["pbounds"] != {n: pb[n] for n in names}:
        fails.append(("broken", "declared-bounds:named",
                      f"bounds of the named parameters are {obs['pbounds']}, expected {pb}"))
    slot_keys = []
    for ci, cs in enumerate(case["comps"]):
        for s, _, _ in SLOTS[cs["kind"]]:
            if s in cs["slots"]:
                slot_keys.append((ci, s))
    mat_rep = {ix: r for ix, r in zip(index, reps[1:])}
    for si, snp in enumerate(obs["snaps"]):
        mv = rep["vals"][si]
        env = {n: (None if mv[i] is None else core.unrat(mv[i])) for i, n in enumerate(names)}
        when = "initially" if si == 0 else f"after call {si} set_value({case['hist'][si - 1][0]}, {case['hist'][si - 1][1]!r})"
        # the call itself
        if si > 0:
            nm, v = case["hist"][si - 1]
            lo, hi, per = pb[nm]
            acc = rep["acc"][si - 1]
            ok = obs["acc"][si - 1] == "ok"
            fake = {"exact": acc}
            err = None if ok else obs["acc"][si - 1][4:]
            r = snp["params"][nm] if ok else None
            fails += judge_stored(r, err, lo, hi, per, v, fake, f"set_value on named parameter {nm} ({when})")
            if not ok and acc is None:
                prev = obs["snaps"][si - 1]["params"][nm]
                if snp["params"][nm] != prev:
                    fails.append(("violation", "rejected-set-changes-value",
                                  f"{when}: the rejected call changed {nm} from {prev} to {snp['params'][nm]}"))
        # live parameter values
        fenv = dict(snp["params"])
        for n in names:
            got, want = snp["params"][n], env[n]
            if (got is None) != (want is None):
                fails.append(("broken", "expr-defined", f"{when}: parameter {n} is {got}, model {want}"))
            elif got is not None:
                lo, hi, per = pb[n]
                okv = close_mod(got, float(want), lo, hi) if (per and lo is not None and hi is not None) \
                    else core.close(got, float(want))
                if not okv:
                    fails.append(("broken", "expr-param-value", f"{when}: parameter {n} reads {got!r}, model {float(want)!r}"))
        # a parameter sitting at the other end of its interval than the model's exact value (same angle):
        # expressions of it are not comparable with the model's
        ambiguous = {n for n in names if snp["params"][n] is not None and env[n] is not None
                     and not core.close(snp["params"][n], float(env[n]))}
        # slots
        for j, (ci, s) in enumerate(slot_keys):
            ast = case["comps"][ci]["slots"][s]
            if ast_vars(ast) & ambiguous:
                continue
            want = mv[len(names) + j]
            got = snp["comps"][ci]["slots"][s]
            vars_defined = all(env[x] is not None for x in ast_vars(ast))
            if has_powf(ast) and not vars_defined:
                if isinstance(got, float):
                    fails.append(("violation", "expr-stale-value",
                                  f"{when}: slot {s} = {got!r} although a sub-parameter has no value"))
                continue
            if has_powf(ast):
                # real / negative exponent: outside the model's language, direct oracle only (Python's float
                # arithmetic at the live values, positive bases only)
                mine = eval_ast(ast, {k: v for k, v in fenv.items() if v is not None})
                if mine is None or not math.isfinite(mine):
                    continue
                tol = 1e-9 * (1 + abs(mine))
                if not isinstance(got, float):
                    fails.append(("violation", "expr-not-evaluated", f"{when}: slot {s} gives {got}, expected {mine!r}"))
                elif abs(got - mine) > tol:
                    fails.append(("violation", "expr-live-value",
                                  f"{when}: slot {s} bound to {ast_str(ast)} evaluates to {got!r}; at the current "
                                  f"values {fenv} it is {mine!r}"))
                continue
            if want is None:
                if vars_defined:
                    continue        # division by zero: outside the property, not compared
                if isinstance(got, float):
                    fails.append(("violation", "expr-stale-value",
                                  f"{when}: slot {s} = {got!r} although a sub-parameter has no value"))
                continue
            scale, well = ast_scale(ast, env)
            if not well:
                continue
            w = float(core.unrat(want))
            if not isinstance(got, float):
                fails.append(("violation", "expr-not-evaluated", f"{when}: slot {s} gives {got}, expected {w!r}"))
                continue
            tol = 1e-9 * (1 + float(scale))
            if abs(got - w) > tol:
                mine = eval_ast(ast, {k: v for k, v in fenv.items() if v is not None})
                direct_bad = mine is None or abs(got - mine) > tol
                fails.append(("violation" if direct_bad else "broken", "expr-live-value",
                              f"{when}: slot {s} bound to {ast_str(ast)} evaluates to {got!r}; at the current "
                              f"values {fenv} it is {w!r}"))
        # matrices
        for ci, (cs, d) in enumerate(zip(case["comps"], snp["comps"])):
            label = cs["kind"] + ("." + cs["conv"] if cs["conv"] else "")
            vals = d["slots"]
            all_def = all(env[x] is not None for ast in cs["slots"].values() for x in ast_vars(ast))
            if all_def and any(has_powf(ast) and eval_ast(ast, dict(fenv)) is None for ast in cs["slots"].values()):
                continue        # a real power of a non-positive base: not a real angle, outside the property
            if (si, ci) not in mat_rep:
                if all_def and all(mv[len(names) + j] is not None for j, (c2, _) in enumerate(slot_keys) if c2 == ci):
                    fails.append(("violation", "expr-not-evaluated",
                                  f"{when}: {label} has all its parameters defined but its slots read {vals}"))
                elif not all_def and not isinstance(d["num"], str):
                    fails.append(("violation", "expr-stale-value",
                                  f"{when}: {label} returns a numeric matrix although a parameter has no value"))
                continue
            mr = mat_rep[(si, ci)]
            if "err" in mr:
                fails.append(("broken", "lean-driver", f"raw matrix request rejected: {mr['err']}"))
                continue
            model = core.unmat(mr["U"])
            doc = doc_matrix(cs["kind"], cs["conv"], vals)
            smax = max([float(ast_scale(ast, env)[0]) for ast in cs["slots"].values()] + [0.0])
            vmax = max(abs(x) for x in vals.values())
            if vmax > 1e7:
                continue   # beyond about 1e6 periods a double no longer determines the angle: not compared
            for key, which in (("num", "numeric"), ("sym", "symbolic")):
                got = d[key]
                if isinstance(got, str):
                    fails.append(("violation", f"expr-matrix-raises:{which}",
                                  f"{when}: {label}.compute_unitary ({which}) gives {got} with slots {vals}"))
                    continue
                # numeric: the model is evaluated on the very doubles (cos, sin) of the slot values the code
                # holds, whatever their size.  symbolic: sympy evaluates the expression again from the
                # sub-parameters at higher precision, while the slot value is a double with rounding error
                # <= ~1e-16*S (S = the expression's absolute scale): the angle itself is only known to that
                # BS numeric adds the angles of an entry as doubles before taking cos/sin (the model multiplies
                # exact phases): rounding <= ~3e-16 * the largest |slot value|, visible for angles >= 1e6
                tolm = 1e-9 + 1e-15 * vmax if key == "num" else 1e-8 + 2e-15 * max(smax, vmax)
                if not core.mat_close(got, model, tolm):
                    dd = core.mat_maxdiff(got, model)
                    bad = not core.mat_close(got, doc, max(1e-7, 10 * tolm))
                    fails.append(("violation" if bad else "broken",
                                  f"expr-matrix:{label}:{which}" if bad else f"model-vs-code:{label}:{which}",
                                  f"{when}: the {which} matrix of {label} does not reflect the current slot values "
                                  f"{vals} (off by {dd:.3g})"))
    return fails


# ------------------------------------------------------------------------------------------------
# life stream: the Parameter lifecycle and parameters shared between slots (Model/C14Life.lean)
# ------------------------------------------------------------------------------------------------
# slot tables in constructor order: (slot, lo, hi, default shown by get_variables or None)
LIFE_SLOTS = {
    "BS": [("theta", 0.0, FOUR_PI, PI / 2), ("phi_tl", 0.0, TWO_PI, 0.0), ("phi_bl", 0.0, TWO_PI, 0.0),
           ("phi_tr", 0.0, TWO_PI, 0.0), ("phi_br", 0.0, TWO_PI, 0.0)],
    "PS": [("phi", 0.0, TWO_PI, None), ("max_error", 0.0, PI, 0.0)],
    "WP": [("delta", -PI, PI, None), ("xsi", -PI, PI, None)],
    "PR": [("delta", -PI, PI, None)],
}
LIFE_DEFAULT_ARG = {"theta": PI / 2, "max_error": 0.0}


def life_slot_arg(op, slot):
    return op["args"].get(slot, {"num": LIFE_DEFAULT_ARG.get(slot, 0.0)})


def observe_life(case):
    """run the history on the real classes; after every op: the exception class (or None) and a snapshot of
    every parameter object and component"""
    import perceval as pcvl
    P, comps, kinds = {}, {}, {}
    order = []
    out = {"out": [], "snaps": []}

    def pinfo(p):
        return [p.min, p.max, bool(p.is_periodic), bool(p.is_variable), (float(p) if p.defined else None)]

    def all_params():
        d = {n: P[n] for n in order if n in P}
        for cid, c in comps.items():
            for slot, _, _, _ in LIFE_SLOTS[kinds[cid][0]]:
                q = c.param(slot)
                if not any(q is r for r in P.values()):
                    d[f"{cid}.{slot}"] = q
        return d

    def snap():
        s = {"params": {k: pinfo(q) for k, q in all_params().items()}, "comps": {}}
        for cid, c in comps.items():
            gv = c.get_variables()
            row = []
            for slot, _, _, _ in LIFE_SLOTS[kinds[cid][0]]:
                if slot not in gv:
                    row.append(None)
                elif isinstance(gv[slot], str):
                    row.append("name")
                else:
                    row.append(float(gv[slot]))
            d = {"vars": sorted(c.vars.keys()), "defined": bool(c.defined), "getvars": row}
            if c.defined:
                try:
                    d["num"] = cmat(np.array(c.compute_unitary(use_symbolic=False), dtype=complex).tolist())
                    d["slots"] = {slot: float(c.param(slot)) for slot, _, _, _ in LIFE_SLOTS[kinds[cid][0]]}
                except Exception as e:  # noqa: BLE001
                    d["num"] = "err:" + type(e).__name__
            s["comps"][cid] = d
        return s

    for op in case["ops"]:
        k = op["k"]
        res = None
        try:
            if k == "new":
                P[op["x"]] = pcvl.P(op["x"], op["val"], op["lo"], op["hi"], op["periodic"])
                if op["x"] not in order:
                    order.append(op["x"])
            elif k == "set":
                P[op["x"]].set_value(op["v"], force=op["force"]) if op["force"] else P[op["x"]].set_value(op["v"])
            elif k == "fix":
                P[op["x"]].fix_value(op["v"])
            elif k == "reset":
                P[op["x"]].reset()
            elif k == "per":
                P[op["x"]].set_periodic(op["b"])
            elif k == "mk":
                args = {}
                for slot, _, _, _ in LIFE_SLOTS[op["kind"]]:
                    a = life_slot_arg(op, slot)
                    if slot in op["args"] or slot not in LIFE_DEFAULT_ARG:
                        args[slot] = P[a["ref"]] if "ref" in a else a["num"]
                kinds[op["c"]] = (op["kind"], op.get("conv"))
                comps[op["c"]] = build_component(op["kind"], op.get("conv"), args, op.get("how", "ctor"))
            elif k == "assign":
                d = {n: v for n, v in op["kv"]}
                if op.get("via") == "compute":
                    comps[op["c"]].compute_unitary(assign=d, use_symbolic=True)
                else:
                    comps[op["c"]].assign(d)
            elif k == "resetall":
                comps[op["c"]].reset_parameters()
            elif k == "copy":
                cc = comps[op["c"]].copy()
                res = [pinfo(cc.param(slot)) for slot, _, _, _ in LIFE_SLOTS[kinds[op["c"]][0]]]
            else:
                raise KeyError(k)
        except Exception as e:  # noqa: BLE001
            res = type(e).__name__
            if k == "mk":
                comps.pop(op["c"], None)
                kinds.pop(op["c"], None)
            if k == "assign" and op.get("via") == "compute":
                # the call is observed for what it does to the parameters: an exception raised AFTER `assign`, while the
                # symbolic matrix is built (a parameter left without value and without symbol by a rejected fix_value),
                # is not an outcome of the assignment
                import traceback
                if not any(fr.name == "assign" for fr in traceback.extract_tb(e.__traceback__)):
                    res = None
        out["out"].append(res)
        out["snaps"].append(snap())
    return out


def life_lean_req(case):
    ops = []
    r = lambda x: None if x is None else core.rat(x)  # noqa: E731
    for op in case["ops"]:
        k = op["k"]
        if k == "new":
            ops.append({"k": "new", "x": op["x"], "val": r(op["val"]), "lo": r(op["lo"]), "hi": r(op["hi"]),
                        "periodic": bool(op["periodic"])})
        elif k == "set":
            ops.append({"k": "set", "x": op["x"], "v": r(op["v"]), "force": bool(op["force"])})
        elif k == "fix":
            ops.append({"k": "fix", "x": op["x"], "v": r(op["v"])})
        elif k in ("reset", "per"):
            ops.append(dict(op))
        elif k == "mk":
            slots = []
            for slot, lo, hi, dflt in LIFE_SLOTS[op["kind"]]:
                a = life_slot_arg(op, slot)
                d = {"lo": r(lo), "hi": r(hi), "dflt": r(dflt)}
                if "ref" in a:
                    d["ref"] = a["ref"]
                else:
                    d["num"] = r(a["num"])
                    d["key"] = f"{op['c']}.{slot}"
                slots.append(d)
            ops.append({"k": "mk", "c": op["c"], "slots": slots})
        elif k == "assign":
            # (`BS._compute_unitary` never looks at `assign`: the model leaves the store alone, "fwd": false)
            fwd = not (op.get("via") == "compute" and life_kind(case, op["c"]) == "BS")
            ops.append({"k": "assign", "c": op["c"], "kv": [[n, r(v)] for n, v in op["kv"]], "fwd": fwd})
        else:
            ops.append({"k": k, "c": op["c"]})
    return {"op": "life", "ops": ops}


def life_num_eq(got, want, per_range=None):
    """real float against the model's exact rational (string) / None"""
    if got is None or want is None:
        return got is None and want is None
    w = float(core.unrat(want))
    if per_range is not None:
        return close_mod(got, w, per_range[0], per_range[1])
    return core.close(got, w)


def life_pinfo_diff(got, want):
    """[min, max, periodic, variable, value] of the real object against the model's; name of the field that
    differs or None"""
    for i, f in ((0, "min"), (1, "max")):
        if (got[i] is None) != (want[i] is None) or (got[i] is not None and got[i] != float(core.unrat(want[i]))):
            return f
    if got[2] != want[2]:
        return "periodic"
    if got[3] != want[3]:
        return "variable"
    rng = (got[0], got[1]) if (got[2] and got[0] is not None and got[1] is not None and got[0] < got[1]) else None
    if not life_num_eq(got[4], want[4], rng):
        return "value"
    return None


def life_compare(case, obs, rep):
    """first difference between the real history and one variant of the model, as (op index, what) or None"""
    for i, op in enumerate(case["ops"]):
        go, mo = obs["out"][i], rep["out"][i]
        if op["k"] == "copy" and isinstance(go, list) and isinstance(mo, list):
            for (slot, _, _, _), g, m in zip(LIFE_SLOTS[life_kind(case, op["c"])], go, mo):
                if isinstance(m, str):
                    return i, f"copy: slot {slot} copied as {g}, model raises {m}"
                f = life_pinfo_diff(g, m)
                if f:
                    return i, f"copy: {f} of slot {slot} is {g}, model {m}"
        elif op["k"] == "copy" and isinstance(go, str):
            first = next((m for m in (mo if isinstance(mo, list) else []) if isinstance(m, str)), None)
            if first != go:
                return i, f"copy raised {go}, model {first}"
        elif go != mo:
            return i, f"{op['k']} gives {go or 'no exception'}, model {mo or 'no exception'}"
        gs, ms = obs["snaps"][i], rep["snaps"][i]
        if sorted(gs["params"]) != sorted(ms["params"]):
            return i, f"parameter objects {sorted(gs['params'])}, model {sorted(ms['params'])}"
        for n, g in gs["params"].items():
            f = life_pinfo_diff(g, ms["params"][n])
            if f:
                return i, f"{f} of parameter {n} is {g}, model {ms['params'][n]}"
        if sorted(gs["comps"]) != sorted(ms["comps"]):
            return i, f"components {sorted(gs['comps'])}, model {sorted(ms['comps'])}"
        for cid, g in gs["comps"].items():
            m = ms["comps"][cid]
            if g["vars"] != sorted(m["vars"]):
                return i, f"vars of {cid} are {g['vars']}, model {sorted(m['vars'])}"
            if g["defined"] != m["defined"]:
                return i, f"defined of {cid} is {g['defined']}, model {m['defined']}"
            for (slot, _, _, _), a, b in zip(LIFE_SLOTS[life_kind(case, cid)], g["getvars"], m["getvars"]):
                same = (a == b) if (a is None or b is None or isinstance(a, str) or b == "name") else \
                    core.close(a, float(core.unrat(b)))
                if not same:
                    return i, f"get_variables of {cid} shows {a} for {slot}, model {b}"
    return None


def life_kind(case, cid):
    return next(op["kind"] for op in case["ops"] if op["k"] == "mk" and op["c"] == cid)


def life_oracle(case, obs):
    """the property evaluated directly on the observed history (no model): list of (signature, what).
    * a value accepted by set_value / fix_value / the constructor lies inside the bounds of the parameter;
    * a fixed parameter keeps its value unless force / fix_value is used;
    * the numeric matrix of every defined component is the documented matrix at the values REQUESTED for the
      parameters plugged directly into its slots (the stored value must be equivalent for every slot), for
      parameters whose periodicity was never declared by the user (no own two-sided range, no set_periodic)."""
    bad = []
    requested, user_periodic, fixedv = {}, set(), {}
    comp_args = {}
    for i, op in enumerate(case["ops"]):
        k, res, snp = op["k"], obs["out"][i], obs["snaps"][i]
        ok = res is None
        if k == "new":
            if op["lo"] is not None and op["hi"] is not None:
                user_periodic.add(op["x"])
            requested.pop(op["x"], None)
            if ok and op["val"] is not None:
                requested[op["x"]] = op["val"]
        elif k in ("set", "fix") and ok:
            requested[op["x"]] = op["v"]
        elif k == "fix":
            requested.pop(op["x"], None)        # (a rejected fix_value leaves a fixed parameter with its old value)
        elif k == "reset" and ok:
            if snp["params"].get(op["x"], [0, 0, 0, 0, 1])[4] is None:
                requested.pop(op["x"], None)
        elif k == "per":
            user_periodic.add(op["x"])
        elif k == "mk" and ok:
            comp_args[op["c"]] = (op["kind"], op.get("conv"), {s: life_slot_arg(op, s) for s, _, _, _ in LIFE_SLOTS[op["kind"]]})
            # a parameter plugged into a new slot brings the value it HOLDS (possibly wrapped for its former slots)
            for a in comp_args[op["c"]][2].values():
                if "ref" in a and a["ref"] in requested and snp["params"][a["ref"]][4] is not None:
                    requested[a["ref"]] = snp["params"][a["ref"]][4]
        elif k == "assign" and op.get("via") == "compute" and life_kind(case, op["c"]) == "BS":
            # ignored by BS (code as it is): nothing was requested and the matrices stay where they were; should a
            # tree forward it (as the other leaves do), a parameter that moved was requested at the given value
            prev = obs["snaps"][i - 1]["params"] if i else {}
            for n, v in op["kv"]:
                if n in snp["params"] and n in prev and prev[n][4] != snp["params"][n][4]:
                    requested[n] = v
        elif k == "assign":
            prev = obs["snaps"][i - 1]["params"] if i else {}
            for n, v in op["kv"]:
                if n in snp["params"] and snp["params"][n][3] and snp["params"][n][4] is not None and \
                        (n not in prev or prev[n][4] != snp["params"][n][4] or ok):
                    requested[n] = v
                if not ok and (n not in snp["params"]):
                    break
            if not ok:          # which keys were applied before the failure is the model's business: do not judge them
                for n, _ in op["kv"]:
                    requested.pop(n, None)
        elif k == "resetall" and ok:
            for n in list(requested):
                if n in snp["params"] and snp["params"][n][4] is None:
                    requested.pop(n, None)
        # accepted value inside the bounds
        if k in ("set", "fix", "new") and ok:
            info = snp["params"].get(op["x"])
            if info and info[4] is not None and ((info[0] is not None and info[4] < info[0]) or
                                                 (info[1] is not None and info[4] > info[1])):
                bad.append(("life-value-outside-bounds", f"op {i} {k} on {op['x']}: accepted value {info[4]!r} is "
                            f"outside [{info[0]}, {info[1]}]"))
        # fixed parameters
        forced = (k == "set" and op["force"]) or k in ("fix", "new")
        for n, info in snp["params"].items():
            if n in fixedv and not (forced and op.get("x") == n) and info[4] != fixedv[n] and not info[3]:
                bad.append(("life-fixed-changed", f"op {i} {k}: fixed parameter {n} changed from {fixedv[n]} to {info[4]}"))
            if not info[3]:
                fixedv[n] = info[4]
            else:
                fixedv.pop(n, None)
        # matrices
        for cid, d in snp["comps"].items():
            if "num" not in d or cid not in comp_args:
                continue
            kind, conv, args = comp_args[cid]
            if isinstance(d["num"], str):
                bad.append(("life-matrix-raises", f"op {i}: compute_unitary of {cid} gives {d['num']}"))
                continue
            vals, judged = {}, True
            for slot, _, _, _ in LIFE_SLOTS[kind]:
                a = args[slot]
                if "ref" in a:
                    if a["ref"] in user_periodic or a["ref"] not in requested:
                        judged = False
                        break
                    vals[slot] = requested[a["ref"]]
                else:
                    vals[slot] = a["num"]
            if not judged:
                continue
            doc = doc_matrix(kind, conv, vals)
            if not core.mat_close(d["num"], doc, 1e-8):
                shared = {a["ref"] for a in args.values() if "ref" in a}
                bad.append(("shared-range-wraps-narrower-span" if life_shared_ranges(case, shared, own=True) else
                            "life-matrix-not-documented",
                            f"op {i} {k}: the matrix of {cid} ({kind}{'.' + conv if conv else ''}) with the requested "
                            f"values {vals} differs from the documented matrix by "
                            f"{core.mat_maxdiff(d['num'], doc):.3g} (stored slot values {d.get('slots')})"))
    return bad


def life_shared_ranges(case, names, own=False):
    """some parameter of `names` is plugged into slots of different declared ranges (own=True: or was created
    with a bound of its own, so that its range can differ from the range of the slot it is plugged into)"""
    seen = {}
    for op in case["ops"]:
        if own and op["k"] == "new" and op["x"] in names and (op["lo"] is not None or op["hi"] is not None):
            return True
        if op["k"] != "mk":
            continue
        for slot, lo, hi, _ in LIFE_SLOTS[op["kind"]]:
            a = life_slot_arg(op, slot)
            if "ref" in a and a["ref"] in names:
                seen.setdefault(a["ref"], set()).add((lo, hi))
    return any(len(v) > 1 for v in seen.values())


def judge_life(case, obs, reps):
    rep = reps[0]
    if "err" in rep:
        return [("broken", "lean-driver", f"life request rejected: {rep['err']}")]
    direct = life_oracle(case, obs)
    fails = [("violation", sig, what) for sig, what in direct]
    d_fix = life_compare(case, obs, rep["fix"])
    if d_fix is None:
        return fails
    d_cur = life_compare(case, obs, rep["cur"])
    if d_cur is None:
        # the code follows the model of the pinned `_set_parameter` (periodic over the intersection of the
        # ranges): a defect only where the property itself fails, which the direct oracle decides
        return fails
    if fails:
        return fails
    i, what = d_fix
    return [("broken", "life-model-vs-code:" + case["ops"][i]["k"], f"op {i} {json.dumps(case['ops'][i])}: {what}")]


# -- generator ------------------------------------------------------------------------------------
def life_value(rng, lo, hi):
    if lo is not None and hi is not None and lo < hi:
        r = rng.random()
        if r < 0.3:
            return rng.uniform(lo, hi)
        return lo + rng.uniform(-40, 41) * (hi - lo)
    return rng.choice([rng.uniform(-20, 20), rng.uniform(-2, 5), 0.5, float(rng.randint(-6, 6))])


def gen_life_case(rng, force_shared=None):
    names = ["a", "b", "c"][:rng.randint(1, 3)]
    ops = []
    bounds = {}
    for n in names:
        r = rng.random()
        if r < 0.5:
            lo = hi = None
            per = rng.random() < 0.8
            val = None
        elif r < 0.62:
            lo = hi = None
            per = True
            val = rng.uniform(-10, 10)                    # fixed from the start
        elif r < 0.74:
            lo, hi, per, val = -2.0, 5.0, False, (None if rng.random() < 0.7 else rng.uniform(-2, 5))
        elif r < 0.86:
            lo, hi, per, val = rng.choice([0.0, -1.0]), rng.choice([1.0, 4.0, TWO_PI]), True, \
                (None if rng.random() < 0.7 else rng.uniform(-9, 9))
        elif r < 0.94:
            lo, hi = rng.choice([(None, 3.0), (1.0, None)])
            per, val = rng.random() < 0.5, None
        else:
            lo, hi = rng.choice([(1.0, 1.0), (2.0, 0.0)])   # degenerate: zero span / inverted
            per, val = True, None       # (a constructor that raises is in the deterministic sweep only)
        ops.append({"k": "new", "x": n, "val": val, "lo": lo, "hi": hi, "periodic": per})
        bounds[n] = (lo, hi)
    comps = []
    shared = force_shared if force_shared is not None else rng.random() < 0.45
    for step in range(rng.randint(4, 12)):
        r = rng.random()
        n = rng.choice(names)
        lo, hi = bounds[n]
        if r < 0.34:
            ops.append({"k": "set", "x": n, "v": life_value(rng, lo, hi), "force": rng.random() < 0.2})
        elif r < 0.40:
            ops.append({"k": "fix", "x": n, "v": life_value(rng, lo, hi)})
        elif r < 0.47:
            ops.append({"k": "reset", "x": n})
        elif r < 0.50:
            ops.append({"k": "per", "x": n, "b": rng.random() < 0.5})
        elif r < 0.72 and len(comps) < 3:
            kind, conv = rng.choice([("PS", None), ("BS", "Rx"), ("BS", "Ry"), ("BS", "H"), ("WP", None), ("PR", None)])
            cid = f"c{len(comps)}"
            args = {}
            slots = [sl for sl in LIFE_SLOTS[kind] if sl[0] != "max_error"]
            first = True
            for slot, slo, shi, _ in slots:
                if rng.random() < (0.75 if first else 0.35):
                    nm = n if (shared or first) else rng.choice(names)
                    args[slot] = {"ref": nm}
                    blo, bhi = bounds[nm]
                    bounds[nm] = (slo if blo is None or slo > blo else blo, shi if bhi is None or shi < bhi else bhi)
                else:
                    args[slot] = {"num": slo + rng.uniform(-3, 4) * (shi - slo)}
                first = False
            ops.append({"k": "mk", "c": cid, "kind": kind, "conv": conv, "args": args,
                        "how": rng.choice(["ctor", "static"]) if kind == "BS" else "ctor"})
            comps.append((cid, kind))
        elif r < 0.84 and comps:
            cid, kind = rng.choice(comps)
            kv = []
            for _ in range(rng.randint(1, 3)):
                nm = rng.choice(names + ["zz"]) if rng.random() < 0.25 else rng.choice(names)
                b = bounds.get(nm, (None, None))
                kv.append([nm, life_value(rng, *b)])
            kv = list({k: [k, v] for k, v in kv}.values())      # (a dict: one entry per key)
            ops.append({"k": "assign", "c": cid, "kv": kv,
                        "via": "compute" if rng.random() < 0.3 else "assign"})
        elif r < 0.90 and comps:
            ops.append({"k": "resetall", "c": rng.choice(comps)[0]})
        elif r < 0.97 and comps:
            ops.append({"k": "copy", "c": rng.choice(comps)[0]})
        else:
            ops.append({"k": "set", "x": n, "v": life_value(rng, lo, hi), "force": False})
    return {"ops": ops}


def life_sweep_cases():
    """deterministic histories, one per behaviour of the lifecycle (independent of the seed)"""
    new = lambda x, val=None, lo=None, hi=None, per=True: {"k": "new", "x": x, "val": val, "lo": lo, "hi": hi,  # noqa: E731
                                                           "periodic": per}
    st = lambda x, v, force=False: {"k": "set", "x": x, "v": v, "force": force}  # noqa: E731
    mk = lambda c, kind, args, conv=None: {"k": "mk", "c": c, "kind": kind, "conv": conv, "args": args}  # noqa: E731
    ref = lambda n: {"ref": n}  # noqa: E731
    out = []
    # a parameter shared between theta [0,4pi] and a phase [0,2pi], in both orders, three slots, all conventions
    for conv in ("Rx", "Ry", "H"):
        for args in ({"theta": ref("x"), "phi_tl": ref("x")}, {"theta": ref("x"), "phi_br": ref("x"), "phi_bl": ref("x")}):
            out.append({"ops": [new("x"), mk("c0", "BS", args, conv), st("x", 3 * PI), st("x", 1.0), st("x", 5 * PI),
                                st("x", -PI), {"k": "copy", "c": "c0"}], "tag": "shared"})
    # shared between PS [0,2pi] and PR / WP [-pi,pi]; between two components; PS then BS.theta
    out.append({"ops": [new("y"), mk("c0", "PS", {"phi": ref("y")}), mk("c1", "PR", {"delta": ref("y")}),
                        st("y", 1.5 * PI), st("y", -0.5 * PI), st("y", 0.25)], "tag": "shared"})
    out.append({"ops": [new("y"), mk("c0", "WP", {"delta": ref("y"), "xsi": {"num": 0.3}}),
                        mk("c1", "PS", {"phi": ref("y")}), st("y", 1.5 * PI), st("y", 0.5)], "tag": "shared"})
    out.append({"ops": [new("z"), mk("c0", "PS", {"phi": ref("z")}), st("z", 7.0), mk("c1", "BS", {"theta": ref("z")}, "Rx"),
                        st("z", 3 * PI), st("z", 2.0), mk("c2", "PS", {"phi": ref("z")}), st("z", 9.0)], "tag": "shared"})
    # the same range twice: stays periodic
    out.append({"ops": [new("s"), mk("c0", "BS", {"phi_tl": ref("s"), "phi_br": ref("s")}, "H"), mk("c1", "PS", {"phi": ref("s")}),
                        st("s", 45.0), st("s", -45.0), {"k": "assign", "c": "c1", "kv": [["s", 100.0]], "via": "compute"}],
                "tag": "same-range"})
    # a user range: equal to the slot's, narrower, non periodic, wider
    out.append({"ops": [new("u", None, 0.0, TWO_PI, True), mk("c0", "PS", {"phi": ref("u")}), st("u", 20.0),
                        mk("c1", "BS", {"theta": ref("u")}, "Ry"), st("u", 20.0), st("u", 1.0)], "tag": "user-range"})
    out.append({"ops": [new("u", None, 0.0, 1.0, False), mk("c0", "PS", {"phi": ref("u")}), st("u", 1.5), st("u", 0.5),
                        new("w", None, -1.0, 10.0, True), mk("c1", "PS", {"phi": ref("w")}), st("w", 7.0), st("w", 3.0)],
                "tag": "user-range"})
    # preset (stale) value, then plugged in; copy wraps it again; reset; fix; force
    out.append({"ops": [new("p"), st("p", 7.0), mk("c0", "PS", {"phi": ref("p")}), {"k": "copy", "c": "c0"}, st("p", 8.0),
                        {"k": "reset", "x": "p"}, {"k": "copy", "c": "c0"}, {"k": "fix", "x": "p", "v": -1.0},
                        {"k": "reset", "x": "p"}, st("p", 2.0), st("p", 2.0, True), {"k": "resetall", "c": "c0"}],
                "tag": "lifecycle"})
    # exception classes: ValueError before RuntimeError, TypeError with a missing bound, ZeroDivisionError, a
    # rejected fix_value leaves a fixed undefined parameter
    out.append({"ops": [new("f", 0.5, 0.0, 1.0, False), st("f", 3.0), st("f", 0.7), st("f", 0.7, True),
                        new("o", None, None, 3.0, True), st("o", 5.0), st("o", 2.0), new("g", None, 0.0, 1.0, False),
                        {"k": "fix", "x": "g", "v": 5.0}, st("g", 0.5), {"k": "reset", "x": "g"}, st("g", 0.5, True),
                        new("d", None, 1.0, 1.0, True), st("d", 5.0), st("d", 1.0), new("i", None, 2.0, 0.0, True),
                        st("i", 5.0), st("i", 1.0), new("e", 5.0, 1.0, 1.0, True)], "tag": "exceptions"})
    # assign: partial effect, unknown key, a fixed parameter is not a variable; get_variables hides defaults
    out.append({"ops": [new("a"), new("b"), new("k", 1.0), mk("c0", "BS", {"theta": ref("a"), "phi_tr": ref("b"), "phi_bl": ref("k")}, "Rx"),
                        {"k": "assign", "c": "c0", "kv": [["a", 100.0], ["zz", 1.0], ["b", 2.0]], "via": "assign"},
                        {"k": "assign", "c": "c0", "kv": [["b", -1.0], ["k", 2.0]], "via": "assign"},
                        {"k": "assign", "c": "c0", "kv": [["a", PI / 2 + 5e-7], ["b", 5e-7]], "via": "assign"},
                        {"k": "assign", "c": "c0", "kv": [["a", PI / 2 + 2e-6], ["b", 2e-6]], "via": "assign"},
                        {"k": "copy", "c": "c0"}, {"k": "resetall", "c": "c0"}, {"k": "copy", "c": "c0"}], "tag": "assign"})
    # compute_unitary(assign=...): forwarded to assign() by PS / WP / PR, ignored by BS (also an unknown key and a value
    # that set_value would refuse pass silently there)
    out.append({"ops": [new("a"), new("n", None, 0.0, 1.0, False), mk("c0", "BS", {"theta": ref("a"), "phi_tl": ref("n")}, "Rx"),
                        mk("c1", "PS", {"phi": ref("a")}), st("a", 1.0), st("n", 0.5),
                        {"k": "assign", "c": "c0", "kv": [["a", 2.0]], "via": "compute"},
                        {"k": "assign", "c": "c0", "kv": [["zz", 2.0], ["n", 7.0]], "via": "compute"},
                        {"k": "assign", "c": "c1", "kv": [["a", 2.5]], "via": "compute"},
                        {"k": "assign", "c": "c1", "kv": [["zz", 2.0]], "via": "compute"},
                        {"k": "assign", "c": "c0", "kv": [["a", 3.0], ["n", 7.0]], "via": "assign"}], "tag": "assign"})
    # a stale value of a non periodic (shared) parameter: copy() raises on the repaired code, wraps on the pinned one
    out.append({"ops": [new("q"), st("q", 9.0), mk("c0", "BS", {"theta": ref("q"), "phi_tl": ref("q")}, "H"),
                        {"k": "copy", "c": "c0"}, st("q", 1.0), {"k": "copy", "c": "c0"}], "tag": "lifecycle"})
    return out


# ------------------------------------------------------------------------------------------------
# xsess stream: Expression objects (full language, Expressions of Expressions, overrides) and the SYMBOLIC branch
# of every leaf (Model/C14Expr.lean, Model/C14Sym.lean)
# ------------------------------------------------------------------------------------------------
# ASTs (extended): {"v": name} | {"c": q[, "f": 1]} | {"pi": 1} | {"op": add|sub|mul|div, "a", "b"} | {"op": "neg", "a"}
# | {"op": "pow", "a", "n": non-zero int} | {"op": "fn", "f": sin|cos|exp|sqrt|acos, "a"}
X_FUNS = ("sin", "cos", "exp", "sqrt", "acos")
X_KINDS = [("BS", "Rx"), ("BS", "Ry"), ("BS", "H"), ("PS", None), ("WP", None), ("HWP", None), ("QWP", None),
           ("PR", None)]
X_SLOT_DEFAULT = {"theta": {"lit": {"op": "div", "a": {"pi": 1}, "b": {"c": "2"}}}}     # BS(theta=sp.pi/2)
PI_RAT = core.rat(math.pi)
HALF_PI = {"op": "div", "a": {"pi": 1}, "b": {"c": "2"}}


def xast_vars(a):
    if "v" in a:
        return {a["v"]}
    if "c" in a or "pi" in a:
        return set()
    out = xast_vars(a["a"])
    if "b" in a:
        out |= xast_vars(a["b"])
    return out


def xast_depth(a):
    if "v" in a or "c" in a or "pi" in a:
        return 0
    return 1 + max(xast_depth(a["a"]), xast_depth(a["b"]) if "b" in a else 0)


def xast_feats(a, out=None):
    """which constructs of the language an AST uses"""
    out = set() if out is None else out
    if "pi" in a:
        out.add("pi")
    if "op" in a:
        if a["op"] == "fn":
            out.add("fn:" + a["f"])
        elif a["op"] == "pow":
            out.add("negpow" if a["n"] < 0 else "pow")
        else:
            out.add(a["op"])
        xast_feats(a["a"], out)
        if "b" in a:
            xast_feats(a["b"], out)
    return out


def xast_text(a):
    """the expression as text for `Expression(text, params)` (sympy syntax)"""
    if "v" in a:
        return a["v"]
    if "pi" in a:
        return "pi"
    if "c" in a:
        q = Fraction(a["c"])
        if a.get("f"):
            return repr(float(q)) if q >= 0 else f"({float(q)!r})"
        if q.denominator == 1:
            return str(q.numerator) if q >= 0 else f"({q.numerator})"
        return f"({q.numerator}/{q.denominator})"
    op = a["op"]
    if op == "neg":
        return f"(-{xast_text(a['a'])})"
    if op == "pow":
        return f"({xast_text(a['a'])})**({a['n']})"
    if op == "fn":
        return f"{a['f']}({xast_text(a['a'])})"
    return f"({xast_text(a['a'])} {dict(add='+', sub='-', mul='*', div='/')[op]} {xast_text(a['b'])})"


def xast_lean(a):
    """the AST as the driver reads it (constants as exact rationals)"""
    if "v" in a or "pi" in a:
        return a
    if "c" in a:
        return {"c": a["c"]}
    d = {"op": a["op"], "a": xast_lean(a["a"])}
    if "b" in a:
        d["b"] = xast_lean(a["b"])
    if a["op"] == "pow":
        d["n"] = a["n"]
    if a["op"] == "fn":
        d["f"] = a["f"]
    return d


def fn_value(f, x):
    """math.<f>(x) for a float x; None when the result is not a (finite) real number"""
    try:
        if f == "sin":
            r = math.sin(x)
        elif f == "cos":
            r = math.cos(x)
        elif f == "exp":
            r = math.exp(x)
        elif f == "sqrt":
            r = math.sqrt(x)
        elif f == "acos":
            r = math.acos(x)
        else:
            raise KeyError(f)
    except (ValueError, OverflowError):
        return None
    return r if math.isfinite(r) else None


def xeval_info(a, env):
    """(value | None, |.|-scale, well_conditioned): float evaluation of an AST at `env` (name -> float | None).
    value None = a sub-parameter has no value ("undef" in the 4th field) or the result is not a real number."""
    if "v" in a:
        v = env.get(a["v"])
        return (None, 0.0, True, "undef") if v is None else (float(v), abs(float(v)), True, None)
    if "pi" in a:
        return math.pi, math.pi, True, None
    if "c" in a:
        q = float(Fraction(a["c"]))
        return q, abs(q), True, None
    x, sx, wx, ux = xeval_info(a["a"], env)
    op = a["op"]
    if "b" in a:
        y, sy, wy, uy = xeval_info(a["b"], env)
        und = ux or uy
        if x is None or y is None:
            return None, 0.0, wx and wy, und or "notreal"
        well = wx and wy
        if op == "add":
            return x + y, sx + sy, well, None
        if op == "sub":
            return x - y, sx + sy, well, None
        if op == "mul":
            return x * y, sx * sy, well, None
        if y == 0:
            return None, 0.0, well and sy == 0, "notreal"
        if abs(y) * 1000 < sy:
            well = False
        return x / y, sx / abs(y), well, None
    if x is None:
        return None, 0.0, wx, ux or "notreal"
    if op == "neg":
        return -x, sx, wx, None
    if op == "pow":
        n = a["n"]
        if n >= 0:
            try:
                return x ** n, sx ** n, wx, None
            except OverflowError:
                return None, 0.0, False, "notreal"
        if x == 0:
            return None, 0.0, wx and sx == 0, "notreal"
        well = wx and not (abs(x) * 1000 < sx)
        try:
            v = x ** n
        except (OverflowError, ZeroDivisionError):
            return None, 0.0, False, "notreal"
        return v, abs(v) * (max(sx, abs(x)) / abs(x)) ** (-n), well, None
    f = a["f"]
    v = fn_value(f, x)
    if f in ("sin", "cos"):
        return v, max(1.0, sx), wx, None
    if f == "exp":
        if v is None or abs(x) > 300:
            return None, 0.0, False, "notreal"
        return v, abs(v) * (1 + sx), wx, None
    if f == "sqrt":
        edge = abs(x) < 1e-6 * max(1.0, sx)
        if v is None:
            return None, 0.0, wx and not edge, "notreal"
        return v, v + sx / (2 * max(v, 1e-300)), wx and not edge, None
    edge = abs(1 - abs(x)) < 1e-6 * max(1.0, sx)       # acos
    if v is None:
        return None, 0.0, wx and not edge, "notreal"
    return v, math.pi + sx / max(math.sqrt(max(1 - x * x, 0.0)), 1e-300), wx and not edge, None


def xsympy_name(ast):
    """normalised `Expression` name of an AST, or None when sympy's automatic evaluation loses a symbol
    (`Expression.__init__` refuses it) or the text does not parse to an expression"""
    import sympy as sp
    try:
        e = sp.S(xast_text(ast))
        if not isinstance(e, sp.Expr) or {s.name for s in e.free_symbols} != xast_vars(ast):
            return None
        return f"({e})"
    except Exception:  # noqa: BLE001
        return None


def xast_subnodes(a):
    if "op" in a:
        yield a
        yield from xast_subnodes(a["a"])
        if "b" in a:
            yield from xast_subnodes(a["b"])


def xobj_ast(case, oid):
    return next(o["ast"] for o in case["ops"] if o["k"] == "xnew" and o["id"] == oid)


def xslot_ref(op, slot):
    """what a slot of a `mk` holds: {"num": v} | {"ref": name} | {"ex": id} | {"default": 1}"""
    if slot in op["args"]:
        return op["args"][slot]
    return {"default": 1} if slot == "theta" else {"num": 0}


def x_operand(spec, P, objs):
    kind, val = spec
    if kind == "obj":
        return objs[val]
    if kind == "par":
        return P[val]
    return const_py(val)


def observe_xsess(case):
    """run the history on the real classes; after every op: exception class, every raw parameter, every Expression
    object, and per component the slot reads, numeric matrix, symbolic matrix (evaluated at the current values)"""
    import perceval as pcvl
    from perceval.components import BS
    P, objs, comps, kinds = {}, {}, {}, {}
    out = {"out": [], "steps": [], "ident": {}}

    def pinfo(p):
        return [p.min, p.max, bool(p._periodic), p._symbol is not None, (float(p._value) if p._value is not None else None)]

    def num(x):
        try:
            r = float(x)
            return r if math.isfinite(r) else "err:nonfinite"
        except Exception as e:  # noqa: BLE001
            return "err:" + type(e).__name__

    def snap():
        cur = {n: float(p._value) for n, p in P.items() if p._value is not None}
        s = {"params": {n: pinfo(p) for n, p in P.items()},
             "objs": {i: pinfo(o) + [bool(o.defined)] for i, o in objs.items()}, "comps": {}}
        for cid, c in comps.items():
            kind = kinds[cid][0]
            d = {"reads": [num(c.param(sl)) for sl, _, _ in SLOTS[kind]], "defined": bool(c.defined)}
            try:
                M = c.compute_unitary(use_symbolic=False)
                d["num"] = cmat(np.array(M, dtype=complex).tolist())
                if not finite_mat(d["num"]):
                    d["num"] = "err:nonfinite"
            except Exception as e:  # noqa: BLE001
                d["num"] = "err:" + type(e).__name__
            try:
                M = c.compute_unitary(use_symbolic=True)
                import sympy as sp
                Ms = sp.Matrix(M) if not isinstance(M, np.ndarray) else None
                d["free"] = sorted({s_.name for s_ in Ms.free_symbols}) if Ms is not None else []
                if all(n in cur for n in d["free"]):
                    d["sym"] = sym_np(M, cur)
                    if not finite_mat(d["sym"]):
                        d["sym"] = "err:nonfinite"
                else:
                    d["sym"] = "symbolic"
            except Exception as e:  # noqa: BLE001
                d["sym"] = "err:" + type(e).__name__
            s["comps"][cid] = d
        return s

    for op in case["ops"]:
        k = op["k"]
        res = None
        try:
            if k == "new":
                P[op["x"]] = pcvl.P(op["x"], op["val"], op["lo"], op["hi"], op["periodic"])
            elif k == "set":
                P[op["x"]].set_value(op["v"])
            elif k == "fix":
                P[op["x"]].fix_value(op["v"])
            elif k == "reset":
                P[op["x"]].reset()
            elif k == "xnew":
                how = op["how"]
                if how == "text":
                    o = pcvl.Expression(xast_text(op["ast"]), {P[n] for n in sorted(xast_vars(op["ast"]))})
                elif how == "ops":
                    o = build_expr(op["ast"], P, {})
                elif how == "rtheta":
                    o = BS.r_to_theta(P[op["r"]])
                else:       # compose: a Python operator applied to existing objects
                    c = op["compose"]
                    x = x_operand(c["l"], P, objs)
                    if c["op"] == "neg":
                        o = -x
                        out["ident"][op["id"]] = bool((-o) is x)
                    elif c["op"] == "pow":
                        o = x ** c["n"]
                    else:
                        y = x_operand(c["r"], P, objs)
                        o = {"add": lambda: x + y, "sub": lambda: x - y, "mul": lambda: x * y,
                             "div": lambda: x / y}[c["op"]]()
                if not isinstance(o, pcvl.Expression):
                    raise TypeError("not an Expression object")
                objs[op["id"]] = o
            elif k == "xset":
                if op.get("via"):
                    comps[op["via"]].assign({objs[op["id"]].name: op["v"]})
                else:
                    objs[op["id"]].set_value(op["v"])
            elif k == "xfix":
                objs[op["id"]].fix_value(op["v"])
            elif k == "xreset":
                objs[op["id"]].reset()
            elif k == "mk":
                args = {}
                for slot, _, _ in SLOTS[op["kind"]]:
                    a = xslot_ref(op, slot)
                    if "num" in a and slot in op["args"]:
                        args[slot] = a["num"]
                    elif "ref" in a:
                        args[slot] = P[a["ref"]]
                    elif "ex" in a:
                        args[slot] = objs[a["ex"]]
                kinds[op["c"]] = (op["kind"], op.get("conv"))
                comps[op["c"]] = build_component(op["kind"], op.get("conv"), args, op.get("how", "ctor"))
            else:
                raise KeyError(k)
        except Exception as e:  # noqa: BLE001
            res = type(e).__name__ + ("" if k != "xnew" else ":" + str(e)[:80])
            if k == "mk":
                comps.pop(op["c"], None)
                kinds.pop(op["c"], None)
        out["out"].append(res)
        out["steps"].append(snap())
    # the symbolic matrices as functions of their free symbols: evaluated at the points; `.U` at the first point
    fin = {}
    for cid, c in comps.items():
        d = {"pts": []}
        try:
            M = c.compute_unitary(use_symbolic=True)
            for pt in case["points"]:
                try:
                    m = sym_np(M, pt)
                    d["pts"].append(m if finite_mat(m) else "err:nonfinite")
                except Exception as e:  # noqa: BLE001
                    d["pts"].append("err:" + type(e).__name__)
            if case.get("deep") and case["points"]:
                # (`.U` runs sympy's `simplify` on every entry, which can take minutes on a trigonometric function
                # of a polynomial: bounded here, and a case that hits the bound is not compared)
                import signal

                def _alarm(signum, frame):
                    raise TimeoutError
                prev = signal.signal(signal.SIGALRM, _alarm)
                signal.alarm(6)
                try:
                    m = sym_np(c.U, case["points"][0])
                    d["U"] = m if finite_mat(m) else "err:nonfinite"
                except TimeoutError:
                    d["U"] = "skipped:timeout"
                except Exception as e:  # noqa: BLE001
                    d["U"] = "err:" + type(e).__name__
                finally:
                    signal.alarm(0)
                    signal.signal(signal.SIGALRM, prev)
        except Exception as e:  # noqa: BLE001
            d["err"] = type(e).__name__
        fin[cid] = d
    out["final"] = fin
    return out


def observe_xsess_bounded(case, seconds=40):
    """`observe_xsess` under a wall-clock bound: sympy's evaluation of a pathological expression can take minutes;
    such a case is reported as not compared (counted, and kept in the evidence)"""
    import signal

    def _alarm(signum, frame):
        raise TimeoutError
    try:
        prev = signal.signal(signal.SIGALRM, _alarm)
    except ValueError:          # not in the main thread of the process
        return observe_xsess(case)
    signal.alarm(seconds)
    try:
        return observe_xsess(case)
    except TimeoutError:
        return {"timeout": True}
    finally:
        signal.alarm(0)
        signal.signal(signal.SIGALRM, prev)


def observe_pbs(case):
    from perceval.components import PBS
    out = {}
    try:
        c = PBS()
        out["num"] = cmat(np.array(c.compute_unitary(), dtype=complex).tolist())
        out["sym"] = sym_np(c.compute_unitary(use_symbolic=True))
        out["U"] = sym_np(c.U)
        out["def"] = sym_np(c.definition())
        out["m"] = int(c.m)
        out["pol"] = bool(c.requires_polarization)
    except Exception as e:  # noqa: BLE001
        out["err"] = type(e).__name__ + ": " + str(e)[:150]
    return out


# -- the model's request ----------------------------------------------------------------------------
def xsess_flatten(case):
    """user ops -> model ops (`mk` = one `_set_parameter` per slot), index of the last model op of every user op
    (None: no model op), and the components"""
    mops, last, comps = [], [], []
    r = lambda x: None if x is None else core.rat(x)  # noqa: E731
    for op in case["ops"]:
        k = op["k"]
        if k == "new":
            mops.append({"k": "new", "x": op["x"], "val": r(op["val"]), "lo": r(op["lo"]), "hi": r(op["hi"]),
                         "periodic": bool(op["periodic"])})
        elif k == "set":
            mops.append({"k": "set", "x": op["x"], "v": r(op["v"]), "force": False})
        elif k == "fix":
            mops.append({"k": "fix", "x": op["x"], "v": r(op["v"])})
        elif k == "reset":
            mops.append({"k": "reset", "x": op["x"]})
        elif k == "xnew":
            mops.append({"k": "xnew", "id": op["id"], "e": xast_lean(op["ast"])})
        elif k == "xset":
            mops.append({"k": "xset", "id": op["id"], "v": r(op["v"]), "force": False})
        elif k == "xfix":
            mops.append({"k": "xfix", "id": op["id"], "v": r(op["v"])})
        elif k == "xreset":
            mops.append({"k": "xreset", "id": op["id"]})
        elif k == "mk":
            slots = []
            for slot, lo, hi in SLOTS[op["kind"]]:
                a = xslot_ref(op, slot)
                if "default" in a:
                    slots.append(X_SLOT_DEFAULT[slot])
                elif "num" in a:
                    key = f"{op['c']}.{slot}"
                    mops.append({"k": "new", "x": key, "val": r(a["num"]), "lo": r(lo), "hi": r(hi), "periodic": True})
                    slots.append({"par": key})
                elif "ref" in a:
                    mops.append({"k": "bind", "x": a["ref"], "lo": r(lo), "hi": r(hi)})
                    slots.append({"par": a["ref"]})
                else:
                    mops.append({"k": "xbind", "id": a["ex"], "lo": r(lo), "hi": r(hi)})
                    slots.append({"ex": a["ex"]})
            comps.append({"c": op["c"], "kind": op["kind"], "conv": op.get("conv") or "", "from": len(mops) - 1,
                          "slots": slots})
        last.append(len(mops) - 1)
    return mops, last, comps


def xsess_lean_req(case, table):
    mops, last, comps = xsess_flatten(case)
    return {"op": "xsess", "pi": PI_RAT, "table": table, "ops": mops, "comps": comps, "symat": sorted(set(last)),
            "points": [{n: core.rat(v) for n, v in pt.items()} for pt in case["points"]]}


def xsess_ask(lean, cases):
    """ask the model, supplying the values of math.sin/cos/exp/sqrt/acos it asks for until nothing is missing"""
    tables = [[] for _ in cases]
    reps = [None] * len(cases)
    todo = list(range(len(cases)))
    for _round in range(12):
        if not todo:
            break
        got = lean.ask_many([xsess_lean_req(cases[i], tables[i]) for i in todo])
        nxt = []
        for i, rep in zip(todo, got):
            reps[i] = rep
            miss = rep.get("missing") or []
            if "err" not in rep and miss:
                for f, arg in miss:
                    v = fn_value(f, float(Fraction(arg)))
                    tables[i].append([f, arg, None if v is None else core.rat(v)])
                nxt.append(i)
        todo = nxt
    for i in todo:
        reps[i] = {"err": "function table did not converge"}
    return reps


# -- judging ------------------------------------------------------------------------------------------
def x_num_eq(got, want, scale=1.0, tol=1e-9):
    """real float against the model's exact rational string"""
    w = float(Fraction(want))
    return abs(got - w) <= tol * (1 + abs(w) + scale)


def x_label(kind, conv):
    return kind + ("." + conv if conv else "")


def x_mat_kind(m):
    return "matrix" if isinstance(m, list) else m


def x_model_mat(rows):
    """model rows (entries exact or null) -> complex matrix, or None when an entry is not a number"""
    if rows is None or any(z is None for r in rows for z in r):
        return None
    return core.unmat(rows)


def judge_xsess(case, obs, reps):
    if obs.get("timeout"):
        return []
    rep = reps[0]
    if "err" in rep:
        return [("broken", "lean-driver", f"xsess request rejected: {rep['err']}")]
    fails = []
    mops, last, mcomps = xsess_flatten(case)
    comp_ops = {o["c"]: o for o in case["ops"] if o["k"] == "mk"}
    asts = {o["id"]: o["ast"] for o in case["ops"] if o["k"] == "xnew"}
    overridden = {}
    requested = {}
    for i, op in enumerate(case["ops"]):
        k, res, snp = op["k"], obs["out"][i], obs["steps"][i]
        when = f"op {i} {json.dumps({x: y for x, y in op.items() if x != 'ast'})[:160]}"
        mi = last[i]
        mout = rep["out"][mi] if mi >= 0 else None
        msn = rep["steps"][mi] if mi >= 0 else {"params": {}, "objs": {}, "comps": {}}
        res_cls = None if res is None else res.split(":")[0]
        # ---- the call itself
        if k == "mk":
            if res is not None:
                fails.append(("violation", "xsess-constructor-raises", f"{when}: {res}"))
                return fails
        elif k == "xnew":
            if res is not None:
                fails.append(("violation", "xsess-expression-rejected",
                              f"{when}: building the Expression {xast_text(op['ast'])} raised {res}"))
                return fails
            if obs["ident"].get(op["id"]) is False:
                fails.append(("violation", "xsess-double-negation", f"{when}: -(-e) is not the object e"))
        elif res_cls != mout:
            # the oracle on raw parameters is the life stream's business; here: model vs code
            fails.append(("broken", f"xsess-model-vs-code:{k}", f"{when}: {res or 'no exception'}, model {mout or 'no exception'}"))
            return fails
        if k == "xset" and res is None and overridden.get(op["id"]) != "fixed":
            overridden[op["id"]] = "set"
        elif k == "xfix":
            overridden[op["id"]] = "fixed"          # `_symbol` dropped (also by a rejected call): no expression any more
        elif k == "xreset" and overridden.get(op["id"]) == "set":
            overridden.pop(op["id"])
        # ---- states: raw parameters, Expression objects (model vs code)
        for n, g in snp["params"].items():
            m = msn["params"].get(n)
            f = "missing" if m is None else life_pinfo_diff(g, m)
            if f:
                fails.append(("broken", "xsess-model-vs-code:param", f"{when}: {f} of parameter {n} is {g}, model {m}"))
                return fails
        for oid, g in snp["objs"].items():
            m = msn["objs"].get(oid)
            f = "missing" if m is None else (life_pinfo_diff(g[:5], m[:5]) or (None if g[5] == m[5] else "defined"))
            if f:
                fails.append(("broken", "xsess-model-vs-code:object",
                              f"{when}: {f} of Expression object {oid} is {g}, model {m}"))
                return fails
        cur = {n: g[4] for n, g in snp["params"].items()}
        # ---- components
        for cid, d in snp["comps"].items():
            cop = comp_ops[cid]
            kind, conv = cop["kind"], cop.get("conv")
            label = x_label(kind, conv)
            md = msn["comps"].get(cid)
            if md is None:
                fails.append(("broken", "xsess-model-vs-code:component", f"{when}: component {cid} unknown to the model"))
                return fails
            vals, scales, all_float, illcond = {}, {}, True, False
            for (slot, lo, hi), got, want in zip(SLOTS[kind], d["reads"], md["reads"]):
                a = xslot_ref(cop, slot)
                live_ast = asts[a["ex"]] if ("ex" in a and not overridden.get(a["ex"])) else None
                scale = 0.0
                if live_ast is not None:
                    # DIRECT ORACLE: the slot reads the expression at the current values of the raw parameters
                    v, scale, well, why = xeval_info(live_ast, cur)
                    if why == "undef":
                        if isinstance(got, float):
                            fails.append(("violation", "expr-stale-value",
                                          f"{when}: slot {slot} of {cid} reads {got!r} although a sub-parameter of "
                                          f"{xast_text(live_ast)} has no value"))
                            return fails
                    elif well and v is not None:
                        if not isinstance(got, float):
                            fails.append(("violation", "expr-not-evaluated",
                                          f"{when}: slot {slot} of {cid} bound to {xast_text(live_ast)} gives {got}; at the "
                                          f"current values {cur} it is {v!r}"))
                            return fails
                        if abs(got - v) > 1e-9 * (1 + abs(v) + scale):
                            fails.append(("violation", "expr-live-value",
                                          f"{when}: slot {slot} of {cid} bound to {xast_text(live_ast)} evaluates to {got!r}; "
                                          f"at the current values {cur} it is {v!r}"))
                            return fails
                    elif not well:
                        illcond = True
                        all_float = all_float and isinstance(got, float)
                        vals[slot] = got
                        scales[slot] = scale
                        continue        # ill-conditioned: neither the oracle nor the model is compared
                # MODEL vs code
                if isinstance(want, dict):
                    cls = want["e"]
                    if isinstance(got, float):
                        if cls == "TypeError" and live_ast is not None:
                            illcond = True      # sympy simplified a division / root away: more defined than the model, not compared
                        else:
                            fails.append(("broken", "xsess-model-vs-code:read",
                                          f"{when}: slot {slot} of {cid} reads {got!r}, model raises {cls}"))
                            return fails
                    elif cls in ("ValueError", "AttributeError") and got != "err:" + cls:
                        fails.append(("broken", "xsess-model-vs-code:read",
                                      f"{when}: slot {slot} of {cid} gives {got}, model raises {cls}"))
                        return fails
                elif not isinstance(got, float):
                    fails.append(("broken", "xsess-model-vs-code:read",
                                  f"{when}: slot {slot} of {cid} gives {got}, model reads {float(Fraction(want))!r}"))
                    return fails
                elif not x_num_eq(got, want, scale):
                    fails.append(("broken", "xsess-model-vs-code:read",
                                  f"{when}: slot {slot} of {cid} reads {got!r}, model {float(Fraction(want))!r}"))
                    return fails
                if not isinstance(got, float):
                    all_float = False
                vals[slot] = got
                scales[slot] = scale
            if not all_float:
                if isinstance(d["num"], list):
                    fails.append(("violation", "expr-stale-value",
                                  f"{when}: {label} {cid} returns a numeric matrix although its slots read {d['reads']}"))
                    return fails
                continue
            # matrices: DIRECT ORACLE (documented matrix at the values the slots read), then the model
            doc = doc_matrix(kind, conv, vals)
            vmax = max([abs(x) for x in vals.values()] + [0.0])
            smax = min(max(list(scales.values()) + [0.0]), 1e9)      # (finite: an edge of acos / sqrt has an infinite scale)
            tol = 1e-8 + 2e-15 * max(vmax, smax)
            for key, which in (("num", "numeric"), ("sym", "symbolic")):
                got = d[key]
                if not isinstance(got, list):
                    fails.append(("violation", f"xsess-matrix-raises:{which}",
                                  f"{when}: {label} {cid} ({which}) gives {got} although its slots read {vals}"))
                    return fails
                if not core.mat_close(got, doc, tol):
                    fails.append(("violation", f"xsess-matrix:{label}:{which}",
                                  f"{when}: the {which} matrix of {label} {cid} is not the documented matrix at the "
                                  f"slot values {vals} (off by {core.mat_maxdiff(got, doc):.3g})"))
                    return fails
            if illcond:
                continue
            mm = x_model_mat(md.get("sym"))
            if mm is None:
                fails.append(("broken", "xsess-model-vs-code:symbolic",
                              f"{when}: the model cannot evaluate the symbolic matrix of {cid} at the current values"))
                return fails
            # (the model wraps a directly bound parameter exactly, the code in doubles: a difference of a few ulp of
            # the REQUESTED value, amplified by the expression)
            if not core.mat_close(d["sym"], mm, tol + 1e-12 * max(vmax, smax)):
                fails.append(("broken", "xsess-model-vs-code:symbolic",
                              f"{when}: symbolic matrix of {label} {cid} differs from the model by "
                              f"{core.mat_maxdiff(d['sym'], mm):.3g}"))
                return fails
    # ---- last state: the symbolic matrix as a function of its free symbols
    last_snp = obs["steps"][-1] if obs["steps"] else {"comps": {}, "params": {}}
    cur = {n: g[4] for n, g in last_snp["params"].items()}
    for cid, d in obs["final"].items():
        cop = comp_ops[cid]
        kind, conv = cop["kind"], cop.get("conv")
        label = x_label(kind, conv)
        mf = rep["final"].get(cid)
        broken_obj = any(overridden.get(a.get("ex")) == "fixed" and last_snp["objs"][a["ex"]][4] is None
                         for a in (xslot_ref(cop, sl) for sl, _, _ in SLOTS[kind]))
        if "err" in d or mf is None:
            if "err" in d and mf is None and broken_obj:
                continue        # a rejected fix_value left an Expression object without `_symbol` and without value
            fails.append(("violation" if "err" in d and not broken_obj else "broken", "xsess-symbolic-raises",
                          f"{label} {cid}: compute_unitary(use_symbolic=True) gives {d.get('err')}, model "
                          f"{'has a matrix' if mf is not None else 'has none'}"))
            return fails
        free = last_snp["comps"][cid].get("free")
        if free is not None and sorted(mf["free"]) != free and set(free) < set(mf["free"]):
            # sympy multiplies an entry by an exact zero away: WP(delta=a, xsi=-a) at a = 0.0 has sin(delta) = 0.0 in
            # front of every term that still holds the symbol of xsi, so the real matrix has FEWER free symbols than
            # the model's (un-simplified) one.  Accepted only when a current slot value makes an exact zero factor.
            reads = [v for v in last_snp["comps"][cid].get("reads", []) if isinstance(v, float)]
            if any(v == 0.0 or math.sin(v) == 0.0 or math.cos(v) == 0.0 or math.sin(v / 2) == 0.0
                   or math.cos(v / 2) == 0.0 for v in reads):
                continue
        if free is not None and sorted(mf["free"]) != free and set(free) < set(mf["free"]):
            # sympy also cancels symbols algebraically: BS.H with the phases e, e, -e, -e has every phase sum reduced to 0,
            # so the real matrix has FEWER free symbols than the model's syntactic set although both denote the same
            # function.  A strict subset is therefore not a disagreement by itself: the matrices are compared at the
            # points below (direct oracle against the documented matrix, and against the model), which is what would
            # expose a dependence that was really lost.
            pass
        elif free is not None and sorted(mf["free"]) != free:
            fails.append(("broken", "xsess-model-vs-code:free-symbols",
                          f"{label} {cid}: the symbolic matrix has the free symbols {free}, model {sorted(mf['free'])}"))
            return fails
        for pi_, (pt, got, mrows) in enumerate(zip(case["points"], d["pts"], mf["pts"])):
            # what each slot evaluates to at the point (direct oracle)
            vals, ok, smax = {}, True, 0.0
            for slot, lo, hi in SLOTS[kind]:
                a = xslot_ref(cop, slot)
                if "default" in a:
                    vals[slot] = math.pi / 2
                elif "num" in a:
                    vals[slot] = last_snp["comps"][cid]["reads"][[s for s, _, _ in SLOTS[kind]].index(slot)]
                elif "ref" in a:
                    vals[slot] = cur[a["ref"]] if cur.get(a["ref"]) is not None else pt[a["ref"]]
                else:
                    oid = a["ex"]
                    ov = last_snp["objs"][oid][4]
                    if ov is not None:
                        vals[slot] = ov
                    elif overridden.get(oid):
                        ok = False
                    else:
                        v, scale, well, why = xeval_info(asts[oid], pt)
                        smax = min(max(smax, scale), 1e9)
                        if v is None or not well:
                            ok = False
                        else:
                            vals[slot] = v
            if not ok or not all(isinstance(v, float) for v in vals.values()):
                continue
            if max([abs(x) for x in vals.values()] + [0.0]) > 1e7:
                # beyond about 1e6 periods a double no longer determines the angle (an expression such as
                # exp(5*(c+a)/4) amplifies the rounding of its argument by |value|): not compared, as for the other streams
                continue
            doc = doc_matrix(kind, conv, vals)
            tol = 1e-8 + 2e-15 * max([abs(x) for x in vals.values()] + [smax])
            for key, g in (("pts", got),) + ((("U", d["U"]),) if (pi_ == 0 and "U" in d and d["U"] != "skipped:timeout") else ()):
                which = "symbolic" if key == "pts" else "U"
                if not isinstance(g, list):
                    fails.append(("violation", f"xsess-matrix-raises:{which}",
                                  f"{label} {cid}: the {which} matrix at the point {pt} gives {g} (slots {vals})"))
                    return fails
                if not core.mat_close(g, doc, tol):
                    fails.append(("violation", f"xsess-matrix:{label}:{which}",
                                  f"{label} {cid}: the {which} matrix evaluated at {pt} is not the documented matrix at "
                                  f"the slot values {vals} (off by {core.mat_maxdiff(g, doc):.3g})"))
                    return fails
            mm = x_model_mat(mrows)
            if mm is None or not core.mat_close(got, mm, tol + 1e-12 * max([abs(x) for x in vals.values()] + [smax])):
                fails.append(("broken", "xsess-model-vs-code:symbolic-point",
                              f"{label} {cid}: symbolic matrix at {pt} differs from the model "
                              f"({'model undefined' if mm is None else format(core.mat_maxdiff(got, mm), '.3g')})"))
                return fails
    return fails


def judge_pbs(case, obs, reps):
    rep = reps[0]
    if "err" in rep:
        return [("broken", "lean-driver", f"pbs request rejected: {rep['err']}")]
    if "err" in obs:
        return [("violation", "pbs-raises", f"PBS(): {obs['err']}")]
    want = [[0, 0, 1, 0], [0, 1, 0, 0], [1, 0, 0, 0], [0, 0, 0, 1]]
    model = core.unmat(rep["U"])
    fails = []
    if not rep["unitary"] or not core.mat_close(model, want):
        fails.append(("broken", "model-internal", "PBS model is not the documented matrix"))
    for key in ("num", "sym", "U", "def"):
        if not core.mat_close(obs[key], model):
            fails.append(("violation" if not core.mat_close(obs[key], want) else "broken", f"pbs-matrix:{key}",
                          f"PBS(): {key} matrix differs from the documented one"))
    if obs["m"] != 2 or not obs["pol"]:
        fails.append(("violation", "pbs-shape", f"PBS(): m = {obs['m']}, requires_polarization = {obs['pol']}"))
    return fails


# -- generators --------------------------------------------------------------------------------------
X_CONSTS = ["1", "2", "3", "-1", "1/2", "1/4", "3/2", "5", "-2", "1/10", "1/3"]


def xgen_const(rng):
    r = rng.random()
    if r < 0.65:
        return {"c": rng.choice(X_CONSTS)}
    if r < 0.8:
        return {"pi": 1}
    return const_node(round(rng.uniform(-4, 4), rng.choice([1, 2, 3])))


def xgen_ast(rng, names, depth, funs=True):
    """random AST of the full language"""
    if depth == 0 or rng.random() < 0.15:
        return {"v": rng.choice(names)}
    r = rng.random()
    a = xgen_ast(rng, names, depth - 1, funs)
    if funs and r < 0.25:
        f = rng.choice(X_FUNS)
        if f == "acos" and rng.random() < 0.7:
            a = {"op": "div", "a": a, "b": {"c": rng.choice(["4", "10", "30"])}}
        if f == "sqrt" and rng.random() < 0.4:
            a = {"op": "pow", "a": a, "n": 2}
        if f == "exp" and rng.random() < 0.7:
            a = {"op": "div", "a": a, "b": {"c": rng.choice(["4", "10"])}}
        return {"op": "fn", "f": f, "a": a}
    if r < 0.33:
        return a["a"] if a.get("op") == "neg" else {"op": "neg", "a": a}
    if r < 0.45:
        return {"op": "pow", "a": a, "n": rng.choice([2, 3, -1, -2, 2, -1])}
    op = rng.choice(["add", "sub", "mul", "div", "add", "mul"])
    q = rng.random()
    if q < 0.4:
        return {"op": op, "a": a, "b": xgen_const(rng)}
    if q < 0.55:
        return {"op": op, "a": xgen_const(rng), "b": a}
    return {"op": op, "a": a, "b": xgen_ast(rng, names, depth - 1, funs)}


def xgen_ops_ast(rng, names, depth):
    """AST that can be built with the overloaded operators of Parameter (no function, no constant on the left of /)"""
    if depth == 0 or rng.random() < 0.2:
        return {"v": rng.choice(names)}
    op = rng.choice(["add", "sub", "mul", "div", "pow", "neg", "add", "mul"])
    a = xgen_ops_ast(rng, names, depth - 1)
    if op == "neg":
        return a["a"] if a.get("op") == "neg" else {"op": "neg", "a": a}
    if op == "pow":
        return {"op": "pow", "a": a, "n": rng.choice([2, 3, -1, -2])}
    r = rng.random()
    if r < 0.4:
        return {"op": op, "a": a, "b": gen_const(rng) if rng.random() < 0.3 else {"c": rng.choice(CONSTS)}}
    if r < 0.55 and op != "div":
        return {"op": op, "a": {"c": rng.choice(CONSTS)}, "b": a}
    return {"op": op, "a": a, "b": xgen_ops_ast(rng, names, depth - 1)}


def x_value(rng, slot_range=None):
    r = rng.random()
    if slot_range is not None and r < 0.5:
        lo, hi = slot_range
        return lo + rng.uniform(-30, 31) * (hi - lo) if rng.random() < 0.6 else rng.uniform(lo, hi)
    if r < 0.45:
        return rng.uniform(0.02, 1.0)
    if r < 0.8:
        return rng.uniform(-6, 6)
    if r < 0.9:
        return float(rng.randint(-4, 4))
    return rng.uniform(-40, 40)


def gen_xsess_case(rng, deep=False):
    names = ["a", "b", "c"][:rng.randint(1, 3)]
    ops = [{"k": "new", "x": n, "val": None, "lo": None, "hi": None, "periodic": True} for n in names]
    used_names = {}
    objs = []               # ids
    asts = {}
    comps = []
    direct = {}             # raw parameter -> range class of the slots it is plugged in directly

    def add_obj(how_ast):
        how, ast, extra = how_ast
        nm = xsympy_name(ast)
        if nm is None or nm in used_names or xast_depth(ast) > 7:
            return None
        if how == "ops" and any(xast_vars(n) and xsympy_name(n) is None for n in xast_subnodes(ast)):
            return None         # (an intermediate Expression object would lose a symbol: refused by the constructor)
        oid = f"e{len(objs)}"
        used_names[nm] = oid
        objs.append(oid)
        asts[oid] = ast
        d = {"k": "xnew", "id": oid, "how": how, "ast": ast}
        d.update(extra)
        ops.append(d)
        return oid

    def new_obj():
        for _ in range(20):
            r = rng.random()
            if objs and r < 0.3:           # an Expression of Expressions
                l = ("obj", rng.choice(objs))
                op = rng.choice(["add", "sub", "mul", "div", "neg", "pow", "add", "mul"])
                la = asts[l[1]]
                if op == "neg":
                    if la.get("op") == "neg":
                        continue        # (`-(-e)` is the object e itself, not a new Expression)
                    how = ("compose", {"op": "neg", "a": la}, {"compose": {"op": "neg", "l": l}})
                elif op == "pow":
                    n = rng.choice([2, -1, 3, -2])
                    how = ("compose", {"op": "pow", "a": la, "n": n}, {"compose": {"op": "pow", "l": l, "n": n}})
                else:
                    q = rng.random()
                    if q < 0.4:
                        rr = ("obj", rng.choice(objs))
                        ra = asts[rr[1]]
                    elif q < 0.7:
                        nm = rng.choice(names)
                        rr, ra = ("par", nm), {"v": nm}
                    else:
                        cn = {"c": rng.choice(CONSTS)}
                        rr, ra = ("num", cn), cn
                    if rng.random() < 0.3 and rr[0] != "num" and op != "div":
                        l, rr, la, ra = rr, l, ra, la
                    how = ("compose", {"op": op, "a": la, "b": ra}, {"compose": {"op": op, "l": l, "r": rr}})
            elif r < 0.55:
                how = ("ops", xgen_ops_ast(rng, names, rng.randint(1, 3)), {})
                if "v" in how[1]:
                    continue
            elif r < 0.6:
                nm = rng.choice(names)
                how = ("rtheta", {"op": "mul", "a": {"c": "2"}, "b": {"op": "fn", "f": "acos", "a": {
                    "op": "fn", "f": "sqrt", "a": {"v": nm}}}}, {"r": nm})
            else:
                how = ("text", xgen_ast(rng, names, rng.randint(1, 3)), {})
                if "v" in how[1]:
                    continue
            oid = add_obj(how)
            if oid:
                return oid
        return None

    for _ in range(rng.randint(1, 3)):
        new_obj()
    n_steps = rng.randint(5, 11)
    for step in range(n_steps):
        r = rng.random()
        if (r < 0.22 or (step == 0)) and len(comps) < 3:
            kind, conv = rng.choice(X_KINDS)
            cid = f"c{len(comps)}"
            args = {}
            for slot, lo, hi in SLOTS[kind]:
                q = rng.random()
                cand = [n for n in names if direct.get(n, RANGE_CLASS[slot]) == RANGE_CLASS[slot]]
                if q < 0.45 and objs:
                    args[slot] = {"ex": rng.choice(objs)}
                elif q < 0.6 and cand:
                    nm = rng.choice(cand)
                    direct[nm] = RANGE_CLASS[slot]
                    args[slot] = {"ref": nm}
                elif q < 0.9 or kind != "BS":
                    args[slot] = {"num": lo + rng.uniform(-2, 3) * (hi - lo)}
                # else: a BS slot left to its default (theta = sp.pi/2, phases 0)
            ops.append({"k": "mk", "c": cid, "kind": kind, "conv": conv, "args": args,
                        "how": rng.choice(["ctor", "static"]) if kind == "BS" else "ctor"})
            comps.append(cid)
        elif r < 0.62:
            nm = rng.choice(names)
            rngc = INTERVALS[direct[nm]] if nm in direct else None
            ops.append({"k": "set", "x": nm, "v": x_value(rng, rngc)})
        elif r < 0.67:
            ops.append({"k": "reset", "x": rng.choice(names)})
        elif r < 0.70:
            nm = rng.choice(names)
            rngc = INTERVALS[direct[nm]] if nm in direct else None
            ops.append({"k": "fix", "x": nm, "v": x_value(rng, rngc)})
        elif r < 0.80 and objs:
            oid = rng.choice(objs)
            holders = [o["c"] for o in ops if o["k"] == "mk" and any(a.get("ex") == oid for a in o["args"].values())]
            d = {"k": "xset", "id": oid, "v": rng.choice([rng.uniform(-30, 30), rng.uniform(0, 3)])}
            if holders and rng.random() < 0.4:
                d["via"] = rng.choice(holders)
            ops.append(d)
        elif r < 0.87 and objs:
            ops.append({"k": "xreset", "id": rng.choice(objs)})
        elif r < 0.95:
            new_obj()
        else:
            nm = rng.choice(names)
            ops.append({"k": "set", "x": nm, "v": x_value(rng)})
    if not comps:
        ops.append({"k": "mk", "c": "c0", "kind": "PS", "conv": None,
                    "args": {"phi": {"ex": objs[0]} if objs else {"ref": names[0]}}})
    points = []
    for _ in range(2):
        points.append({n: (rng.uniform(0.02, 1.0) if rng.random() < 0.5 else rng.uniform(-25, 25)) for n in names})
    # `.U` (sympy `simplify`) only on tame expressions
    tame = all(xast_depth(a) <= 2 and not any(abs(n.get("n", 1)) > 2 for n in xast_subnodes(a)) for a in asts.values())
    return {"ops": ops, "points": points, "deep": bool(deep and tame)}


def xsess_sweep_cases():
    """deterministic: the symbolic branch of every leaf kind with every kind of slot content — all slots of one
    content class, and each slot in turn of that class with numbers elsewhere; plus one history per behaviour of
    Expression objects (independent of the seed)"""
    out = []
    new = lambda x, val=None: {"k": "new", "x": x, "val": val, "lo": None, "hi": None, "periodic": True}  # noqa: E731
    classes = ["num", "free", "valued", "fixed", "expr-free", "expr-valued", "expr-override", "default"]
    fn_pool = [lambda v: {"op": "mul", "a": {"c": "2"}, "b": v},
               lambda v: {"op": "add", "a": {"op": "fn", "f": "sin", "a": v}, "b": {"c": "1/2"}},
               lambda v: {"op": "div", "a": {"pi": 1}, "b": {"op": "add", "a": {"op": "pow", "a": v, "n": 2}, "b": {"c": "1"}}},
               lambda v: {"op": "fn", "f": "sqrt", "a": {"op": "add", "a": {"op": "pow", "a": v, "n": 2}, "b": {"c": "1/4"}}},
               lambda v: {"op": "sub", "a": {"op": "fn", "f": "exp", "a": {"op": "div", "a": v, "b": {"c": "4"}}}, "b": v}]
    vals = [0.3, 1.9, -2.4, 4.4, 0.75]
    k = 0
    for kind, conv in X_KINDS:
        slots = SLOTS[kind]
        layouts = []
        for cl in classes:
            layouts.append({s: cl for s, _, _ in slots})
            if len(slots) > 1:
                for s0, _, _ in slots:
                    layouts.append({s: (cl if s == s0 else "num") for s, _, _ in slots})
        for lay in layouts:
            ops, args, after = [], {}, []
            for j, (slot, lo, hi) in enumerate(slots):
                cl = lay[slot]
                nm = f"p{j}"
                v = vals[(j + k) % len(vals)]
                if cl == "default":
                    if slot == "theta" or (kind == "BS"):
                        continue                    # BS() default: theta = sp.pi/2 (sympy), phases 0
                    cl = "num"
                if cl == "num":
                    args[slot] = {"num": lo + (0.37 + 0.11 * j + 3 * ((j + k) % 3 - 1)) * (hi - lo)}
                elif cl in ("free", "valued"):
                    ops.append(new(nm))
                    args[slot] = {"ref": nm}
                    if cl == "valued":
                        after.append({"k": "set", "x": nm, "v": lo + (0.6 + 7 * ((j + k) % 2)) * (hi - lo)})
                elif cl == "fixed":
                    ops.append(new(nm, lo + 0.45 * (hi - lo)))
                    args[slot] = {"ref": nm}
                else:
                    ops.append(new(nm))
                    ast = fn_pool[(j + k) % len(fn_pool)]({"v": nm})
                    ops.append({"k": "xnew", "id": f"e{j}", "how": "text", "ast": ast})
                    args[slot] = {"ex": f"e{j}"}
                    if cl == "expr-valued":
                        after.append({"k": "set", "x": nm, "v": v})
                    elif cl == "expr-override":
                        after.append({"k": "set", "x": nm, "v": v})
                        after.append({"k": "xset", "id": f"e{j}", "v": 11.5 + j})
            ops.append({"k": "mk", "c": "c0", "kind": kind, "conv": conv, "args": args, "how": "ctor"})
            ops += after
            names = [o["x"] for o in ops if o["k"] == "new"]
            pts = [{n: 0.2 + 0.17 * i for i, n in enumerate(names)}, {n: -7.3 + 5.1 * i for i, n in enumerate(names)}]
            out.append({"ops": ops, "points": pts, "deep": k % 3 == 0, "tag": "sym-sweep"})
            k += 1
    # behaviours of Expression objects
    st = lambda x, v: {"k": "set", "x": x, "v": v}  # noqa: E731
    xn = lambda i, how, ast, **kw: dict({"k": "xnew", "id": i, "how": how, "ast": ast}, **kw)  # noqa: E731
    va, vb = {"v": "a"}, {"v": "b"}
    two_a = {"op": "mul", "a": {"c": "2"}, "b": va}
    two_a_r = {"op": "mul", "a": va, "b": {"c": "2"}}
    mkc = lambda c, kind, args, conv=None: {"k": "mk", "c": c, "kind": kind, "conv": conv, "args": args}  # noqa: E731
    pts = [{"a": 0.4, "b": 0.7}, {"a": -9.0, "b": 13.0}]
    # one Expression object in three components of different ranges; override wraps on the first range only
    out.append({"ops": [new("a"), xn("e0", "ops", {"op": "mul", "a": {"c": "3"}, "b": va}),
                        mkc("c0", "PS", {"phi": {"ex": "e0"}}), mkc("c1", "BS", {"theta": {"ex": "e0"}}, "Rx"),
                        mkc("c2", "PR", {"delta": {"ex": "e0"}}), st("a", 5.0), st("a", -1.25),
                        {"k": "xset", "id": "e0", "v": 15.0}, {"k": "xset", "id": "e0", "v": 2.0}, st("a", 0.5),
                        {"k": "xreset", "id": "e0"}, st("a", 0.25)], "points": pts[:1], "tag": "xexpr-sweep"})
    # override on a single periodic slot (wrapped), through assign, sub-parameter reset while overridden
    out.append({"ops": [new("a"), new("b"), xn("e0", "ops", {"op": "add", "a": two_a_r, "b": vb}),
                        mkc("c0", "BS", {"theta": {"ex": "e0"}, "phi_tl": {"ref": "b"}}, "H"), st("a", 1.0), st("b", 0.5),
                        {"k": "xset", "id": "e0", "v": 100.0}, st("a", 3.0),
                        {"k": "xset", "id": "e0", "v": -7.0, "via": "c0"}, {"k": "reset", "x": "b"}, st("b", 0.1),
                        {"k": "xreset", "id": "e0"}], "points": pts, "tag": "xexpr-sweep"})
    # Expressions of Expressions built AFTER an operand was overridden; -(-e) is e
    out.append({"ops": [new("a"), new("b"), xn("e0", "ops", two_a_r), st("a", 1.5), st("b", 0.25),
                        mkc("c0", "PS", {"phi": {"ex": "e0"}}), {"k": "xset", "id": "e0", "v": 4.0},
                        xn("e1", "compose", {"op": "add", "a": two_a_r, "b": vb}, compose={"op": "add", "l": ("obj", "e0"), "r": ("par", "b")}),
                        xn("e2", "compose", {"op": "mul", "a": two_a_r, "b": {"op": "add", "a": two_a_r, "b": vb}},
                           compose={"op": "mul", "l": ("obj", "e0"), "r": ("obj", "e1")}),
                        xn("e3", "compose", {"op": "neg", "a": two_a_r}, compose={"op": "neg", "l": ("obj", "e0")}),
                        xn("e4", "compose", {"op": "pow", "a": {"op": "add", "a": two_a_r, "b": vb}, "n": -2},
                           compose={"op": "pow", "l": ("obj", "e1"), "n": -2}),
                        mkc("c1", "BS", {"theta": {"ex": "e1"}, "phi_tr": {"ex": "e2"}, "phi_bl": {"ex": "e3"}, "phi_br": {"ex": "e4"}}, "Ry"),
                        st("a", -0.75), st("b", 2.0)], "points": pts, "tag": "xexpr-sweep"})
    # functions, pi, negative powers from text; not-a-real-number values; undefined sub-parameters
    out.append({"ops": [new("a"), new("b"),
                        xn("e0", "text", {"op": "add", "a": {"op": "fn", "f": "sin", "a": va}, "b": {
                            "op": "mul", "a": {"op": "fn", "f": "sqrt", "a": va}, "b": {"pi": 1}}}),
                        xn("e1", "text", {"op": "add", "a": {"op": "pow", "a": vb, "n": -2}, "b": {"op": "fn", "f": "cos", "a": {
                            "op": "div", "a": va, "b": {"c": "2"}}}}),
                        xn("e2", "text", {"op": "fn", "f": "acos", "a": {"op": "div", "a": va, "b": {"c": "4"}}}),
                        xn("e3", "text", {"op": "fn", "f": "exp", "a": {"op": "neg", "a": {"op": "pow", "a": vb, "n": 2}}}),
                        mkc("c0", "WP", {"delta": {"ex": "e0"}, "xsi": {"ex": "e1"}}),
                        mkc("c1", "BS", {"theta": {"ex": "e2"}, "phi_tl": {"ex": "e3"}}, "Rx"),
                        st("a", 2.0), st("b", 0.5), st("a", -1.0), st("b", 0.0), st("a", 9.0), st("a", 0.81), st("b", -1.5),
                        {"k": "reset", "x": "a"}, st("a", 3.5)], "points": pts, "tag": "xexpr-sweep"})
    # BS.r_to_theta: reflectivity -> theta
    out.append({"ops": [new("r"), xn("e0", "rtheta", {"op": "mul", "a": {"c": "2"}, "b": {"op": "fn", "f": "acos", "a": {
        "op": "fn", "f": "sqrt", "a": {"v": "r"}}}}, r="r"), mkc("c0", "BS", {"theta": {"ex": "e0"}}, "Rx"),
        mkc("c1", "BS", {"theta": {"ex": "e0"}, "phi_tr": {"num": 0.3}}, "H"), st("r", 0.3), st("r", 0.85), st("r", 1.0),
        st("r", 0.0), st("r", 1.7)], "points": [{"r": 0.45}, {"r": 0.0625}], "tag": "xexpr-sweep"})
    # fix_value on an Expression object: accepted (constant for ever) and rejected (no `_symbol` left)
    out.append({"ops": [new("a"), xn("e0", "ops", two_a_r), xn("e1", "ops", {"op": "add", "a": va, "b": {"c": "1"}}),
                        mkc("c0", "PS", {"phi": {"ex": "e0"}}), mkc("c1", "PS", {"phi": {"ex": "e1"}}),
                        mkc("c2", "BS", {"theta": {"ex": "e1"}}, "Rx"), st("a", 0.5),
                        {"k": "xfix", "id": "e0", "v": 9.0}, {"k": "xfix", "id": "e1", "v": 50.0}, st("a", 1.0),
                        {"k": "xreset", "id": "e0"}, {"k": "xset", "id": "e0", "v": 1.0}], "points": [], "tag": "xexpr-sweep"})
    # a raw parameter directly in a slot and inside an Expression of the same component; values far outside
    out.append({"ops": [new("a"), new("b"), xn("e0", "text", {"op": "sub", "a": {"op": "div", "a": two_a, "b": {"c": "3"}}, "b": {
        "op": "div", "a": vb, "b": {"pi": 1}}}), mkc("c0", "BS", {"theta": {"ref": "a"}, "phi_tl": {"ex": "e0"}, "phi_br": {"ref": "b"}}, "Ry"),
        st("a", 100.0), st("b", -50.0), st("a", 2.0), {"k": "fix", "x": "b", "v": 1.0}, st("a", -3.0)],
        "points": pts, "tag": "xexpr-sweep"})
    return out


# ------------------------------------------------------------------------------------------------
# pserr stream: PS(phi, max_error != 0) — the draw is external; the matrix stays in the documented family
# ------------------------------------------------------------------------------------------------
def observe_pserr(case):
    import perceval as pcvl
    from perceval.components import PS
    out = {}
    try:
        if case["mhow"] == "param":
            mp_ = pcvl.P("err")
            c = PS(case["phi"], max_error=mp_)
            mp_.set_value(case["m"])
        else:
            c = PS(case["phi"], max_error=case["m"])
        q = c.param("max_error")
        out["m"] = float(q)
        out["phi"] = float(c.param("phi"))
        out["bounds"] = [q.min, q.max, bool(q.is_periodic)]
        out["num"] = [complex(np.array(c.compute_unitary(use_symbolic=False), dtype=complex)[0, 0])
                      for _ in range(case["n"])]
        out["sym"] = [complex(sym_np(c.compute_unitary(use_symbolic=True))[0][0]) for _ in range(case["n"])]
        out["shown"] = "max_error" in c.get_variables()
    except Exception as e:  # noqa: BLE001
        out["err"] = type(e).__name__ + ": " + str(e)[:150]
    return out


def judge_pserr(case, obs, reps):
    if any("err" in r for r in reps):
        return [("broken", "lean-driver", f"wrap request rejected: {reps}")]
    if "err" in obs:
        return [("violation", "pserr-raises", f"PS({case['phi']!r}, max_error={case['m']!r}): {obs['err']}")]
    fails = []
    if obs["bounds"] != [0.0, PI, True]:
        fails.append(("broken", "declared-bounds:max_error", f"max_error has bounds {obs['bounds']}"))
    fails += judge_stored(obs["m"], None, 0.0, PI, True, case["m"], reps[0], "PS.max_error")
    fails += judge_stored(obs["phi"], None, 0.0, TWO_PI, True, case["phi"], reps[1], "PS.phi")
    m, phi = obs["m"], case["phi"]
    for key, which in (("num", "numeric"), ("sym", "symbolic")):
        for u in obs[key]:
            if abs(abs(u) - 1) > 1e-9:
                fails.append(("violation", f"pserr-not-unitary:{which}",
                              f"PS({phi!r}, max_error={case['m']!r}): {which} entry {u!r} has modulus {abs(u)!r}"))
                return fails
            delta = cmath.phase(u * cmath.exp(-1j * phi))
            if abs(delta) > m + 1e-9:
                fails.append(("violation", f"pserr-outside-family:{which}",
                              f"PS({phi!r}, max_error={case['m']!r}) (stored amplitude {m!r}): the {which} matrix is the "
                              f"phase shifter at phi{delta:+.6g}, further than max_error from phi"))
                return fails
    if obs["shown"] != (m != 0):
        fails.append(("broken", "pserr-get-variables", f"get_variables shows max_error: {obs['shown']} for amplitude {m!r}"))
    return fails


def gen_pserr_case(rng):
    r = rng.random()
    if r < 0.6:
        m = rng.uniform(0.0, 1.0) * rng.choice([1e-3, 0.05, 0.3, 1.0])
    elif r < 0.8:
        m = rng.uniform(0.0, PI)
    else:
        m = rng.uniform(PI, 12.0)         # wrapped into [0, pi] (the slot is declared periodic)
    lo, hi = 0.0, TWO_PI
    phi = rng.uniform(lo, hi) if rng.random() < 0.5 else lo + rng.uniform(-20, 21) * (hi - lo)
    return {"phi": phi, "m": m, "mhow": rng.choice(["num", "param"]), "n": 6}


# ------------------------------------------------------------------------------------------------
# stream "refl": BS.theta_to_r / BS.r_to_theta / BS.reflectivity (Model/C14Refl.lean)
# ------------------------------------------------------------------------------------------------
REFL_PHASES = ("phi_tl", "phi_bl", "phi_tr", "phi_br")
REFL_RASTS = {
    "var": {"v": "a"},
    "mul": {"op": "mul", "a": {"v": "a"}, "b": {"v": "b"}},
    "half": {"op": "mul", "a": {"c": "1/2"}, "b": {"v": "a"}},
    "sub": {"op": "sub", "a": {"v": "a"}, "b": {"v": "b"}},
}


def refl_theta(case, which=0):
    """the requested theta: 2*atan2(s, c) of the exact half-angle point, brought into [0, 4pi], plus k spans"""
    h = case["h"] if which == 0 else case["h2"]
    base = 2 * math.atan2(float(Fraction(h["s"])), float(Fraction(h["c"])))
    if base < 0:
        base += FOUR_PI
    return base + (case["k"] if which == 0 else case["k2"]) * FOUR_PI


def refl_phase(case, slot):
    cs = case["phases"][slot]
    return math.atan2(float(Fraction(cs[1])), float(Fraction(cs[0])))


def refl_describe(x):
    """a float, or an Expression object (free symbols, current value or the exception class of float())"""
    from perceval.utils import Expression
    if isinstance(x, Expression):
        d = {"kind": "expr", "free": sorted(str(q) for q in x._symbol.free_symbols),
             "params": sorted(q.name for q in x._params)}
        try:
            d["val"] = float(x)
        except Exception as e:  # noqa: BLE001
            d["exc"] = type(e).__name__
        return d
    if isinstance(x, (int, float)):
        return {"kind": "num", "val": float(x)}
    return {"kind": type(x).__name__}


def refl_mods(bs):
    u = np.array(bs.compute_unitary(use_symbolic=False), dtype=complex)
    return [[abs(u[i, j]) ** 2 for j in range(2)] for i in range(2)]


def observe_refl(case):
    import perceval as pcvl
    from perceval.components import BS
    out = {}

    def guarded(f):
        try:
            return f()
        except Exception as e:  # noqa: BLE001
            return {"kind": "raise", "exc": type(e).__name__}

    try:
        th, th2 = refl_theta(case), refl_theta(case, 1)
        ph = {s: refl_phase(case, s) for s in REFL_PHASES}
        ctor = {"Rx": BS.Rx, "Ry": BS.Ry, "H": BS.H}[case["conv"]]
        how = case["how"]
        p = None
        if how == "num":
            bs = ctor(theta=th, **ph)
        elif how == "fixed":
            p = pcvl.Parameter("t", th)
            bs = ctor(theta=p, **ph)
        elif how in ("free", "valued"):
            p = pcvl.P("t")
            bs = ctor(theta=p, **ph)
            if how == "valued":
                p.set_value(th)
        else:   # "expr": theta = 2*t, an Expression object (`defined` as soon as t has a value)
            p = pcvl.P("t")
            bs = ctor(theta=2 * p, **ph)
            if case["preset"]:
                p.set_value(th / 2)
        first = bs.reflectivity                       # taken BEFORE the values below are set
        out["first_kind"] = refl_describe(first)["kind"]
        steps = []
        for i, v in enumerate((th, th2)):
            if how in ("free", "valued"):
                p.set_value(v)
            elif how == "expr":
                p.set_value(v / 2)
            elif i == 1:
                break
            steps.append({"first": refl_describe(first), "now": refl_describe(bs.reflectivity), "mods": refl_mods(bs),
                          "slot": float(bs.param("theta"))})
        out["steps"] = steps
        out["t2r"] = guarded(lambda: refl_describe(BS.theta_to_r(th)))
        r = case["r"]
        out["r2t"] = guarded(lambda: refl_describe(BS.r_to_theta(r)))
        if "val" in out["r2t"]:
            b2 = ctor(theta=out["r2t"]["val"], **ph)
            out["r2t_mods"] = refl_mods(b2)
            out["r2t_back"] = float(b2.reflectivity)
            out["r2t_stored"] = float(b2.param("theta"))
        # r_to_theta of a Parameter / Expression
        P = {n: pcvl.P(n) for n in sorted(xast_vars(case["rast"]))}
        if case["rpreset"]:
            for n, v in case["renv"].items():
                P[n].set_value(v)
        e = BS.r_to_theta(build_expr(case["rast"], P, {}))
        for n, v in case["renv"].items():
            P[n].set_value(v)
        out["r2t_expr"] = refl_describe(e)
        if "val" in out["r2t_expr"]:
            b3 = ctor(theta=e, **ph)
            out["r2t_expr_mods"] = refl_mods(b3)
            back = b3.reflectivity
            out["r2t_expr_back"] = refl_describe(back)
    except Exception as e:  # noqa: BLE001
        out["err"] = type(e).__name__ + ": " + str(e)[:150]
    return out


def refl_items(case):
    """model requests of one case: [mod, mod2?, t2r per step..., t2r num, r2t num, r2t expr, back]"""
    th, th2 = refl_theta(case), refl_theta(case, 1)
    ang = lambda cs: [str(cs[0]), str(cs[1])]  # noqa: E731
    items, index = [], {}

    def add(key, it):
        index[key] = len(items)
        items.append(it)

    how = case["how"]
    for i, h in enumerate((case["h"], case["h2"])):
        add(f"mod{i}", {"f": "mod", "conv": case["conv"], "h": [h["c"], h["s"]],
                        **{s[4:]: ang(case["phases"][s]) for s in REFL_PHASES}})
    tree = {"v": "t"} if how != "expr" else {"op": "mul", "a": {"c": "2"}, "b": {"v": "t"}}
    # the object `first` taken before any value was set
    first_own = th if how in ("fixed", "valued") or (how == "expr" and case["preset"]) else None
    for i, v in enumerate((th, th2)):
        env = [["t", core.rat(v if how != "expr" else v / 2)]]
        if how == "num":
            add(f"first{i}", {"f": "t2r", "num": core.rat(th), "env": []})
        else:
            add(f"first{i}", {"f": "t2r", "e": tree, "own": None if first_own is None else core.rat(first_own), "env": env})
        own_now = v if how in ("free", "valued", "expr") else th
        if how == "num":
            add(f"now{i}", {"f": "t2r", "num": core.rat(th), "env": []})
        else:
            add(f"now{i}", {"f": "t2r", "e": tree, "own": core.rat(own_now) if own_now is not None else None, "env": env})
    add("t2r", {"f": "t2r", "num": core.rat(th), "env": []})
    add("r2t", {"f": "r2t", "num": core.rat(float(case["r"])), "env": []})
    renv = [[n, core.rat(float(v))] for n, v in case["renv"].items()]
    add("r2t_expr", {"f": "r2t", "e": xast_lean(case["rast"]), "own": None, "env": renv})
    return items, index


def refl_ask(lean, cases):
    """ask the model, supplying the math.* values it asks for until nothing is missing"""
    tables = [[] for _ in cases]
    reps = [None] * len(cases)
    todo = list(range(len(cases)))
    for _round in range(8):
        if not todo:
            break
        got = lean.ask_many([{"op": "refl", "pi": PI_RAT, "table": tables[i], "items": refl_items(cases[i])[0]}
                             for i in todo])
        nxt = []
        for i, rep in zip(todo, got):
            reps[i] = rep
            miss = rep.get("missing") or []
            if "err" not in rep and miss:
                for f, arg in miss:
                    v = fn_value(f, float(Fraction(arg)))
                    tables[i].append([f, arg, None if v is None else core.rat(v)])
                nxt.append(i)
        todo = nxt
    for i in todo:
        reps[i] = {"err": "function table did not converge"}
    return reps


def refl_cmp(fails, label, got, want, what):
    """code's description of a result (refl_describe) against the model's reply item"""
    mkind = "num" if "num" in want else "expr"
    if got.get("kind") == "raise":
        if mkind == "num" and want["num"] is None and got["exc"] == "ValueError":
            return
        fails.append(("broken", f"refl-{label}:raises", f"{what}: raises {got['exc']}, model {want}"))
        return
    if got.get("kind") != mkind:
        fails.append(("broken", f"refl-{label}:kind", f"{what}: the code returns a {got.get('kind')}, the model a {mkind}"))
        return
    mval = want["num"] if mkind == "num" else want["expr"]
    if mkind == "expr" and got["free"] != sorted(want["free"]):
        fails.append(("broken", f"refl-{label}:free-symbols", f"{what}: free symbols {got['free']}, model {want['free']}"))
    if mval is None:
        if "val" in got or got.get("exc") not in ("TypeError", "ValueError"):
            fails.append(("broken", f"refl-{label}:defined", f"{what}: {got}, model: not a real number"))
    elif "val" not in got:
        fails.append(("broken", f"refl-{label}:undefined", f"{what}: float() raises {got.get('exc')}, model {mval}"))
    elif not x_num_eq(got["val"], mval, tol=1e-9):
        fails.append(("broken", f"refl-{label}:value", f"{what}: {got['val']!r}, model {float(Fraction(mval))!r}"))


def judge_refl(case, obs, reps):
    rep = reps[0]
    if "err" in rep:
        return [("broken", "lean-driver", f"refl request rejected: {rep}")]
    if "err" in obs:
        return [("broken", "refl-raises", f"BS.{case['conv']} reflectivity helpers ({case['how']}): {obs['err']}")]
    out = rep["out"]
    _, index = refl_items(case)
    M = lambda k: out[index[k]]  # noqa: E731
    fails = []
    th = [refl_theta(case), refl_theta(case, 1)]
    what0 = f"BS.{case['conv']}(theta: {case['how']})"
    want_first = "expr" if case["how"] == "free" or (case["how"] == "expr" and not case["preset"]) else "num"
    if obs["first_kind"] != want_first:
        fails.append(("broken", "refl-first:kind", f"{what0}.reflectivity is a {obs['first_kind']}, model: {want_first}"))
    for i, st in enumerate(obs["steps"]):
        what = f"{what0} at theta = {th[i]!r}"
        tol = 1e-9 + 1e-15 * abs(th[i])
        # direct oracle on the real code: reflectivity = |U00|^2 = |U11|^2 = 1 - |U01|^2 = 1 - |U10|^2 of ITS OWN matrix
        now = st["now"]
        if "val" in now:
            m = st["mods"]
            if max(abs(now["val"] - m[0][0]), abs(now["val"] - m[1][1]), abs(1 - now["val"] - m[0][1]),
                   abs(1 - now["val"] - m[1][0])) > tol:
                fails.append(("violation", "refl-not-modulus", f"{what}: reflectivity {now['val']!r} but the numeric matrix "
                              f"has squared moduli {m}"))
        else:
            fails.append(("violation", "refl-undefined", f"{what}: reflectivity has no value ({now})"))
        # an Expression handed out earlier follows the current values
        if st["first"]["kind"] == "expr":
            exact = math.cos(th[i] / 2) ** 2
            if "val" not in st["first"] or abs(st["first"]["val"] - exact) > tol:
                fails.append(("violation", "refl-expression-not-live", f"{what}: the Expression returned by reflectivity "
                              f"before the value was set reads {st['first']}, cos(theta/2)^2 = {exact!r}"))
        # model
        mm = M(f"mod{i}")
        for a in range(2):
            for b in range(2):
                if not x_num_eq(st["mods"][a][b], mm["mod"][a][b], tol=1e-9):
                    fails.append(("broken", "refl-mods", f"{what}: |U[{a}][{b}]|^2 = {st['mods'][a][b]!r}, model "
                                  f"{mm['mod'][a][b]}"))
        if "val" in now and not x_num_eq(now["val"], mm["r"], tol=1e-9):
            fails.append(("broken", "refl-exact", f"{what}: reflectivity {now['val']!r}, exact cos^2(theta/2) = {mm['r']}"))
        refl_cmp(fails, "now", now, M(f"now{i}"), what + " (reflectivity)")
        refl_cmp(fails, "first", st["first"], M(f"first{i}"), what + " (reflectivity taken before the values were set)")
    refl_cmp(fails, "t2r", obs["t2r"], M("t2r"), f"BS.theta_to_r({th[0]!r})")
    r = case["r"]
    refl_cmp(fails, "r2t", obs["r2t"], M("r2t"), f"BS.r_to_theta({r!r})")
    if 0 <= r <= 1:
        if "val" not in obs["r2t"]:
            fails.append(("violation", "rtheta-raises", f"BS.r_to_theta({r!r}) with r in [0, 1]: {obs['r2t']}"))
        else:
            t = obs["r2t"]["val"]
            if not (-1e-12 <= t <= PI + 1e-12) or abs(obs["r2t_stored"] - t) > 1e-12:
                fails.append(("violation", "rtheta-range", f"BS.r_to_theta({r!r}) = {t!r}, stored {obs['r2t_stored']!r}: "
                              "not an angle of [0, pi] stored as it is"))
            if abs(obs["r2t_mods"][0][0] - r) > 1e-9 or abs(obs["r2t_back"] - r) > 1e-9:
                fails.append(("violation", "rtheta-not-reflectivity", f"BS.{case['conv']}(BS.r_to_theta({r!r})): |U00|^2 = "
                              f"{obs['r2t_mods'][0][0]!r}, reflectivity {obs['r2t_back']!r}"))
    elif "val" in obs["r2t"]:
        fails.append(("broken", "rtheta-outside-accepted", f"BS.r_to_theta({r!r}) = {obs['r2t']['val']!r}"))
    rv = eval_refl_rast(case)
    what = f"BS.r_to_theta({xast_text(case['rast'])}) at {case['renv']}"
    # exactly on (or within 1e-6 of) an edge of the real domain of sqrt / acos, an argument that is not a bare
    # parameter is not compared: sympy normalises the text (sqrt(0.5*a) -> 0.707106781186548*sqrt(a)) and its own
    # rounding decides on which side of 1 the argument of acos falls (BS.r_to_theta(0.5*a) at a = 2.0: TypeError)
    edge = min(abs(rv), abs(rv - 1)) < 1e-6 and "v" not in case["rast"]
    if edge:
        if obs["r2t_expr"].get("kind") != "expr":
            fails.append(("broken", "refl-r2t-expr:kind", f"{what}: {obs['r2t_expr']}"))
        return fails
    refl_cmp(fails, "r2t-expr", obs["r2t_expr"], M("r2t_expr"), what)
    if obs["r2t_expr"].get("kind") == "expr" and 0 <= rv <= 1:
        if "val" not in obs["r2t_expr"]:
            fails.append(("violation", "rtheta-expression-undefined", f"{what}: {obs['r2t_expr']}"))
        else:
            back = obs["r2t_expr_back"]
            if abs(obs["r2t_expr_mods"][0][0] - rv) > 1e-9 or "val" not in back or abs(back["val"] - rv) > 1e-9:
                fails.append(("violation", "rtheta-expression-not-reflectivity", f"BS.{case['conv']}(theta = {what}): "
                              f"|U00|^2 = {obs['r2t_expr_mods'][0][0]!r}, reflectivity {back}, r = {rv!r}"))
    return fails


def eval_refl_rast(case):
    a, env = case["rast"], case["renv"]
    if "v" in a:
        return env[a["v"]]
    x = env[a["a"]["v"]] if "v" in a["a"] else float(Fraction(a["a"]["c"]))
    y = env[a["b"]["v"]]
    return {"mul": x * y, "sub": x - y}[a["op"]]


def refl_r(rng):
    u = rng.random()
    if u < 0.2:
        return rng.choice([0.0, 1.0, 0.25, 0.5, 1 / 3, 0.75, 1, 0])
    if u < 0.4:
        cf, _ = core.rational_cs(rng)
        return float(cf * cf)
    if u < 0.85:
        return rng.uniform(0.001, 0.999)
    return rng.choice([rng.uniform(1.001, 1.5), rng.uniform(-0.5, -0.001), 2.0, -1.0])


def gen_refl_case(rng, conv=None, how=None):
    def half():
        if rng.random() < 0.12:
            c, s = rng.choice(AXIS)
        else:
            cf, sf = core.rational_cs(rng)
            c, s = str(cf), str(sf)
        return {"c": c, "s": s}

    def phase():
        if rng.random() < 0.3:
            return list(rng.choice(AXIS))
        cf, sf = core.rational_cs(rng)
        return [str(cf), str(sf)]

    form = rng.choice(sorted(REFL_RASTS))
    r = float(refl_r(rng))
    if form == "var":
        renv = {"a": r}
    elif form == "half":
        renv = {"a": 2 * r}
    elif form == "mul":
        b = rng.choice([1.0, 0.5, 2.0, rng.uniform(0.5, 1.5)])
        renv = {"a": r / b, "b": b}
    else:
        b = rng.choice([0.0, 0.25, rng.uniform(0, 1)])
        renv = {"a": r + b, "b": b}
    case = {"conv": conv or rng.choice(["Rx", "Ry", "H"]), "how": how or rng.choice(["num", "fixed", "free", "valued", "expr"]),
            "h": half(), "k": gen_k(rng), "h2": half(), "k2": gen_k(rng), "preset": rng.random() < 0.5,
            "phases": {s: phase() for s in REFL_PHASES}, "r": refl_r(rng), "rast": REFL_RASTS[form], "renv": renv,
            "rpreset": rng.random() < 0.5}
    # the argument of sqrt / acos must not sit within 1e-6 of an edge of the real domain unless it is exactly on it
    rv = eval_refl_rast(case)
    if (0 < abs(rv) < 1e-6) or (0 < abs(rv - 1) < 1e-6):
        case["renv"] = {"a": 0.5, "b": 0.25} if form in ("mul", "sub") else {"a": 0.5}
    return case


def refl_sweep_cases():
    rng = random.Random(1414)
    return [gen_refl_case(rng, conv, how) for conv in ("Rx", "Ry", "H") for how in ("num", "fixed", "free", "valued", "expr")
            for _ in range(2)]


# ------------------------------------------------------------------------------------------------
# one case end-to-end (used by replay, corpus, shrinking)
# ------------------------------------------------------------------------------------------------
def lean_reqs(stream, case, obs):
    if stream == "matrix":
        return matrix_lean_reqs(case), None
    if stream == "wrap":
        return [wrap_req(case["lo"], case["hi"], case["periodic"], case["v"])], None
    if stream == "perm":
        return [{"op": "perm", "l": case["l"]}], None
    if stream == "life":
        return [life_lean_req(case)], None
    if stream == "pbs":
        return [{"op": "pbs"}], None
    if stream == "pserr":
        return [wrap_req(0.0, PI, True, case["m"]), wrap_req(0.0, TWO_PI, True, case["phi"])], None
    if stream in ("xsess", "refl"):
        return [], None         # (asked in rounds: `xsess_ask` / `refl_ask`)
    if obs.get("degenerate") or "err" in obs:
        return [{"op": "perm", "l": [0]}], []
    return expr_lean_reqs(case, obs)


def judge(stream, case, obs, reps, index=None):
    if obs.get("stage") == "harness":
        return [("broken", "harness-observer", f"observer crashed: {obs['err']}: {obs.get('msg')}")]
    if stream == "matrix":
        return judge_matrix(case, obs, reps)
    if stream == "wrap":
        return judge_wrap(case, obs, reps)
    if stream == "perm":
        return judge_perm(case, obs, reps)
    if stream == "life":
        return judge_life(case, obs, reps)
    if stream == "xsess":
        return judge_xsess(case, obs, reps)
    if stream == "pbs":
        return judge_pbs(case, obs, reps)
    if stream == "pserr":
        return judge_pserr(case, obs, reps)
    if stream == "refl":
        return judge_refl(case, obs, reps)
    return judge_expr(case, obs, reps, index)


def run_one(chk, stream, case):
    obs = observe((stream, case))
    if stream == "xsess":
        return judge(stream, case, obs, xsess_ask(chk.lean, [case]))
    if stream == "refl":
        return judge(stream, case, obs, refl_ask(chk.lean, [case]))
    reqs, index = lean_reqs(stream, case, obs)
    reps = chk.lean.ask_many(reqs)
    return judge(stream, case, obs, reps, index)


# ------------------------------------------------------------------------------------------------
# shrinking
# ------------------------------------------------------------------------------------------------
def shrink_candidates(stream, case):
    if stream == "matrix":
        for slot in case["slots"]:
            sp_ = case["slots"][slot]
            if sp_["mode"] != "const":
                c = copy.deepcopy(case)
                c["slots"][slot]["mode"] = "const"
                yield c
            if sp_["k"] != 0:
                for k in (0, 1 if sp_["k"] > 0 else -1):
                    if k != sp_["k"]:
                        c = copy.deepcopy(case)
                        c["slots"][slot]["k"] = k
                        yield c
            if (sp_["c"], sp_["s"]) != ("1", "0"):
                c = copy.deepcopy(case)
                c["slots"][slot]["c"], c["slots"][slot]["s"] = "1", "0"
                yield c
        if case.get("deep"):
            c = copy.deepcopy(case)
            c["deep"] = False
            yield c
    elif stream == "perm":
        l = case["l"]
        if len(l) > 1 and sorted(l) == list(range(len(l))):
            yield {"l": [x for x in l if x != len(l) - 1]}
            yield {"l": [x - 1 for x in l if x != 0]}
    elif stream == "life":
        ops = case["ops"]
        for i in range(len(ops) - 1, -1, -1):
            op = ops[i]
            later = ops[i + 1:]
            if op["k"] == "new" and any(life_op_uses(o, name=op["x"]) for o in later):
                continue
            if op["k"] == "mk" and any(o.get("c") == op["c"] for o in later):
                continue
            yield {"ops": ops[:i] + ops[i + 1:]}
        for i, op in enumerate(ops):
            if op["k"] == "assign" and len(op["kv"]) > 1:
                for j in range(len(op["kv"])):
                    c = copy.deepcopy(case)
                    del c["ops"][i]["kv"][j]
                    yield c
            if op["k"] == "mk":
                for slot in list(op["args"]):
                    if "ref" in op["args"][slot]:
                        c = copy.deepcopy(case)
                        c["ops"][i]["args"][slot] = {"num": 0.25}
                        yield c
    elif stream == "xsess":
        ops = case["ops"]
        for i in range(len(ops) - 1, -1, -1):
            op = ops[i]
            later = ops[i + 1:]
            if op["k"] == "new" and any(xsess_op_uses(o, "par", op["x"]) for o in later):
                continue
            if op["k"] == "xnew" and any(xsess_op_uses(o, "obj", op["id"]) for o in later):
                continue
            if op["k"] == "mk" and (any(o.get("via") == op["c"] for o in later) or
                                     sum(1 for o in ops if o["k"] == "mk") == 1):
                continue
            c = dict(case)
            c["ops"] = ops[:i] + ops[i + 1:]
            yield c
        for i, op in enumerate(ops):
            if op["k"] == "mk":
                for slot in list(op["args"]):
                    if "num" not in op["args"][slot]:
                        c = copy.deepcopy(case)
                        lo, hi = slot_bounds(op["kind"], slot)
                        c["ops"][i]["args"][slot] = {"num": lo + 0.25 * (hi - lo)}
                        yield c
        if case["points"]:
            c = copy.deepcopy(case)
            c["points"] = c["points"][:-1]
            yield c
        if case.get("deep"):
            c = copy.deepcopy(case)
            c["deep"] = False
            yield c
    elif stream == "refl":
        for key in ("k", "k2"):
            if case[key] != 0:
                c = copy.deepcopy(case)
                c[key] = 0
                yield c
        for sl in REFL_PHASES:
            if case["phases"][sl] != ["1", "0"]:
                c = copy.deepcopy(case)
                c["phases"][sl] = ["1", "0"]
                yield c
        if case["rast"] != REFL_RASTS["var"]:
            c = copy.deepcopy(case)
            c["rast"], c["renv"] = REFL_RASTS["var"], {"a": 0.25}
            yield c
        for key in ("preset", "rpreset"):
            if case[key]:
                c = copy.deepcopy(case)
                c[key] = False
                yield c
    elif stream == "expr":
        for i in range(len(case["hist"])):
            c = copy.deepcopy(case)
            del c["hist"][i]
            yield c
        if len(case["comps"]) > 1:
            for i in range(len(case["comps"])):
                c = copy.deepcopy(case)
                del c["comps"][i]
                yield c
        for ci, cs in enumerate(case["comps"]):
            for s, ast in cs["slots"].items():
                if len(cs["slots"]) > 1 and not (cs["kind"] == "WP"):
                    c = copy.deepcopy(case)
                    del c["comps"][ci]["slots"][s]
                    yield c
                for sub in ("a", "b"):
                    if sub in ast and "c" not in ast[sub] and ("v" not in ast[sub]):
                        c = copy.deepcopy(case)
                        c["comps"][ci]["slots"][s] = ast[sub]
                        yield c


def xsess_op_uses(op, what, name):
    if what == "par":
        if op.get("x") == name or op.get("r") == name:
            return True
        if op["k"] == "xnew":
            return name in xast_vars(op["ast"])
        if op["k"] == "mk":
            return any(a.get("ref") == name for a in op["args"].values())
        return False
    if op.get("id") == name and op["k"] != "xnew":
        return True
    if op["k"] == "xnew" and op.get("compose"):
        return any(tuple(op["compose"].get(side, ())) == ("obj", name) for side in ("l", "r"))
    if op["k"] == "mk":
        return any(a.get("ex") == name for a in op["args"].values())
    return False


def life_op_uses(op, name):
    if op.get("x") == name:
        return True
    if op["k"] == "mk":
        return any(a.get("ref") == name for a in op["args"].values())
    return False


def shrink(chk, stream, case, sig, budget=40):
    cur = case
    changed = True
    while changed and budget > 0:
        changed = False
        for cand in shrink_candidates(stream, cur):
            if budget <= 0:
                break
            budget -= 1
            try:
                fs = run_one(chk, stream, cand)
            except core.LeanError:
                raise
            except Exception:  # noqa: BLE001
                continue
            if any(f[1] == sig for f in fs):
                cur = cand
                changed = True
                break
    return cur


# ------------------------------------------------------------------------------------------------
# bookkeeping
# ------------------------------------------------------------------------------------------------
def k_bucket(k):
    if k == 0:
        return "0"
    a = abs(k)
    return ("+" if k > 0 else "-") + ("1-3" if a <= 3 else "4-50" if a <= 50 else ">50")


def _sample(chk, stream, sample):
    """at most two samples per stream in the evidence (it keeps the first six)"""
    seen = chk.extra.setdefault("samples_per_stream", {})
    if seen.get(stream, 0) >= (2 if stream != "wrap" else 1):
        return None
    seen[stream] = seen.get(stream, 0) + 1
    return sample


def record_case(chk, stream, case, obs):
    if stream == "matrix":
        kind = case["kind"] + ("." + case["conv"] if case["conv"] else "")
        chk.count("component", kind)
        chk.branch(case["conv"] or case["kind"])
        ks = []
        for slot, sp_ in case["slots"].items():
            chk.count("binding_mode", sp_["mode"])
            chk.count("period_shift", k_bucket(sp_["k"]))
            chk.branch(sp_["mode"])
            ks.append(k_bucket(sp_["k"]))
            if sp_["mode"] in WRAPPING_MODES:
                chk.branch("no-wrap" if sp_["k"] == 0 else "wrap-above" if sp_["k"] > 0 else "wrap-below")
            if abs(sp_["k"]) >= 40:
                chk.branch("far-out")
        if "symvar" in obs:
            chk.branch("symbolic-free")
        if "U" in obs:
            chk.branch("U")
        if "def" in obs:
            chk.branch("definition")
        nontrivial = any(sp_["k"] != 0 for sp_ in case["slots"].values())
        chk.case(("M", kind, case.get("how"), tuple(sp_["mode"] for sp_ in case["slots"].values()), tuple(ks),
                  tuple((sp_["c"], sp_["s"]) for sp_ in case["slots"].values())), nontrivial,
                 _sample(chk, stream, {"stream": "matrix", "component": kind, "angles": {
                     s: round(angle_value(s, case["slots"][s], *slot_bounds(case["kind"], s)), 6)
                     for s in case["slots"]}}))
    elif stream == "wrap":
        chk.count("wrap_entry", case["entry"])
        chk.count("wrap_kind", case["tag"])
        chk.count("wrap_value_type", case.get("vtype", "float"))
        if case.get("vtype"):
            chk.branch("wrap-value:" + case["vtype"])
        if case["tag"] == "exact-multiple":
            chk.branch("exact-multiple")
        if "err" in obs and not case["periodic"]:
            chk.branch("nonperiodic-raise")
        if "err" in obs and (case["lo"] is None or case["hi"] is None):
            chk.branch("onesided-raise")
        lo, hi, v = case["lo"], case["hi"], case["v"]
        outside = (lo is not None and v < lo) or (hi is not None and v > hi)
        chk.case(("W", case["entry"], lo, hi, case["periodic"], v), outside,
                 _sample(chk, stream, {"stream": "wrap", "entry": case["entry"], "bounds": [lo, hi], "v": v}))
    elif stream == "perm":
        n = len(case["l"])
        chk.count("perm_size", n)
        if "err" in obs:
            chk.branch("perm-rejected")
        if "sym" in obs:
            chk.branch("sym:PERM")
        chk.case(("P", tuple(case["l"])), case["l"] != list(range(n)),
                 _sample(chk, stream, {"stream": "perm", "l": case["l"]}) if n >= 4 else None)
    elif stream == "pbs":
        chk.branch("sym:PBS")
        chk.case(("PBS",), True, None)
    elif stream == "pserr":
        chk.branch("pserr:" + case["mhow"])
        if case["m"] > PI:
            chk.branch("pserr:amplitude-wrapped")
        chk.case(("N", case["phi"], case["m"], case["mhow"]), case["m"] > 0, None)
    elif stream == "refl":
        chk.branch("refl:" + case["how"])
        chk.branch("refl:" + case["conv"])
        if case["k"] != 0 or case["k2"] != 0:
            chk.branch("refl:theta-wrapped")
        if not 0 <= case["r"] <= 1:
            chk.branch("refl:r-outside")
        rv = eval_refl_rast(case)
        if min(abs(rv), abs(rv - 1)) < 1e-6 and "v" not in case["rast"]:
            chk.count("refl_not_compared", "r_to_theta(expression) on an edge of the domain of sqrt/acos")
        else:
            chk.branch("refl:rexpr-" + ("inside" if 0 <= rv <= 1 else "notreal"))
        if obs.get("first_kind") == "expr":
            chk.branch("refl:expression-returned")
        if case["how"] == "expr" and case["preset"]:
            chk.branch("refl:expression-of-valued-parameter")
        chk.count("refl_how", case["how"])
        chk.case(("R", json.dumps(case, sort_keys=True)), case["how"] != "num" or case["k"] != 0,
                 _sample(chk, stream, {"stream": "refl", "conv": case["conv"], "how": case["how"], "r": case["r"]}))
    elif stream == "xsess":
        record_xsess(chk, case, obs)
    elif stream == "life":
        ops = case["ops"]
        chk.count("life_history_len", len(ops))
        shared_diff = life_shared_ranges(case, {o["x"] for o in ops if o["k"] == "new"})
        refs = {}
        for o in ops:
            chk.count("life_op", o["k"])
            if o["k"] == "mk":
                for slot, lo, hi, _ in LIFE_SLOTS[o["kind"]]:
                    a = life_slot_arg(o, slot)
                    if "ref" in a:
                        refs.setdefault(a["ref"], []).append((lo, hi))
        if shared_diff:
            chk.branch("life-shared-different-range")
        if any(len(v) > 1 and len(set(v)) == 1 for v in refs.values()):
            chk.branch("life-shared-same-range")
        for o, res, snp in zip(ops, obs.get("out", []), obs.get("snaps", [])):
            if isinstance(res, str):
                chk.branch("life-raises:" + res)
                chk.count("life_exception", f"{o['k']}:{res}")
            if o["k"] in ("set", "fix") and res is None:
                info = snp["params"].get(o["x"])
                if info and info[4] is not None and info[4] != o["v"]:
                    chk.branch("life-set-wrapped")
            if o["k"] == "set" and o["force"] and res is None:
                chk.branch("life-force")
            if o["k"] == "fix":
                chk.branch("life-fix")
            if o["k"] == "reset":
                chk.branch("life-reset")
            if o["k"] == "copy":
                chk.branch("life-copy")
            if o["k"] == "assign":
                chk.branch("life-assign")
                if o.get("via") == "compute":
                    chk.branch("life-compute-assign:" + ("BS-ignored" if life_kind(case, o["c"]) == "BS" else "forwarded"))
                if isinstance(res, str) and o["kv"] and o["kv"][0][0] in snp["params"]:
                    chk.branch("life-assign-partial")
            if o["k"] == "mk" and res is None:
                for slot, lo, hi, _ in LIFE_SLOTS[o["kind"]]:
                    a = life_slot_arg(o, slot)
                    i0 = ops.index(o)
                    if "ref" in a and i0 and obs["snaps"][i0 - 1]["params"].get(a["ref"], [0] * 5)[4] is not None:
                        v0 = obs["snaps"][i0 - 1]["params"][a["ref"]][4]
                        if v0 < lo or v0 > hi:
                            chk.branch("life-stale-value")
        for snp in obs.get("snaps", []):
            for cid, d in snp["comps"].items():
                if d["defined"] and any(g is None for (sl, _, _, _), g in
                                        zip(LIFE_SLOTS[life_kind(case, cid)], d["getvars"]) if sl != "max_error"):
                    chk.branch("life-getvars-default-hidden")
        chk.case(("L", json.dumps(ops, sort_keys=True)), len(ops) >= 4 and any(o["k"] == "mk" for o in ops),
                 _sample(chk, stream, {"stream": "life", "ops": [o["k"] for o in ops][:12]}))
    else:
        if obs.get("degenerate"):
            chk.count("expr", "degenerate-skipped")
            return
        depth = max(ast_depth(a) for cs in case["comps"] for a in cs["slots"].values())
        chk.count("expr_depth", depth)
        chk.count("expr_history_len", len(case["hist"]))
        for cs in case["comps"]:
            chk.count("expr_component", cs["kind"] + ("." + cs["conv"] if cs["conv"] else ""))
            for a in cs["slots"].values():
                chk.branch("expr-by-name" if "v" in a else "expr-by-expression")
        if depth >= 2:
            chk.branch("expr-nested")
        for cs in case["comps"]:
            for a in cs["slots"].values():
                for form, k in ast_operands(a):
                    if is_long(k):
                        chk.branch("long-operand:" + form)
                        if ast_depth(a) >= 2:
                            chk.branch("long-operand-nested")
                    chk.count("operand_kind", ("float" if isinstance(k, float) else "int") + (
                        ">6digits" if is_long(k) else "<=6digits"))
        if case.get("tag") == "operand-sweep":
            chk.branch("operand-sweep")
        if any(a != "ok" for a in obs.get("acc", [])):
            chk.branch("expr-rejected-set")
        if obs.get("snaps") and any(v is None for v in obs["snaps"][0]["params"].values()):
            chk.branch("expr-undefined")
        changed = len({n for n, _ in case["hist"]}) < len(case["hist"])
        if changed:
            chk.branch("expr-value-changed-again")
        chk.case(("E", json.dumps(case["comps"], sort_keys=True), len(case["hist"])),
                 depth >= 2 and len(case["hist"]) >= 2,
                 _sample(chk, stream, {"stream": "expr", "slots": [cs["slots"] for cs in case["comps"]][:2],
                                       "calls": len(case["hist"])}))


def record_xsess(chk, case, obs):
    ops = case["ops"]
    if obs.get("timeout"):
        chk.count("xsess_not_compared", "observer-timeout")
        chk.extra.setdefault("xsess_timeouts", []).append(case)
        return
    chk.count("xsess_history_len", len(ops))
    asts = {o["id"]: o["ast"] for o in ops if o["k"] == "xnew"}
    state = {}          # Expression object -> "set" | "fixed"
    holders = {}
    for i, (o, res) in enumerate(zip(ops, obs.get("out", []))):
        k = o["k"]
        chk.count("xsess_op", k)
        snp = obs["steps"][i]
        if k == "xnew":
            chk.count("xexpr_built", o["how"])
            chk.branch("xexpr-" + ("compose" if o["how"] == "compose" else o["how"]))
            for f in xast_feats(o["ast"]):
                if f.startswith("fn:") or f in ("pi", "negpow"):
                    chk.branch("xexpr-" + f)
            if o["how"] == "compose" and any(
                    tuple(o["compose"].get(sd, ())) [:1] == ("obj",) and state.get(o["compose"][sd][1]) == "set"
                    for sd in ("l", "r")):
                chk.branch("xexpr-compose-after-override")
            if xast_depth(o["ast"]) >= 3:
                chk.branch("xexpr-deep")
        elif k == "xset":
            if res is None and state.get(o["id"]) != "fixed":
                state[o["id"]] = "set"
                chk.branch("xexpr-override")
                if o.get("via"):
                    chk.branch("xexpr-override-via-assign")
                g = snp["objs"][o["id"]]
                if g[4] is not None and abs(g[4] - o["v"]) > 1e-9:
                    chk.branch("xexpr-override-wrapped")
            elif res is not None:
                chk.branch("xexpr-override-rejected")
        elif k == "xfix":
            state[o["id"]] = "fixed"
            chk.branch("xexpr-fix")
        elif k == "xreset":
            if state.get(o["id"]) == "set":
                state.pop(o["id"])
                chk.branch("xexpr-reset-restores")
        elif k == "mk" and res is None:
            label = x_label(o["kind"], o.get("conv"))
            chk.count("xsess_component", label)
            for slot, _, _ in SLOTS[o["kind"]]:
                a = xslot_ref(o, slot)
                if "ex" in a:
                    holders.setdefault(a["ex"], []).append((o["c"], slot))
                    cls = "expr-override" if state.get(a["ex"]) else "expr"
                elif "ref" in a:
                    cls = "ref"
                elif "default" in a:
                    cls = "default-sympy"
                else:
                    cls = "num"
                chk.count("xsess_slot", cls)
        # what the slots look like at this step, per component kind (the symbolic branch is evaluated at every step)
        for cid, d in snp["comps"].items():
            cop = next(x for x in ops if x["k"] == "mk" and x["c"] == cid)
            label = x_label(cop["kind"], cop.get("conv"))
            if isinstance(d.get("sym"), list):
                chk.branch("sym:" + label)
            for (slot, _, _), got in zip(SLOTS[cop["kind"]], d["reads"]):
                a = xslot_ref(cop, slot)
                if "ex" in a:
                    st_ = state.get(a["ex"])
                    cur = {n: g[4] for n, g in snp["params"].items()}
                    if st_ == "set":
                        cls = "expr-override"
                    elif st_ == "fixed":
                        cls = "expr-fixed"
                    elif any(cur.get(n) is None for n in xast_vars(asts[a["ex"]])):
                        cls = "expr-free"
                        chk.branch("xexpr-undefined")
                    else:
                        cls = "expr-valued"
                        if isinstance(got, str) and got != "err:ValueError":
                            chk.branch("xexpr-notreal")
                elif "ref" in a:
                    g = snp["params"][a["ref"]]
                    cls = "fixed" if not g[3] else ("valued" if g[4] is not None else "free")
                elif "default" in a:
                    cls = "default"
                else:
                    cls = "num"
                chk.branch(f"symslot:{cop['kind']}:{cls}")
    if any(len(v) > 1 for v in holders.values()):
        chk.branch("xexpr-shared-object")
    if any(len({c for c, _ in v}) > 1 for v in holders.values()):
        chk.branch("xexpr-shared-across-components")
    if case.get("tag"):
        chk.branch(case["tag"])
    for cid, d in obs.get("final", {}).items():
        if d.get("pts") and isinstance(d["pts"][0], list):
            chk.branch("sym-at-point")
        if isinstance(d.get("U"), list):
            chk.branch("sym-U")
    nontrivial = any(o["k"] == "xnew" for o in ops) and sum(1 for o in ops if o["k"] in ("set", "xset", "fix")) >= 2
    chk.case(("X", json.dumps(ops, sort_keys=True)), nontrivial,
             _sample(chk, "xsess", {"stream": "xsess", "expressions": [xast_text(a) for a in asts.values()][:3],
                                    "ops": [o["k"] for o in ops][:14]}))


def process(chk, pool, stream, cases, seen_sigs):
    """observe (in parallel), ask the model (batched), judge, shrink and report"""
    if not cases:
        return
    items = [(stream, c) for c in cases]
    if pool is not None and len(items) > 8:
        obs_all = pool.map(observe, items, chunksize=max(1, min(32, len(items) // 48 or 1)))
    else:
        obs_all = [observe(it) for it in items]
    reqs_all, spans, indexes = [], [], []
    for case, obs in zip(cases, obs_all):
        reqs, index = lean_reqs(stream, case, obs)
        spans.append((len(reqs_all), len(reqs_all) + len(reqs)))
        reqs_all.extend(reqs)
        indexes.append(index)
    reps_all = chk.lean.ask_many(reqs_all)
    xreps = xsess_ask(chk.lean, cases) if stream == "xsess" else refl_ask(chk.lean, cases) if stream == "refl" else None
    for ci, (case, obs, (a, b), index) in enumerate(zip(cases, obs_all, spans, indexes)):
        record_case(chk, stream, case, obs)
        fails = judge(stream, case, obs, [xreps[ci]] if xreps is not None else reps_all[a:b], index)
        for kind, sig, what in fails:
            chk.count("failures", sig)
            if sig in seen_sigs:
                continue
            seen_sigs.add(sig)
            small = shrink(chk, stream, case, sig)
            fs = [f for f in run_one(chk, stream, small) if f[1] == sig]
            if fs:
                kind, sig, what = fs[0]
            else:
                small = case
            chk.fail(kind, sig, what, {"stream": stream, "case": small})


def load_corpus():
    out = []
    for p in sorted(glob.glob(os.path.join(core.VERIF, "corpus", "C14", "*.json"))):
        d = json.load(open(p))
        out.append((d["stream"], d["case"]))
    return out


def setup(chk):
    chk.rule = ("matrix stream: (component/convention, binding mode per slot, period-shift bucket per slot, exact "
                "cos/sin per slot), non-trivial = at least one angle outside its nominal range; wrap stream: "
                "(entry point, bounds, value), non-trivial = value outside the interval; perm stream: the list, "
                "non-trivial = not the identity; expr stream: (bound expressions, history length), non-trivial = "
                "an expression of nesting >= 2 with >= 2 set_value calls; life stream: the whole history of calls, "
                "non-trivial = >= 4 operations with at least one component built; xsess stream: the whole history, "
                "non-trivial = at least one Expression object and >= 2 value-setting calls; pserr stream: (phi, "
                "max_error, how the amplitude is given), non-trivial = amplitude > 0; refl stream: the whole case "
                "(convention, how theta is given, half-angle points, shifts, phases, r, argument of r_to_theta), "
                "non-trivial = theta not a plain in-range number")
    chk.assumptions = [
        "math.cos/math.sin/cmath.exp and sympy's numeric evaluation are trusted to 1e-12 (external numerics)",
        "PS.max_error = 0 in every stream but pserr; there the random draw is external: only 'unit phase within "
        "max_error of phi' is checked, per draw",
        "xsess stream: sin/cos/exp/sqrt/acos are external (math.* values handed to the model on request); reads are "
        "compared with tolerance 1e-9*(1+|value|+S), S the absolute scale of the expression; values within 1e-6 of "
        "an edge of the real domain of sqrt/acos, ill-conditioned divisors, and inputs where sympy's automatic "
        "simplification made the expression more defined than the model (a cancelled division) are not compared; "
        "two Expression objects with the same sympy-normalised name are never put in one case (the constructor "
        "refuses them in one component); `.U` (sympy simplify) only on tame expressions and bounded to 6 s",
        "xsess stream: set_value / fix_value on an Expression OBJECT is modelled as the code does it (a constant "
        "override until reset) and compared with the model only; the direct oracle 'slot = expression at the "
        "current values' applies to objects that were not given a value",
        "matrix / expr streams: a named parameter is bound directly only to slots with the same declared range; "
        "parameters shared between slots of different ranges are covered by the life stream",
        "life stream, direct oracle on matrices: only for parameters whose periodicity was not declared by the user "
        "(created without a two-sided range, no set_periodic call): wrapping on a user-declared period is the "
        "user's statement, not the component's",
        "expression values are compared with tolerance 1e-9*(1+S), S = the expression evaluated with every "
        "operation replaced by its absolute version (bounds the float rounding error); ill-conditioned "
        "divisors (|b| < 1e-3 * S(b)) and division by zero are not compared",
        "angles up to +-1000 periods (|v| < 1.3e4): beyond ~1e6 periods the float wrap itself loses the angle",
        "refl stream: math.cos/sqrt/acos are external (values handed to the model on request); r_to_theta of an "
        "argument that is not a bare parameter is not compared within 1e-6 of r = 0 or r = 1 (sympy's normalisation "
        "of the text decides on which side of the domain edge the argument of acos falls)",
    ]
    chk.required_branches = ["Rx", "Ry", "H", "PS", "WP", "HWP", "QWP", "PR", "const", "named", "named2", "force",
                             "fixedP", "preset", "no-wrap", "wrap-above", "wrap-below", "far-out", "exact-multiple",
                             "symbolic-free", "U", "definition", "nonperiodic-raise", "onesided-raise",
                             "perm-exhaustive", "perm-random", "perm-rejected", "expr-by-name", "expr-by-expression",
                             "expr-nested", "expr-rejected-set", "expr-undefined", "expr-value-changed-again",
                             "operand-sweep", "long-operand-nested"] + [
                                 "long-operand:" + f for f in ("mul", "rmul", "add", "radd", "sub", "rsub", "div", "pow")] + [
                                 "life-shared-different-range", "life-shared-same-range", "life-set-wrapped",
                                 "life-force", "life-fix", "life-reset", "life-copy", "life-assign",
                                 "life-assign-partial", "life-stale-value", "life-getvars-default-hidden",
                                 "life-compute-assign:BS-ignored", "life-compute-assign:forwarded", "pserr:num",
                                 "pserr:param", "pserr:amplitude-wrapped"] + [
                                 "life-raises:" + e for e in ("ValueError", "RuntimeError", "TypeError",
                                                              "ZeroDivisionError", "KeyError")] + [
                                 "sym:" + x_label(k, c) for k, c in X_KINDS] + ["sym:PBS", "sym:PERM", "sym-at-point", "sym-U",
                                                                                  "sym-sweep", "xexpr-sweep"] + [
                                 f"symslot:{k}:{cl}" for k in ("BS", "PS", "WP", "HWP", "QWP", "PR")
                                 for cl in ("num", "free", "valued", "fixed", "expr-free", "expr-valued",
                                            "expr-override")] + ["symslot:BS:default"] + [
                                 "xexpr-fn:" + f for f in X_FUNS] + [
                                 "xexpr-pi", "xexpr-negpow", "xexpr-text", "xexpr-ops", "xexpr-compose", "xexpr-rtheta",
                                 "xexpr-compose-after-override", "xexpr-deep", "xexpr-override",
                                 "xexpr-override-via-assign", "xexpr-override-wrapped", "xexpr-fix",
                                 "xexpr-reset-restores", "xexpr-undefined", "xexpr-notreal", "xexpr-shared-object",
                                 "xexpr-shared-across-components"] + [
                                 "refl:" + x for x in ("num", "fixed", "free", "valued", "expr", "Rx", "Ry", "H",
                                                        "theta-wrapped", "r-outside", "rexpr-inside", "rexpr-notreal",
                                                        "expression-returned", "expression-of-valued-parameter")] + [
                                 "wrap-value:int", "wrap-value:np64"]


def run(chk: core.Check):
    setup(chk)
    rng = chk.rng
    nproc = max(2, min(chk.pick(8, 14), (os.cpu_count() or 4) - 1))
    ctx = mp.get_context("spawn")
    seen = set()
    with ctx.Pool(nproc) as pool:
        chk.lean = core.LeanDriver("C14")
        # corpus first
        for stream, case in load_corpus():
            process(chk, None, stream, [case], seen)
        # wrap: exhaustive exact multiples, then random
        process(chk, pool, "wrap", exact_multiple_cases(), seen)
        process(chk, pool, "wrap", [gen_wrap_case(rng) for _ in range(chk.pick(400, 6000))], seen)
        # perm: exhaustive <= 5 modes, random <= 12, malformed
        ex = [{"l": list(p)} for n in range(1, 6) for p in itertools.permutations(range(n))]
        chk.branch("perm-exhaustive", len(ex))
        process(chk, pool, "perm", ex, seen)
        rnd = []
        for _ in range(chk.pick(80, 2000)):
            n = rng.randint(6, 12)
            l = list(range(n))
            rng.shuffle(l)
            rnd.append({"l": l})
        chk.branch("perm-random", len(rnd))
        process(chk, pool, "perm", rnd, seen)
        process(chk, pool, "perm", [{"l": gen_bad_perm(rng)} for _ in range(chk.pick(40, 500))], seen)
        # matrices: every component/convention a fixed number of times, then random; 1 in 8 with U/definition()
        mats = []
        per_kind = chk.pick(40, 800)
        for kind, conv in KINDS:
            for i in range(per_kind):
                mats.append(gen_matrix_case(rng, kind, conv, deep=(i % 8 == 0)))
        for i in range(chk.pick(200, 4000)):
            mats.append(gen_matrix_case(rng, deep=(i % 8 == 0)))
        process(chk, pool, "matrix", mats, seen)
        # expressions: every operator form on every long numeric operand (deterministic), then random
        process(chk, pool, "expr", operand_sweep_cases(), seen)
        process(chk, pool, "expr", [gen_expr_case(rng) for _ in range(chk.pick(250, 4000))], seen)
        # parameter lifecycle and shared parameters: deterministic histories, then random ones
        process(chk, pool, "life", life_sweep_cases(), seen)
        process(chk, pool, "life", [gen_life_case(rng) for _ in range(chk.pick(300, 5000))], seen)
        # Expression objects and the symbolic branch of every leaf: deterministic sweep, then random histories
        process(chk, pool, "pbs", [{}], seen)
        process(chk, pool, "pserr", [gen_pserr_case(rng) for _ in range(chk.pick(60, 1000))], seen)
        process(chk, pool, "xsess", xsess_sweep_cases(), seen)
        process(chk, pool, "xsess", [gen_xsess_case(rng, deep=(i % 6 == 0)) for i in range(chk.pick(200, 3000))], seen)
        # reflectivity helpers (last: the draws of `rng` for the streams above are those of the earlier rounds)
        process(chk, pool, "refl", refl_sweep_cases(), seen)
        process(chk, pool, "refl", [gen_refl_case(rng) for _ in range(chk.pick(150, 2500))], seen)
    chk.exhaustive = False
    chk.extra["exhaustive_parts"] = ["every bound + k*span, |k| <= 100, of the three declared intervals",
                                     "every permutation of <= 5 modes",
                                     "every operator form (p*k, k*p, p+k, k+p, p-k, k-p, p/k) on each of the "
                                     f"{len(LONG_POOL)} listed long operands, p**x on {len(POW_POOL)} exponents",
                                     "symbolic branch: every leaf kind (BS.Rx, BS.Ry, BS.H, PS, WP, HWP, QWP, PR) x every "
                                     "kind of slot content (number, free / valued / fixed parameter, Expression free / "
                                     "valued / overridden, sympy default), all slots at once and each slot in turn; PBS"]


def replay(chk, data):
    setup(chk)
    chk.required_branches = []
    chk.rule = "replay of one stored case"
    chk.lean = core.LeanDriver("C14")
    rp = data["replay"]
    process(chk, None, rp["stream"], [rp["case"]], set())
