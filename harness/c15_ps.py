"""C15 — the text format of `PostSelect` (native `exqalibur.PostSelect`): correspondence of
`Model/C15PS.lean` (printer as found / repaired writer, parser) with the real code, and the property
itself evaluated directly on the real code.

A case is a JSON *spec*, the abstract syntax of a post-selection expression

    {"k":"cond","modes":[0,2],"c":">=","n":1} | {"k":"not","x":spec} | {"k":"nary","op":"&","args":[spec,…]}

(`None` = the empty PostSelect).  `user_texts(spec, rng)` spells it in the user syntax of the native
constructor with every negation and every group parenthesised (so the native parser has no choice), random
white space, unsorted mode lists, redundant parentheses, leading zeros.  `judge` then checks

 (a) the property, on the real code only: `y = deserialize(serialize(x))` is `== x` and has the truth table
     of `x` on `states_for(spec)`: all 243 states with 0..2 photons in 5 modes (or random ones when a mode index is
     beyond 4) plus, for every condition, states with value - 1, value, value + 1 photons in its modes (values and
     mode indices of several digits are generated: `WIDE_VALUES`, `WIDE_MODES`); the truth table of `x` is also
     compared with `eval_spec(spec)` (the Python twin of the model's `eval`), which ties the object to the spec; `x`
     is built from a text in which `& | ^ !` are spelled with the keywords `and AND or OR xor XOR NOT` at random (the
     model does not read keywords: the object is compared with the one built from the symbol spelling);
 (b) the payload written by the real serializer equals the model's text character by character (the
     writer variant — as found `! x` / repaired `(! x)` — is `fixed`; the other variant is recognised and
     counted, never reported by itself: the round trip decides), and the rebuilt object prints as the
     model's `parse` of that payload says;
 (d) the writer as written: `serialize` does not print the tree, it rewrites `str(x)` with one regular-expression
     pass (`_postselect_to_str`); `Model/C15PSW.lean` models that pass character by character (theorem: on the
     printer's text it yields the model's repaired text).  The payload is compared with the model's pass over
     `str(x)`; the private function itself is also run on the damaged texts of (c) (ASCII only) against the model
     (same output, IndexError where the model has no result) - texts the printer never produces are outside its
     domain, a difference there is only counted (`writer-model-differs-outside-domain`, 0 on the current code);
 (c) the parsers on user text and on mutated text (dropped / doubled / swapped / replaced character,
     unbalanced or removed parentheses, mixed operators, duplicate mode, huge numbers): whenever the model
     accepts, the native must accept and build the same tree (`str(native) == print false (model tree)`);
     texts the native accepts and the model rejects are only counted (`STATS["native-only"]`).

`judge` returns `None` or `(kind, signature, what)`; kind `violation` = (a) fails, `broken` = the model
and the code disagree while (a) holds (or the spec and the object built from it disagree).
"""
from __future__ import annotations

import itertools
import json
from collections import Counter

CMPS = ["==", "!=", "<", "<=", ">", ">="]
BOPS = ["&", "|", "^"]
PREFIX = ":PCVL:PostSelect:"
N_MODES = 5
BOUND = 2 ** 31

#: counters filled by `judge` (the caller may pass its own Counter as `stats=`)
STATS = Counter()
#: a few of the texts the native parser accepts and the model rejects
NATIVE_ONLY_SAMPLES: list = []


# ------------------------------------------------------------------------------------------------
# specs
# ------------------------------------------------------------------------------------------------
#: values of a condition beyond one digit: around every power of ten the writer / reader could cut at, and the largest
#: number the native accepts (`BOUND - 1`)
WIDE_VALUES = [9, 10, 11, 12, 20, 99, 100, 101, 1000, BOUND - 1]
#: mode indices beyond one digit (a state then has up to 100 modes)
WIDE_MODES = [9, 10, 11, 12, 19, 20, 21, 31, 99]


def gen_cond(rng, wide=False, n_modes=None):
    """`wide`: values and mode indices of several digits too; `n_modes`: every mode index below it (the
    expression is meant for an experiment of that size)"""
    k = rng.choice([1, 1, 1, 2, 2, 3])
    pool = list(range(N_MODES if n_modes is None else n_modes))
    if wide and n_modes is None and rng.random() < 0.35:
        pool = pool + WIDE_MODES
        k_wide = rng.randint(1, k)
        modes = set(rng.sample(WIDE_MODES, k_wide))
        while len(modes) < k:
            modes.add(rng.choice(pool))
        modes = sorted(modes)
    else:
        modes = sorted(rng.sample(pool, min(k, len(pool))))
    n = rng.choice(WIDE_VALUES) if wide and rng.random() < 0.5 else rng.randrange(4)
    return {"k": "cond", "modes": modes, "c": rng.choice(CMPS), "n": n}


def gen_expr(rng, depth, same_op=None, wide=False, n_modes=None):
    """a well-formed expression: all six comparators, the three operators, negations in every position
    (also as a non-last operand) of single conditions and of groups, groups nested in a group of the same
    operator (the native tree is not flattened), 2..4 operands, 1..3 modes; values 0..3 and modes 0..4, with
    `wide` also the values of `WIDE_VALUES` and the modes of `WIDE_MODES`"""
    r = rng.random()
    if depth <= 0 or r < 0.28:
        return gen_cond(rng, wide, n_modes)
    if r < 0.5:
        return {"k": "not", "x": gen_expr(rng, depth - 1, wide=wide, n_modes=n_modes)}
    op = same_op if (same_op is not None and rng.random() < 0.5) else rng.choice(BOPS)
    k = rng.choice([2, 2, 2, 3, 3, 4])
    return {"k": "nary", "op": op,
            "args": [gen_expr(rng, depth - 1, same_op=op, wide=wide, n_modes=n_modes) for _ in range(k)]}


def spec_size(s):
    if s is None:
        return 0
    if s["k"] == "cond":
        return 1
    if s["k"] == "not":
        return 1 + spec_size(s["x"])
    return 1 + sum(spec_size(a) for a in s["args"])


def spec_depth(s):
    if s is None or s["k"] == "cond":
        return 0
    if s["k"] == "not":
        return 1 + spec_depth(s["x"])
    return 1 + max(spec_depth(a) for a in s["args"])


def features(s, out=None, last=True, parent=None):
    """which shapes occur (for the caller's branch / histogram bookkeeping)"""
    out = set() if out is None else out
    if s is None:
        out.add("empty")
        return out
    if s["k"] == "cond":
        out.add("cmp" + s["c"])
        out.add(f"modes{len(s['modes'])}")
        if s["n"] >= 10:
            out.add("value-multidigit")
        if s["n"] == BOUND - 1:
            out.add("value-max")
        if any(m >= 10 for m in s["modes"]):
            out.add("mode-multidigit")
            if len(s["modes"]) > 1:
                out.add("modes-list-multidigit")
    elif s["k"] == "not":
        out.add("not")
        if parent is not None and not last:
            out.add("not-nonlast-operand")
        if parent is not None and last:
            out.add("not-last-operand")
        if parent is None:
            out.add("not-top-or-nested")
        if s["x"]["k"] == "not":
            out.add("not-not")
        if s["x"]["k"] == "nary":
            out.add("not-group")
            if any(c[2] >= 10 for c in cond_list(s["x"])):
                out.add("not-group-multidigit")
        if s["x"]["k"] == "cond":
            out.add("not-single")
            if s["x"]["n"] >= 10:
                out.add("not-single-multidigit")
                if parent is not None and not last:
                    out.add("not-single-multidigit-nonlast")
            if any(m >= 10 for m in s["x"]["modes"]):
                out.add("not-single-mode-multidigit")
        features(s["x"], out, True, None)
    else:
        out.add("op" + s["op"])
        out.add(f"arity{len(s['args'])}")
        if parent == s["op"]:
            out.add("same-op-nested")
        for i, a in enumerate(s["args"]):
            features(a, out, i == len(s["args"]) - 1, s["op"])
    return out


def cond_list(s, out=None):
    """(modes, comparator, value) of every condition of the expression"""
    out = [] if out is None else out
    if s is None:
        return out
    if s["k"] == "cond":
        out.append((list(s["modes"]), s["c"], s["n"]))
    elif s["k"] == "not":
        cond_list(s["x"], out)
    else:
        for a in s["args"]:
            cond_list(a, out)
    return out


def not_last_free(s):
    """the model's `Expr.NotLastFree`: no negation is a non-last operand"""
    if s is None or s["k"] == "cond":
        return True
    if s["k"] == "not":
        return not_last_free(s["x"])
    args = s["args"]
    return all(a["k"] != "not" for a in args[:-1]) and all(not_last_free(a) for a in args)


# ------------------------------------------------------------------------------------------------
# user syntax
# ------------------------------------------------------------------------------------------------
def _sp(rng):
    r = rng.random()
    if r < 0.5:
        return ""
    if r < 0.85:
        return " "
    if r < 0.95:
        return "  "
    return rng.choice(["\t", "\n", " \r", "\x0b", "\x0c"])


def _num(rng, n):
    return ("0" * rng.choice([0, 0, 0, 0, 1, 3])) + str(n)


def _tokens(spec, rng, top=False):
    if spec["k"] == "cond":
        ms = list(spec["modes"])
        if rng.random() < 0.5:
            rng.shuffle(ms)
        toks = ["["]
        for i, m in enumerate(ms):
            if i:
                toks.append(",")
            toks.append(_num(rng, m))
        toks += ["]", spec["c"], _num(rng, spec["n"])]
        if rng.random() < 0.12:
            toks = ["("] + toks + [")"]
        return toks
    if spec["k"] == "not":
        inner = _tokens(spec["x"], rng)
        if spec["x"]["k"] == "cond" and inner[0] != "(" and rng.random() < 0.5:
            pass                                  # "(![0]==1)": the operand of `!` up to the `)`
        elif inner[0] != "(" or spec["x"]["k"] == "cond":
            inner = ["("] + inner + [")"]
        return ["(", "!"] + inner + [")"]
    toks = []
    for i, a in enumerate(spec["args"]):
        if i:
            toks.append(spec["op"])
        toks += _tokens(a, rng)
    if top and rng.random() < 0.5:
        return toks                               # "a & b" without the outer parentheses
    return ["("] + toks + [")"]


#: the keyword spellings of the native parser (case matters: `And`, `not` are refused)
KEYWORDS = {"&": ["and", "AND"], "|": ["or", "OR"], "^": ["xor", "XOR"], "!": ["NOT"]}


def user_texts(spec, rng, p_keyword=0.4):
    """two unambiguous spellings of `spec` for `PostSelect(text)` with the same tokens and white space: the
    first uses the symbols `& | ^ !` only (the syntax `Model/C15PS.lean` reads), in the second each of them is
    replaced with probability `p_keyword` by one of its keyword spellings.  -> (text, keyword text, keywords used)"""
    if spec is None:
        t = " " * rng.choice([0, 0, 1, 3])
        return t, t, []
    toks = _tokens(spec, rng, top=True)
    gaps = [_sp(rng) for _ in range(len(toks) + 1)]
    used = []
    ktoks = []
    for t in toks:
        if t in KEYWORDS and rng.random() < p_keyword:
            t = rng.choice(KEYWORDS[t])
            used.append(t)
        ktoks.append(t)
    render = lambda tk: gaps[0] + "".join(t + g for t, g in zip(tk, gaps[1:]))   # noqa: E731
    return render(toks), render(ktoks), used


def user_text(spec, rng, p_keyword=0.0):
    """an unambiguous spelling of `spec` for `PostSelect(text)` (symbols only unless `p_keyword` > 0)"""
    return user_texts(spec, rng, p_keyword)[1 if p_keyword else 0]


# ------------------------------------------------------------------------------------------------
# semantics (independent of Lean)
# ------------------------------------------------------------------------------------------------
def _cmp(c, a, b):
    return {"==": a == b, "!=": a != b, "<": a < b, "<=": a <= b, ">": a > b, ">=": a >= b}[c]


def eval_spec(spec, counts):
    """`ps(state)`: a condition counts the photons in its modes; `&` all, `|` any, `^` odd number"""
    if spec is None:
        return True
    if spec["k"] == "cond":
        return _cmp(spec["c"], sum(counts[m] if m < len(counts) else 0 for m in spec["modes"]), spec["n"])
    if spec["k"] == "not":
        return not eval_spec(spec["x"], counts)
    vals = [eval_spec(a, counts) for a in spec["args"]]
    if spec["op"] == "&":
        return all(vals)
    if spec["op"] == "|":
        return any(vals)
    return sum(vals) % 2 == 1


def print_spec(spec, fixed):
    """Python twin of the model's `print` (used only for messages and the shrinker)"""
    if spec is None:
        return ""
    if spec["k"] == "cond":
        return "[%s] %s %d" % (", ".join(map(str, spec["modes"])), spec["c"], spec["n"])
    if spec["k"] == "not":
        s = "! " + print_spec(spec["x"], fixed)
        return "(" + s + ")" if fixed else s
    return "(" + (" %s " % spec["op"]).join(print_spec(a, fixed) for a in spec["args"]) + ")"


_STATES = None
#: a condition whose value is beyond this many photons gets no state at its boundary (only far below it)
MAX_PHOTONS = 1200


def all_states():
    """(counts, BasicState) for every state with 0..2 photons in each of the 5 modes"""
    global _STATES
    if _STATES is None:
        from perceval.utils import BasicState
        _STATES = [(c, BasicState(list(c))) for c in itertools.product(range(3), repeat=N_MODES)]
    return _STATES


def states_for(conds, width=N_MODES, n_random=48):
    """the states on which two post-selections are compared, chosen from their conditions `(modes, cmp, value)`:
    every state is at least `width` and at least `1 + largest mode index` wide (the native reads beyond a
    narrower state: not part of the text format, never exercised here).  Width 5: all 243 states with 0..2 photons
    per mode, otherwise `n_random` states with 0..2 photons per mode; plus, for every condition (the first 16), three
    states whose photon number in the modes of the condition is value - 1, value, value + 1 (the other modes random)
    - so a condition on a count of several digits is decided on both sides of its threshold.  Deterministic in
    `conds`."""
    import random
    import zlib
    from perceval.utils import BasicState
    conds = [(list(m), c, n) for m, c, n in conds]
    width = max([width] + [max(m) + 1 for m, _, _ in conds if m])
    rng = random.Random(zlib.crc32(json.dumps([width, conds]).encode()))
    out = list(all_states()) if width == N_MODES else []
    extra = []
    if width != N_MODES:
        extra.append([0] * width)
        for _ in range(n_random):
            extra.append([rng.choice([0, 0, 1, 1, 2]) for _ in range(width)])
    for modes, _, n in conds[:16]:
        for target in (n - 1, n, n + 1):
            if target < 0 or target > MAX_PHOTONS:
                continue
            st = [rng.choice([0, 0, 1, 2]) for _ in range(width)]
            rest = target
            order = list(modes)
            rng.shuffle(order)
            for i, m in enumerate(order):
                st[m] = rest if i == len(order) - 1 else rng.randint(0, rest)
                rest -= st[m]
            extra.append(st)
    out += [(tuple(c), BasicState(c)) for c in extra]
    return out


_COND_RE = None


def conds_of_text(text):
    """the conditions `(modes, cmp, value)` of a printed PostSelect (`str(ps)`), for `states_for`"""
    global _COND_RE
    import re
    if _COND_RE is None:
        _COND_RE = re.compile(r"\[([0-9, ]*)\] (==|!=|<=|>=|<|>) ([0-9]+)")
    out = []
    for ms, c, n in _COND_RE.findall(text):
        modes = [int(v) for v in ms.replace(" ", "").split(",") if v]
        if modes and all(m < 4096 for m in modes):
            out.append((modes, c, int(n)))
    return out


def truth_table(ps, states=None):
    return [bool(ps(bs)) for _, bs in (all_states() if states is None else states)]


def spec_table(spec, states=None):
    return [eval_spec(spec, c) for c, _ in (all_states() if states is None else states)]


def first_diff(t1, t2, states=None):
    for (c, _), a, b in zip(all_states() if states is None else states, t1, t2):
        if a != b:
            return list(c), a, b
    return None


def same_postselect(x, y, width=N_MODES):
    """the direct oracle for two PostSelect objects without a spec (inside an experiment, a container, a file):
    `None` when `y == x`, prints like `x` and decides like `x` on `states_for(conditions of x)`, otherwise a reason"""
    if not (y == x) or str(x) != str(y):
        return f"post-selection {str(x)!r} became {str(y)!r}"
    states = states_for(conds_of_text(str(x)), width)
    d = first_diff(truth_table(x, states), truth_table(y, states), states)
    if d is not None:
        return f"post-selection {str(x)!r}: on state {d[0]} the original gives {d[1]}, the copy {d[2]}"
    return None


# ------------------------------------------------------------------------------------------------
# mutated texts for the parser correspondence
# ------------------------------------------------------------------------------------------------
ALPHABET = " ()[]!&|^=<>,0123"
HUGE = ["2147483647", "2147483648", "4294967295", "4294967296", "99999999999999999999", "0000000002147483647"]


def _match_paren(t, i):
    d = 0
    for j in range(i, len(t)):
        if t[j] == "(":
            d += 1
        elif t[j] == ")":
            d -= 1
            if d == 0:
                return j
    return None


def mutate(rng, text):
    """one mutated text and the name of the mutation"""
    kinds = ["drop", "dup", "swap", "replace", "paren", "unparen", "unparen", "mixop", "dupmode", "huge",
             "space", "keyword"]
    for _ in range(8):
        kind = rng.choice(kinds)
        t = text
        if kind in ("drop", "dup", "swap", "replace", "space") and not t:
            continue
        if kind == "drop":
            i = rng.randrange(len(t))
            return t[:i] + t[i + 1:], kind
        if kind == "dup":
            i = rng.randrange(len(t))
            return t[:i] + t[i] + t[i:], kind
        if kind == "swap" and len(t) >= 2:
            i = rng.randrange(len(t) - 1)
            return t[:i] + t[i + 1] + t[i] + t[i + 2:], kind
        if kind == "replace":
            i = rng.randrange(len(t))
            return t[:i] + rng.choice(ALPHABET) + t[i + 1:], kind
        if kind == "space":
            i = rng.randrange(len(t) + 1)
            return t[:i] + rng.choice([" ", "\t", "\n", "\xa0", "\r"]) + t[i:], kind
        if kind == "paren":
            i = rng.randrange(len(t) + 1)
            return t[:i] + rng.choice("()") + t[i:], kind
        if kind == "unparen":
            opens = [i for i, ch in enumerate(t) if ch == "("]
            if opens:
                i = rng.choice(opens)
                j = _match_paren(t, i)
                if j is not None:
                    return t[:i] + t[i + 1:j] + t[j + 1:], kind
        if kind == "keyword":                      # native-only syntax: the model refuses every letter
            ops = [i for i, ch in enumerate(t) if ch in "&|^!" and t[i:i + 2] != "!="]
            if ops:
                i = rng.choice(ops)
                word = {"&": ["and", "AND"], "|": ["or", "OR"], "^": ["xor", "XOR"], "!": ["NOT", "not"]}[t[i]]
                return t[:i] + rng.choice([" %s ", "%s"]) % rng.choice(word) + t[i + 1:], kind
        if kind == "mixop":
            ops = [i for i, ch in enumerate(t) if ch in "&|^"]
            if ops:
                i = rng.choice(ops)
                return t[:i] + rng.choice([o for o in BOPS if o != t[i]]) + t[i + 1:], kind
        if kind == "dupmode":
            br = [i for i, ch in enumerate(t) if ch == "["]
            if br:
                i = rng.choice(br)
                j = i + 1
                while j < len(t) and t[j] in " 0123456789":
                    j += 1
                m = t[i + 1:j].strip()
                if m:
                    return t[:j] + "," + m + t[j:], kind
        if kind == "huge":
            digs = [i for i, ch in enumerate(t) if ch.isdigit() and (i == 0 or not t[i - 1].isdigit())]
            if digs:
                i = rng.choice(digs)
                j = i
                while j < len(t) and t[j].isdigit():
                    j += 1
                return t[:i] + rng.choice(HUGE) + t[j:], kind
    return text + ")", "paren"


# ------------------------------------------------------------------------------------------------
# the judge
# ------------------------------------------------------------------------------------------------
def native_parse(text):
    """(`str` of the object, object) or (None, None) when the native constructor raises"""
    from perceval.utils import PostSelect
    try:
        p = PostSelect(text)
    except (RuntimeError, ValueError, TypeError):
        return None, None
    return str(p), p


class _Printed:
    """an object whose `str` is a given text (what `_postselect_to_str` reads of its argument)"""

    def __init__(self, text):
        self.text = text

    def __str__(self):
        return self.text


def real_writer():
    """the private regex pass of the serializer, or None when it is not there under that name (then only the
    payloads are compared)"""
    import sys
    import perceval.serialization  # noqa: F401
    mod = sys.modules.get("perceval.serialization.serialize")
    return getattr(mod, "_postselect_to_str", None)


def writer_stream(driver, texts, st, expect=None):
    """`_postselect_to_str` on printed texts, well-formed and damaged (ASCII only: the scope of the model), against
    the model's `scan`: same text, or IndexError where the model returns none.  `expect`: text -> what the real
    serializer wrote for it (compared with the model even when the private function is not reachable)."""
    texts = [t for t in dict.fromkeys(texts) if t.isascii()]
    if not texts:
        return None
    answers = driver.ask_many([{"op": "pswrite", "text": t} for t in texts])
    fn = real_writer()
    if fn is None:
        st["writer-hook-missing"] += 1
    for t, a in zip(texts, answers):
        if "err" in a:
            return ("broken", "model-vs-code:postselect-writer", f"driver: {a['err']} on text {t!r}")
        if expect and t in expect:
            st["writer-model-payload"] += 1
            if a["text"] != expect[t]:
                return ("broken", "model-vs-code:postselect-writer",
                        f"str = {t!r}: the serializer wrote {expect[t]!r}, the model of its regex pass {a['text']!r}")
        if fn is None:
            continue
        try:
            got = fn(_Printed(t))
        except IndexError:
            got = None
        except Exception as e:                                  # noqa: BLE001
            got = f"{type(e).__name__}"
        st["writer-model-text"] += 1
        if got is None:
            st["writer-model-indexerror"] += 1
        if got != a["text"]:
            if expect and t in expect:
                return ("broken", "model-vs-code:postselect-writer",
                        f"_postselect_to_str on {t!r}: code {got!r}, model {a['text']!r}")
            # a text the native printer never produces is outside the domain of the private function: an
            # implementation may treat it differently without harm - counted, never reported
            st["writer-model-differs-outside-domain"] += 1
    return None


def _short(s, n=160):
    s = s if isinstance(s, str) else json.dumps(s, separators=(",", ":"))
    return s if len(s) <= n else s[:n] + "…"


def judge(driver, spec, rng, serialize, deserialize, fixed=True, stats=None, n_mut=8):
    """see the module docstring; `driver.ask_many` speaks to `Driver/C15PS.lean` (ops `ps`, `psparse`)"""
    st = STATS if stats is None else stats
    utext, ktext, kws = user_texts(spec, rng)
    found_txt = print_spec(spec, False)
    x_str, x = native_parse(ktext)
    st["cases"] += 1
    if x is None:
        return ("broken", "model-vs-code:postselect-build",
                f"the native constructor refuses the user text {ktext!r} of spec {_short(spec)}")
    if kws:
        # the keyword spellings are outside the model: tie them to the symbol spelling on the real code
        st["keyword-text"] += 1
        for k in kws:
            st["keyword:" + k] += 1
        s_str, s_obj = native_parse(utext)
        if s_obj is None or s_str != x_str or not (s_obj == x):
            return ("broken", "model-vs-code:postselect-keyword",
                    f"PostSelect({ktext!r}) = {x_str!r} but the same text with symbols {utext!r} gives {s_str!r}")
    states = states_for(cond_list(spec))

    # the model's view: both writers on the spec
    r_fix, r_found = driver.ask_many([{"op": "ps", "obj": spec, "fixed": True},
                                      {"op": "ps", "obj": spec, "fixed": False}])
    for r in (r_fix, r_found):
        if "err" in r:
            return ("broken", "model-vs-code:postselect", f"driver: {r['err']} on {_short(spec)}")
    if not r_fix["wf"]:
        return ("broken", "model-vs-code:postselect-build", f"generated spec is not well-formed: {_short(spec)}")
    asfound_explains = not (r_found["ok"] and r_found["dec"] == spec)
    if asfound_explains != (not not_last_free(spec)):
        # the Lean theorem `parse_print_asfound_partial` and its (unproved) converse, observed
        st["asfound-converse-mismatch"] += 1

    # ---- (a) the property on the real code -----------------------------------------------------
    tx = truth_table(x, states)
    try:
        y = deserialize(serialize(x))
        y_err = None
    except Exception as e:                                     # noqa: BLE001 (any failure is a failure)
        y, y_err = None, f"{type(e).__name__}: {e}"
    # the known defect (a negation written without parentheses) only when the writer produced the as-found text
    try:
        wrote_as_found = serialize(x, compress=False) == PREFIX + r_found["text"]
    except Exception:                                          # noqa: BLE001
        wrote_as_found = False
    sig = "postselect-negation-operand" if asfound_explains and wrote_as_found else "postselect-roundtrip"
    if y is None:
        return ("violation", sig, f"deserialize(serialize(PostSelect({x_str!r}))) raises {y_err}")
    ty = truth_table(y, states)
    d = first_diff(tx, ty, states)
    if d is not None or not (y == x):
        where = "" if d is None else f"; on state {d[0]} the original gives {d[1]}, the copy {d[2]}"
        return ("violation", sig,
                f"PostSelect {x_str!r} is written as {serialize(x, compress=False)[len(PREFIX):]!r} and read "
                f"back as {str(y)!r} (== is {y == x}{where})")
    st["roundtrip-ok"] += 1

    # the object is the spec
    d = first_diff(tx, spec_table(spec, states), states)
    if d is not None:
        return ("broken", "model-vs-code:postselect-build",
                f"PostSelect({ktext!r}) = {x_str!r} gives {d[1]} on state {d[0]}, the spec {_short(spec)} gives {d[2]}")
    if x_str != found_txt or x_str != r_found["text"]:
        return ("broken", "model-vs-code:postselect",
                f"str(PostSelect({ktext!r})) = {x_str!r}, model print(as found) = {r_found['text']!r}")

    # ---- (b) writer and reader against the model ------------------------------------------------
    full = serialize(x, compress=False)
    if not full.startswith(PREFIX):
        return ("broken", "model-vs-code:postselect", f"payload prefix: {full[:40]!r}")
    payload = full[len(PREFIX):]
    want = r_fix if fixed else r_found
    other = r_found if fixed else r_fix
    if r_fix["text"] == r_found["text"] == payload:
        st["writer-indistinct"] += 1                              # no negation: both writers agree
        model = want
    elif payload == want["text"]:
        st["writer-fixed" if fixed else "writer-as-found"] += 1
        model = want
    elif payload == other["text"]:
        st["writer-as-found" if fixed else "writer-fixed"] += 1
        st["writer-other-variant"] += 1
        model = other
    else:
        return ("broken", "model-vs-code:postselect",
                f"serializer wrote {payload!r}; model (repaired writer) {r_fix['text']!r}, "
                f"(as found) {r_found['text']!r}")
    # reader on the real payload
    texts = [payload, utext]
    names = ["payload", "user"]
    bases = [utext, payload, found_txt, r_fix["text"]]
    for _ in range(n_mut):
        t, kind = mutate(rng, rng.choice(bases))
        texts.append(t)
        names.append(kind)
    answers = driver.ask_many([{"op": "psparse", "text": t} for t in texts])
    for t, name, a in zip(texts, names, answers):
        if "err" in a:
            return ("broken", "model-vs-code:postselect", f"driver: {a['err']} on text {t!r}")
        n_str, _ = native_parse(t)
        st["parse:" + name] += 1
        if a["ok"]:
            st["parse-model-accepts"] += 1
            if n_str is None:
                return ("broken", "model-vs-code:postselect-parser",
                        f"the model reads {t!r} ({name}) as {a['print_found']!r}, the native parser refuses it")
            if n_str != a["print_found"]:
                return ("broken", "model-vs-code:postselect-parser",
                        f"text {t!r} ({name}): native {n_str!r}, model {a['print_found']!r}")
        else:
            if n_str is None:
                st["parse-both-reject"] += 1
            else:
                st["native-only"] += 1
                if len(NATIVE_ONLY_SAMPLES) < 8:
                    NATIVE_ONLY_SAMPLES.append(t)
                if name in ("payload", "user"):
                    return ("broken", "model-vs-code:postselect-parser",
                            f"the model refuses the {name} text {t!r}, the native parser reads {n_str!r}")
    # ---- (d) the writer as written (the regex pass of `_postselect_to_str`, Model/C15PSW.lean) ------------------
    bad = writer_stream(driver, [x_str, found_txt] + texts, st, expect={x_str: payload})
    if bad is not None:
        return bad
    # the object rebuilt by the real reader is the model's reading of the payload, which is the spec
    a = answers[0]
    if str(y) != a["print_found"] or a["dec"] != model["dec"]:
        return ("broken", "model-vs-code:postselect",
                f"payload {payload!r}: real reader {str(y)!r}, model reader {a['print_found']!r}")
    if a["dec"] != spec:
        return ("broken", "model-vs-code:postselect",
                f"round trip holds on the real code but the model reads {payload!r} as {_short(a['dec'])} "
                f"instead of {_short(spec)}")
    if answers[1]["dec"] != spec:
        return ("broken", "model-vs-code:postselect-parser",
                f"user text {utext!r}: model reads {_short(answers[1]['dec'])}, spec {_short(spec)}")
    return None


# ------------------------------------------------------------------------------------------------
# shrinking
# ------------------------------------------------------------------------------------------------
def _variants(s):
    """smaller specs: a child instead of the node, one operand less, simpler leaves"""
    if s is None:
        return
    if s["k"] == "cond":
        if len(s["modes"]) > 1:
            yield dict(s, modes=s["modes"][:1])
            yield dict(s, modes=s["modes"][1:])
        if s["n"] > 1:
            yield dict(s, n=1)
        if s["n"] > 10:
            yield dict(s, n=10)
        if any(m >= N_MODES for m in s["modes"]):
            yield dict(s, modes=list(range(len(s["modes"]))))
        if any(m >= 10 for m in s["modes"]) and max(s["modes"]) > 10 + len(s["modes"]):
            yield dict(s, modes=list(range(10, 10 + len(s["modes"]))))
        if s["c"] != "==":
            yield dict(s, c="==")
        return
    if s["k"] == "not":
        yield s["x"]
        for v in _variants(s["x"]):
            yield {"k": "not", "x": v}
        return
    args = s["args"]
    for a in args:
        yield a
    if len(args) > 2:
        for i in range(len(args)):
            yield dict(s, args=args[:i] + args[i + 1:])
    for i, a in enumerate(args):
        if a["k"] != "cond":
            yield dict(s, args=args[:i] + [{"k": "cond", "modes": [i % N_MODES], "c": "==", "n": 1}] + args[i + 1:])
        for v in _variants(a):
            yield dict(s, args=args[:i] + [v] + args[i + 1:])


def shrink(spec, still_fails, budget=400):
    """greedy: take the first smaller variant on which `still_fails(variant)` holds, repeat"""
    cur = spec
    while budget > 0:
        for v in _variants(cur):
            budget -= 1
            if budget <= 0:
                break
            try:
                ok = still_fails(v)
            except Exception:                                   # noqa: BLE001
                ok = False
            if ok:
                cur = v
                break
        else:
            break
    return cur
