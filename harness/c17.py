"""C17 — a remote job's status follows the server and survives transient faults.

Correspondence: histories of client actions (execute_async / status, is_complete … / cancel / rerun /
get_results) with a scripted answer of the server for every request are run

* on the REAL code: a real `RemoteJob` on a real `RPCHandler`; only the `requests` functions the
  handler module calls (`requests.get` / `requests.post`) are replaced by a scripted fake that builds
  genuine `requests.Response` objects (so `raise_for_status()`, `.json()`, the endpoint construction and
  the exception classes are the real ones), with `RemoteJob.STATUS_REFRESH_DELAY = -1` (every status
  read is due; the throttle itself is checked separately with a fake clock, `check_throttle`);
* on the Lean model (`Model/C17.lean`, `step true` = the repaired behaviour, the main model).

Compared after every step: what the call returned (status name / predicate value / new job id and
status / result token) or the exception class (+ HTTP code, + kind of RuntimeError and its stop
message), `job.id`, the status `str(job)` shows, and the ordered list of requests the handler sent
during the step (endpoint + job id).

Independent of the Lean driver, the property statement itself is evaluated on the real trace
(`Oracle`): a job object causes at most one create request; failure number n of a run of consecutive
failed status requests is raised iff n >= 5 or it is an HTTP error outside 408/409/421/423/429 (raised = as that
very exception: any other exception class on a status failure is a violation too); after a final status was
shown no status request is sent and the shown status never changes; the status shown / returned (and the is_*
predicates) after a step is the canonical meaning of the last status string successfully read (or, when nothing
was read successfully in the step and no local transition happened, the status shown before the step);
a sent job that has not shown a final status keeps following the server ("stops polling" only once final): with the
throttle transparent every status-dependent call (status()/is_*, cancel, rerun, get_results) sends a status request —
whatever non-final status, UNKNOWN included, the job shows (`stopped-polling-before-final`; in the clocked parts: a
read more than the refresh delay after the last request must reach the server, execute_sync must not sleep for ever
without asking);
results / cancel / rerun are refused and not sent when the status in force at the guard (just read, or kept
because the read was absorbed / short-circuited) forbids them; an accepted rerun yields another object with
another id; the "job failed" error of get_results carries the status message of the server answer that said
ERROR / CANCELED; no exception class outside the documented ones escapes.

The status body of the scripted server comes in three shapes (third element of an ["s", …] answer): the
default "started" body (start time, duration, progress 0.5), "q" = the body of a job still queued (no start
time, no duration, progress 0, no phase) and "z" = falsy numbers / empty phase.  The model is independent of
these fields (they are not transmitted to it beyond being ignored by the driver).

Extension (`Model/C17X.lean`, "full machine"): histories that also contain `_to_dict()`, re-creation of the job from
its dictionary (`_from_dict(_to_dict())`) or from its id (`from_id`), `job.name = …` and `execute_sync()`, with explicit
progress / creation / start / duration fields in every status answer and a scripted clock (remote_job.time,
job_status.time / sleep).  Compared per step, in addition: job name, creation_timestamp / start_timestamp / duration /
progress / running_time (public accessors of the JobStatus, obtained without a request), dictionary contents, number of
polls and sleeps of execute_sync.  Direct oracles for the new operations are in `extra_step`; the per-object oracles
above keep running on re-created jobs.  `check_sync_clock` runs execute_sync under the real throttle (delay 1 s) and
compares the ordered sequence of requests and sleeps with `syncLoopAt`.

Second extension (`Model/C17R.lean`): `check_results` = histories of the results machine (`rstep`): get_results on the
content of the server's answer (missing key, null, bad JSON, decoded values of every modelled shape, job_context /
result_mapping / mapping_delta_parameters / results_list), compared step by step and judged directly (refused while
unfinished, the server's failure message, every entry mapped exactly once with the iteration values overriding the
delta parameters, a final job's returned value never changes and costs no request).  `check_clocked_ops` = histories of
ALL operations under the shipped refresh delay with a scripted clock (`kstep`), compared step by step and judged
directly (create once, no poll after final, streak law over the requests that reached the server, an overdue
status-dependent call reaches the server).

Third extension (`Model/C17Y.lean`): `check_clocked_results` = histories of the whole object under the shipped delay with
a scripted clock (`ystep`): the base operations, get_results on the CONTENT of the answer with its two status reads at
their own times, `reopen` (= continue with `RemoteJob._from_dict(job._to_dict())`), optionally starting with
`RemoteJob.from_id` at a given time (`resumeAt`).  Compared step by step; judged directly: create once, no poll after
final, streak law (also on from_id's read), overdue call reaches the server, from_id at a real clock sends exactly one
status request, results refused when the first read reached the server and said unfinished, failure message, mapping
expectation, cached value stable, re-creation sends nothing and keeps the shown status.
"""
from __future__ import annotations

import collections
import contextlib
import glob
import itertools
import json
import multiprocessing as mp
import os
import time

from . import core

URL = "https://verif.test"
TOKEN = "verif-token"
TRANSIENT = (408, 409, 421, 423, 429)   # the property statement
MAX_ABSORBED = 4                         # "up to four consecutive transient failures are absorbed"

OK = ["ok"]
CONN = ["c"]


def S(s, body=None):
    """a successful status answer; body None = started job, "q" = still queued, "z" = falsy numeric fields"""
    return ["s", s] if body is None else ["s", s, body]


def H(c):
    return ["h", c]


# meaning of the canonical server vocabulary, for the direct oracles only (clear-cut letters)
UNFINISHED = {"waiting", "running", "suspended", "cancel_requested"}
NOT_CANCELLABLE = {"completed", "error", "canceled", "unknown", "cancel_requested"}
NOT_FAILED = {"waiting", "running", "suspended", "cancel_requested", "completed", "unknown"}
FINAL_NAMES = {"SUCCESS", "ERROR", "CANCELED"}
# the canonical server vocabulary -> the status the job must report (property: "the last status read")
MEANING = {"waiting": "WAITING", "running": "RUNNING", "completed": "SUCCESS", "error": "ERROR",
           "canceled": "CANCELED", "suspended": "SUSPENDED", "cancel_requested": "CANCEL_REQUESTED",
           "unknown": "UNKNOWN"}
UNFINISHED_NAMES = {"WAITING", "RUNNING", "SUSPENDED", "CANCEL_REQUESTED"}
NONFINAL_NAMES = UNFINISHED_NAMES | {"UNKNOWN"}     # everything but SUCCESS / ERROR / CANCELED: the job keeps polling
OP_NAME = {"p": "the status read", "c": "cancel()", "r": "rerun()", "g": "get_results()", "x": "execute_async()"}
CANCELLABLE_NAMES = {"WAITING", "RUNNING", "SUSPENDED"}
FAILED_NAMES = {"ERROR", "CANCELED"}
# is_complete, is_failed, is_success, is_waiting, is_running as functions of the reported status
# (is_running is not judged on CANCEL_REQUESTED: the code counts it as running, the property is silent)
PREDICATE = {1: lambda n: n in FINAL_NAMES, 2: lambda n: n in FAILED_NAMES, 3: lambda n: n == "SUCCESS",
             4: lambda n: n == "WAITING", 5: lambda n: n == "RUNNING"}

CANON = ["waiting", "running", "completed", "error", "canceled", "suspended", "cancel_requested", "unknown"]
ODD = ["bogus", "COMPLETED", "Success", "Running", "CANCELED", "", "cancel requested", "success", "Unknown",
       "ERROR", "done"]


class LoopRunaway(Exception):
    """the polling loop of execute_sync went on sleeping without asking the server"""


class ScriptExhausted(Exception):
    """the real code sent a request the history has no answer for"""


# ------------------------------------------------------------------------------------------------
# the real code on a scripted server
# ------------------------------------------------------------------------------------------------
class World:
    """Owns the patched `requests` entry points of perceval.runtime.rpc_handler for this process."""

    def __init__(self):
        import requests
        import perceval  # noqa: F401
        from perceval.runtime import RemoteJob
        from perceval.runtime import rpc_handler as rh
        from perceval.runtime import remote_job as rjm
        from perceval.utils.logging import get_logger, channel, level
        lg = get_logger()
        try:
            lg.set_level(level.off, channel.user)
            lg.set_level(level.off, channel.general)
        except Exception:
            pass
        self.requests = requests
        self.ConnErr = requests.exceptions.ConnectionError
        self.HTTPErr = requests.exceptions.HTTPError
        self.RemoteJob = RemoteJob
        self.rjm = rjm
        RemoteJob.STATUS_REFRESH_DELAY = -1      # throttle transparent: every status read is due
        rh.requests = self                       # rpc_handler calls requests.get / requests.post
        self.handler = rh.RPCHandler("sim:verif", URL, TOKEN)
        self.k = 0
        self.status_q = []
        self.h = None
        self.h2 = None
        self.pending_ok = False
        self.calls = []
        self.served = []
        self.events = []
        self.anomalies = []

    # -- script -----------------------------------------------------------------------------------
    def begin(self, k, status_rs, h, h2=None, pending_ok=False):
        self.k = k
        self.status_q = list(status_rs)
        self.h = h
        self.h2 = h2                    # answer to the second non-status request of the step (execute_sync)
        self.pending_ok = pending_ok    # running out of status answers is an outcome (execute_sync's loop)
        self.calls = []
        self.served = []
        self.events = []                # requests and sleeps in order (clocked execute_sync)

    def _resp(self, url, code, body: bytes):
        r = self.requests.Response()
        r.status_code = code
        r.url = url
        r.reason = "scripted"
        r._content = body
        r.encoding = "utf-8"
        return r

    def _answer(self, url, r, ok_body: bytes):
        t = r[0]
        if t == "c":
            raise self.ConnErr("scripted connection error")
        if t == "h":
            return self._resp(url, r[1], b'{"error": "scripted refusal"}')
        return self._resp(url, 200, ok_body)

    @staticmethod
    def _cid(s):
        if s.startswith("job-") and s[4:].isdigit():
            return s[4:]
        return "N" if s == "None" else "?" + s

    def _check_headers(self, headers):
        if not headers or headers.get("Authorization") != f"Bearer {TOKEN}":
            self.anomalies.append("authorization header missing")

    def _take_h(self, what):
        if self.h is None:
            raise ScriptExhausted(what)
        h, self.h, self.h2 = self.h, self.h2, None
        return h

    # -- the two functions rpc_handler.py uses ----------------------------------------------------
    def get(self, url, headers=None, timeout=None, proxies=None, **kw):
        self._check_headers(headers)
        tail = url[len(URL):] if url.startswith(URL) else "?" + url
        if tail.startswith("/api/job/status/"):
            if not self.status_q and self.pending_ok:
                raise ScriptExhausted("status")      # the polling loop would go on: not a request of the script
            self.calls.append("S" + self._cid(tail[16:]))
            self.events.append("S" + self._cid(tail[16:]))
            if not self.status_q:
                raise ScriptExhausted("status")
            r = self.status_q.pop(0)
            self.served.append(r)
            body = b""
            if r[0] == "s":
                body = json.dumps(status_body(r, self.k)).encode()
            return self._answer(url, r, body)
        if tail.startswith("/api/job/result/"):
            self.calls.append("G" + self._cid(tail[16:]))
            h = self._take_h("results")
            body = b""
            if h[0] == "ok":
                body = json.dumps({"results": json.dumps({"results": {"tok": self.k}})}).encode()
            elif h[0] == "empty":
                body = b'{"results": "{}"}'
            elif h[0] == "missing":
                # KeyError on odd positions, TypeError (json.loads(None)) on even ones
                body = b'{}' if self.k % 2 else b'{"results": null}'
            elif h[0] in ("nokey", "notstr", "badjson", "p"):
                body = results_body(h)          # the results machine (Model/C17R.lean): content of the answer
            return self._answer(url, h if h[0] in ("h", "c") else OK, body)
        self.calls.append("?GET" + tail)
        raise ScriptExhausted("unexpected GET " + tail)

    def post(self, url, headers=None, json=None, timeout=None, proxies=None, **kw):
        self._check_headers(headers)
        tail = url[len(URL):] if url.startswith(URL) else "?" + url
        if tail == "/api/job":
            self.calls.append("C")
            h = self._take_h("create")
            return self._answer(url, h, b'{"job_id": "job-%d"}' % self.k)
        if tail.startswith("/api/job/cancel/"):
            self.calls.append("X" + self._cid(tail[16:]))
            h = self._take_h("cancel")
            return self._answer(url, h, b'{}')
        if tail.startswith("/api/job/rerun/"):
            self.calls.append("R" + self._cid(tail[15:]))
            h = self._take_h("rerun")
            return self._answer(url, h, b'{"job_id": "job-%d"}' % self.k)
        self.calls.append("?POST" + tail)
        raise ScriptExhausted("unexpected POST " + tail)


def status_body(r, k):
    """what the scripted server answers to a status request (status_message = position, as in the model)"""
    shape = r[2] if len(r) > 2 else None
    if isinstance(shape, list):      # explicit body (full machine): progress in quarters, times as integers or None
        p, c, st, d = shape[:4]
        body = {"status": r[1], "progress": p / 4.0, "progress_message": "phase", "status_message": f"m{k}",
                "creation_datetime": c, "start_time": st, "duration": d}
        for key in (shape[4] if len(shape) > 4 else ()):      # part 12: an answer lacking keys
            body.pop(key, None)
        return body
    if shape == "q":      # a job that never left the queue: nothing started, nothing measured
        return {"status": r[1], "progress": 0.0, "progress_message": None, "status_message": f"m{k}",
                "creation_datetime": 1.0, "start_time": None, "duration": None}
    if shape == "z":      # falsy numbers, empty phase
        return {"status": r[1], "progress": 0, "progress_message": "", "status_message": f"m{k}",
                "creation_datetime": 0, "start_time": 0, "duration": 0}
    return {"status": r[1], "progress": 0.5, "progress_message": "phase", "status_message": f"m{k}",
            "creation_datetime": 1.0, "start_time": 2.0, "duration": 3}


def body_name(r):
    shape = r[2] if len(r) > 2 else None
    if isinstance(shape, list):
        return "body with progress/creation/start/duration = %s" % (shape,)
    return {"q": "body of a job still queued", "z": "body with zero time fields"}.get(shape, "body of a started job")


def shown(job):
    return str(job).rsplit("status:", 1)[1]


def cid(job):
    i = job.id
    if i is None:
        return "N"
    return i[4:] if isinstance(i, str) and i.startswith("job-") else "?" + str(i)


def msg_token(text):
    if text == "Cancellation requested by user":
        return "cancel"
    if text in ("scripted refusal", "scripted connection error"):
        return "create"
    if text == "None":
        return "none"
    return text


def exc_str(world, e, kind):
    if isinstance(e, world.HTTPErr):
        r = getattr(e, "response", None)
        return "exc:HTTPError:" + (str(r.status_code) if r is not None else "-")
    if isinstance(e, world.ConnErr):
        return "exc:ConnectionError"
    if isinstance(e, RuntimeError):
        if kind == "c":
            return "exc:RuntimeError:nocancel"
        if kind == "r":
            return "exc:RuntimeError:norerun"
        text = str(e)
        if "still running" in text:
            return "exc:RuntimeError:running"
        if "failed" in text:
            return "exc:RuntimeError:failed:" + msg_token(text.split(": ", 1)[1] if ": " in text else "")
        return "exc:RuntimeError:unavailable"
    return "exc:" + type(e).__name__


VIEWS = [None, "is_complete", "is_failed", "is_success", "is_waiting", "is_running"]


class Oracle:
    """The property statement evaluated on the real trace of ONE job object."""

    def __init__(self, born_sent):
        self.creates = 1 if born_sent else 0
        self.fails = 0
        self.final = None
        self.failmsg = None      # status_message of the server read that said ERROR / CANCELED
        self.prev = "WAITING" if born_sent else "not sent"   # what str(job) showed after the previous step
        self.queued_only = True        # every successful read so far had the body of a job still queued
        self.cancelled_queued = False  # a cancel was accepted while the job had never been seen started


EXTRA_KINDS = ("td", "ro", "rs", "n", "y")


def num(x):
    if x is None:
        return "N"
    x = float(x)
    return str(int(x)) if x.is_integer() else repr(x)


def ts_obs(world, job):
    """the public time / progress accessors of the job's JobStatus, read without causing a status request: with
    an enormous refresh delay the `status` property hands out the object as it is"""
    RJ = world.RemoteJob
    saved = RJ.STATUS_REFRESH_DELAY
    RJ.STATUS_REFRESH_DELAY = 10 ** 12
    try:
        js = job.status
    finally:
        RJ.STATUS_REFRESH_DELAY = saved
    try:
        rt = num(js.running_time)
    except (AssertionError, TypeError) as e:
        rt = type(e).__name__
    return f"{num(js.creation_timestamp)},{num(js.start_timestamp)},{num(js.duration)},{num(js.progress * 4)}", rt


def full_suffix(world, job):
    ts, rt = ts_obs(world, job)
    return f"|{job.name}|{ts}|{rt}"


def dict_str(d):
    i = d.get("id")
    ci = "N" if i is None else (i[4:] if isinstance(i, str) and i.startswith("job-") else "?" + str(i))
    body = d.get("body")
    return f"dict:{ci}:{d.get('status') or 'N'}:{body['job_name'] if body is not None else '-'}"


def streak_verdict(orc, r):
    """the property's verdict on one failed status answer: (n, fatal, must_raise, want)"""
    orc.fails += 1
    fatal = r[0] == "h" and r[1] not in TRANSIENT
    want = "exc:ConnectionError" if r[0] == "c" else f"exc:HTTPError:{r[1]}"
    return orc.fails, fatal, (orc.fails > MAX_ABSORBED or fatal), want


def extra_step(world, job, orc, k, op, full, hits, tags):
    """operations of the full machine: _to_dict, reopen (_from_dict(_to_dict())), from_id, name, execute_sync.
    -> (res, job, orc)"""
    kind = op[0]
    handler = world.handler
    RJ = world.RemoteJob
    if kind == "td":
        world.begin(k, [], None)
        try:
            res = dict_str(job._to_dict())
            tags.add("to-dict")
        except Exception as e:  # noqa: BLE001
            res = exc_str(world, e, kind)
            tags.add("to-dict-no-body")
        return res, job, orc
    if kind == "n":
        world.begin(k, [], None)
        try:
            job.name = op[1] if op[1] is not None else 3
            res = "ok"
            tags.add("name-empty" if op[1] == "" else "name-set")
        except TypeError:
            res = "exc:TypeError"
            tags.add("name-not-a-string")
        return res, job, orc
    if kind == "ro":
        world.begin(k, [], None)
        try:
            d = job._to_dict()
            new = RJ._from_dict(d, handler)
            res = dict_str(d)
        except Exception as e:  # noqa: BLE001
            tags.add("reopen-no-body")
            return exc_str(world, e, kind), job, orc
        # the property across the dictionary: a sent job keeps its identifier and its status
        if job.id is not None:
            tags.add("reopen-sent")
            if new.id != job.id or shown(new) != shown(job):
                hits.append(("reopen-loses-status", k,
                             f"step {k}: job {job.id} showing {shown(job)} re-created from its dictionary is job "
                             f"{new.id} showing {shown(new)}"))
            if shown(job) in FINAL_NAMES:
                tags.add("reopen-final")
        else:
            tags.add("reopen-unsent")
        norc = Oracle(new.id is not None)
        norc.prev = shown(new)
        if orc.final is not None and job.id is not None:
            norc.final = orc.final
        return res, new, norc
    if kind == "rs":
        if job.id is None:
            world.begin(k, [], None)
            return "ok", job, orc
        r = op[1]
        world.begin(k, [r], None)
        new = None
        try:
            new = RJ.from_id(job.id, handler)
            res = "st:" + shown(new)
        except Exception as e:  # noqa: BLE001
            res = exc_str(world, e, kind)
        norc = Oracle(True)
        wf = op_wf(op)
        if len(world.served) != 1:
            hits.append(("resume-no-read", k, f"step {k}: from_id sent {len(world.served)} status requests"))
        elif r[0] == "s":
            if r[1].lower() in ("error", "canceled"):
                norc.failmsg = f"m{k}"
            if wf and (new is None or (r[1] in MEANING and shown(new) != MEANING[r[1]]) or new.id != job.id):
                hits.append(("status-not-last-read", k,
                             f"step {k}: from_id({job.id}) with the server answering {r[1]!r} ({body_name(r)}) gave "
                             f"{res}"))
            tags.add("resume-read")
        else:
            n, fatal, must_raise, want = streak_verdict(norc, r)
            if must_raise and res != want:
                hits.append(("fatal-http-absorbed", k, f"step {k}: from_id: HTTP {r[1]} on the status request was not "
                                                        f"raised (result {res})"))
            elif not must_raise and res.startswith("exc:"):
                hits.append(("transient-not-absorbed", k, f"step {k}: from_id: first transient failure was not "
                                                          f"absorbed: {res[4:]}"))
            tags.add("resume-fault")
        if new is None:
            return res, job, orc
        norc.prev = shown(new)
        return res, new, norc
    # ---- execute_sync
    _, h, rs, rh, _ = op
    # the sleep the loop must make: refresh_progress_delay of THIS object (constructor argument of the first object of
    # the history; the default, 3, for every object re-created by rerun / _from_dict / from_id)
    d = full["cur_delay"]
    clock = full["clock"]
    clock.sleeps = []
    world.begin(k, rs, h, h2=rh, pending_ok=True)
    fin = None
    try:
        r = job.execute_sync()
        fin = "res:empty" if r == {} else f"res:{r['results']['tok']}"
    except ScriptExhausted:
        fin = "pending"
    except Exception as e:  # noqa: BLE001
        fin = exc_str(world, e, "g")
    calls, served = world.calls, world.served
    polls = sum(1 for c in calls if c[0] == "S")
    res = f"sync:{polls}:{len(clock.sleeps)}:{fin}"
    # -- the property on the real trace of the call
    nc = calls.count("C")
    if orc.creates + nc > 1:
        hits.append(("sent-twice", k, f"step {k}: execute_sync sent {nc} creation request(s) for a job object with "
                                      f"{orc.creates} earlier submission(s)"))
    orc.creates += nc
    if nc:
        tags.add("sync-accepted")
    elif fin == "exc:AssertionError":
        tags.add("sync-refused")
    if fin == "exc:LoopRunaway":
        last_s = next((r[1] for r in reversed(served) if r[0] == "s"), None)
        hits.append(("stopped-polling-before-final", k,
                     f"step {k}: execute_sync went on sleeping ({len(clock.sleeps)} sleeps) without asking the server "
                     f"again after {polls} status request(s), the last status read being {last_s!r}: the job stopped "
                     f"following the server before it reported a final status"))
    wf = op_wf(op)
    for i, r in enumerate(served):
        last = i == len(served) - 1
        if r[0] == "s":
            orc.fails = 0
            if r[1].lower() in ("error", "canceled"):
                orc.failmsg = f"m{k}"
            final = MEANING.get(r[1]) in FINAL_NAMES
            if final and not last and wf:
                hits.append(("polls-after-final", k, f"step {k}: execute_sync went on polling after the server "
                                                     f"answered {r[1]!r}"))
            if last and r[1] in MEANING and not final and fin != "pending" and wf:
                hits.append(("sync-returned-before-final", k,
                             f"step {k}: execute_sync ended ({fin}) although the last status read is {r[1]!r}"))
            if last and final and wf and not any(c[0] == "G" for c in calls):
                hits.append(("sync-missed-final", k, f"step {k}: the server answered {r[1]!r} but execute_sync did "
                                                     f"not return ({fin})"))
            continue
        n, fatal, must_raise, want = streak_verdict(orc, r)
        if must_raise and not (last and fin == want):
            hits.append(("fatal-http-absorbed" if fatal and n <= MAX_ABSORBED else "streak-absorbed-after-max", k,
                         f"step {k}: execute_sync: failed status request number {n} of the streak "
                         f"({'connection error' if r[0] == 'c' else 'HTTP %d' % r[1]}) was not raised as {want[4:]} "
                         f"(outcome {fin})"))
        elif not must_raise and last and fin == want:
            hits.append(("transient-not-absorbed", k, f"step {k}: execute_sync raised {want[4:]} on transient failure "
                                                      f"number {n}"))
        tags.add("sync-raised" if must_raise else "sync-absorbed")
    if clock.sleeps and any(x != d for x in clock.sleeps):
        hits.append(("sync-sleep", k, f"step {k}: execute_sync slept {clock.sleeps} with refresh_progress_delay {d}"))
    if fin == "pending":
        tags.add("sync-pending")
    elif fin.startswith("res:"):
        tags.add("sync-returned")
    elif ":failed:" in fin:
        tags.add("sync-job-failed")
        if orc.failmsg is not None and fin.rsplit(":", 1)[1] != orc.failmsg:
            hits.append(("failed-message-lost", k, f"step {k}: the job failed with status message {orc.failmsg!r} but "
                                                   f"execute_sync reports {fin.rsplit(':', 1)[1]!r}"))
    return res, job, orc


def body_wf(r):
    """a status answer whose body a consistent server can send: a duration only together with a start time"""
    if r[0] != "s" or len(r) < 3 or not isinstance(r[2], list):
        return True
    return not r[2][3] or bool(r[2][2])


def op_wf(op):
    if op[0] == "y":
        return all(body_wf(r) for r in op[2])
    if op[0] == "rs":
        return body_wf(op[1])
    return all(body_wf(r) for r in status_answers(op))


def run_history(world: World, ops, full=None):
    """-> (outs, hits, tags).  hits = [(signature, step, what)] from the direct oracles.
    full = None: the base machine (real clock, names and time fields not looked at);
    full = {"clock", "t0", "name", "delay", "times"}: the full machine (scripted clock, op k at time times[k-1])."""
    if full is None:
        job = world.RemoteJob({"payload": {}}, world.handler, "verif")
    else:
        full["clock"].now = float(full["t0"])
        full["cur_delay"] = full["delay"]
        job = world.RemoteJob({"payload": {}}, world.handler, full["name"], refresh_progress_delay=full["delay"])
    orc = Oracle(False)
    outs, hits, tags = [], [], set()
    for k, op in enumerate(ops, 1):
        kind = op[0]
        if full is not None:
            full["clock"].now = float(full["times"][k - 1])
        if kind in EXTRA_KINDS:
            old_job = job
            res, job, orc = extra_step(world, job, orc, k, op, full, hits, tags)
            if job is not old_job:
                full["cur_delay"] = 3
            sh = shown(job)
            if orc.final is not None and sh != orc.final:
                hits.append(("final-status-changed", k, f"step {k}: status shown went from {orc.final} to {sh}"))
            if sh in FINAL_NAMES:
                orc.final = sh
            orc.prev = sh
            outs.append(f"{res}|{cid(job)}|{sh}|{','.join(world.calls)}" + full_suffix(world, job))
            continue
        if kind == "x":
            world.begin(k, [], op[1])
        elif kind == "p":
            world.begin(k, [op[2]], None)
        elif kind == "c":
            world.begin(k, [op[1]], op[2])
        elif kind == "r":
            world.begin(k, [op[1], op[2]], op[3])
        else:
            world.begin(k, [op[1], op[2]], op[3])
        new_job = None
        try:
            if kind == "x":
                job.execute_async()
                res = "ok"
            elif kind == "p":
                v = op[1]
                if v == 0:
                    res = "st:" + job.status()
                else:
                    res = "flag:1" if getattr(job, VIEWS[v]) else "flag:0"
            elif kind == "c":
                job.cancel()
                res = "ok"
            elif kind == "r":
                new_job = job.rerun()
                res = f"new:{cid(new_job)}:{shown(new_job)}"
            else:
                r = job.get_results()
                if r == {}:
                    res = "res:empty"
                else:
                    res = f"res:{r['results']['tok']}"
        except Exception as e:  # noqa: BLE001 — every exception class is an observable outcome
            res = exc_str(world, e, kind)
        calls = world.calls
        served = world.served
        # ---------------- direct oracles (property statement on the real trace) ----------------
        nc = calls.count("C")
        if nc:
            if orc.creates + nc > 1:
                hits.append(("sent-twice", k,
                             f"step {k}: create_job called for a job object that was already submitted "
                             f"({orc.creates} earlier submission(s))"))
            orc.creates += nc
        sent_before = cid(job) != "N"
        prev = orc.prev
        # -- "stops polling" only once a FINAL status was reported: with the throttle transparent (refresh delay -1,
        #    every read is due) each status-dependent call on a sent job that has not shown SUCCESS / ERROR / CANCELED
        #    asks the server before it answers — whatever non-final status (UNKNOWN included) it shows
        if sent_before and orc.final is None and kind != "x":
            tags.add("poll-required-checked")
            if prev in NONFINAL_NAMES:
                tags.add("polled-from-" + prev)
                if prev == "UNKNOWN" and kind != "p":
                    tags.add("guard-after-unknown")
            if not any(c[0] == "S" for c in calls):
                hits.append(("stopped-polling-before-final", k,
                             f"step {k}: {OP_NAME[kind]} on job {job.id} showing {prev} (not final) sent no status "
                             f"request (requests: {','.join(calls) or 'none'}; result {res}): the job stopped "
                             f"following the server before it reported a final status"))
        last_is_status = bool(calls) and calls[-1][0] == "S"
        # an exception that ends the step right after a status request and is not one of the guards'
        # RuntimeErrors came out of the status read itself
        raised_in_read = last_is_status and res.startswith("exc:") and not res.startswith("exc:RuntimeError")
        first_outcome = None     # of the first status answer served: "read" / "absorbed" / "raise"
        for i, r in enumerate(served):
            if r[0] == "s":
                orc.fails = 0
                tags.add("reset")
                if r[1].lower() in ("error", "canceled"):
                    orc.failmsg = f"m{k}"
                if len(r) > 2 and (r[2] == "q" or (isinstance(r[2], list) and not r[2][2])):
                    tags.add("queued-body")
                    if orc.cancelled_queued and orc.queued_only and r[1] == "cancel_requested":
                        tags.add("cancel-requested-after-queued-cancel")
                else:
                    orc.queued_only = False
                if i == 0:
                    first_outcome = "read"
                continue
            orc.fails += 1
            n = orc.fails
            fatal = r[0] == "h" and r[1] not in TRANSIENT
            must_raise = n > MAX_ABSORBED or fatal
            if i == 0:
                first_outcome = "raise" if must_raise else "absorbed"
            is_last = i == len(served) - 1
            want = "exc:ConnectionError" if r[0] == "c" else f"exc:HTTPError:{r[1]}"
            did_raise = is_last and last_is_status and res == want
            if must_raise and not did_raise:
                if fatal and n <= MAX_ABSORBED:
                    hits.append(("fatal-http-absorbed", k,
                                 f"step {k}: HTTP {r[1]} on the status request was not raised as {want[4:]} "
                                 f"(result {res})"))
                else:
                    hits.append(("streak-absorbed-after-max", k,
                                 f"step {k}: consecutive failed status request number {n} "
                                 f"({'connection error' if r[0] == 'c' else 'HTTP %d' % r[1]}) was not raised as "
                                 f"{want[4:]} (result {res})"))
            elif not must_raise and is_last and raised_in_read:
                hits.append(("transient-not-absorbed", k,
                             f"step {k}: consecutive transient failure number {n} "
                             f"({'connection error' if r[0] == 'c' else 'HTTP %d' % r[1]}) was not absorbed: the call "
                             f"raised {res[4:]} instead of going on with the last known status"))
            if must_raise:
                tags.add("fatal" if fatal and n <= MAX_ABSORBED else
                         ("raised-at-max" if n == MAX_ABSORBED + 1 else "raised-beyond-max"))
            else:
                tags.add("absorbed")
        if ":failed:" in res and orc.failmsg is not None and res.rsplit(":", 1)[1] != orc.failmsg:
            hits.append(("failed-message-lost", k,
                         f"step {k}: the job failed on the server with status message {orc.failmsg!r} but get_results "
                         f"reports {res.rsplit(':', 1)[1]!r}"))
        if orc.final is not None:
            if any(c[0] == "S" for c in calls):
                hits.append(("polls-after-final", k, f"step {k}: status request sent after the job showed {orc.final}"))
            tags.add("final-short-circuit")
        first = served[0] if served else None
        if first is not None and first[0] == "s" and first[1] in CANON:
            if first[1] in UNFINISHED and any(c[0] == "G" for c in calls):
                hits.append(("results-while-unfinished", k,
                             f"step {k}: results requested although the status just read is {first[1]}"))
            if kind == "c" and first[1] in NOT_CANCELLABLE and any(c[0] == "X" for c in calls):
                hits.append(("cancel-not-guarded", k,
                             f"step {k}: cancel request sent although the status just read is {first[1]}"))
            if kind == "r" and first[1] in NOT_FAILED and any(c[0] == "R" for c in calls):
                hits.append(("rerun-not-guarded", k,
                             f"step {k}: rerun request sent although the status just read is {first[1]}"))
        # -- the status in force when the guard of cancel / rerun / get_results is evaluated: the one just read, or
        #    the one kept because the read was absorbed, or the final one (no read).  None = not judged (never sent,
        #    non-canonical string, the read had to raise)
        eff, how = None, ""
        if sent_before and kind in ("c", "r", "g"):
            if orc.final is not None:
                eff, how = orc.final, "the job already showed the final status"
            elif first_outcome == "read":
                eff, how = MEANING.get(first[1]), "the status just read is"
            elif first_outcome == "absorbed" and prev in MEANING.values():
                eff, how = prev, "the status request failed (absorbed) and the last known status is"
                tags.add("guard-on-kept-status")
        if eff is not None and not hits:
            if kind == "g" and eff in UNFINISHED_NAMES and \
                    (res != "exc:RuntimeError:running" or any(c[0] == "G" for c in calls)):
                hits.append(("results-while-unfinished", k,
                             f"step {k}: get_results was not refused ({res}; requests {','.join(calls)}) although "
                             f"{how} {eff}"))
            if kind == "c" and eff not in CANCELLABLE_NAMES and \
                    (res != "exc:RuntimeError:nocancel" or any(c[0] == "X" for c in calls)):
                hits.append(("cancel-not-guarded", k,
                             f"step {k}: cancel was not refused ({res}; requests {','.join(calls)}) although "
                             f"{how} {eff}"))
            if kind == "r" and eff not in FAILED_NAMES and (new_job is not None or any(c[0] == "R" for c in calls)):
                hits.append(("rerun-not-guarded", k,
                             f"step {k}: rerun was not refused ({res}; requests {','.join(calls)}) although "
                             f"{how} {eff}"))
        if kind == "r" and new_job is not None and sent_before and (new_job is job or new_job.id == job.id):
            hits.append(("rerun-same-job", k, f"step {k}: rerun returned "
                         f"{'the same object' if new_job is job else 'a job with the same id ' + str(job.id)}"))
        # -- the reported status is the last status successfully read (same job object, before a rerun switch)
        sh_same = shown(job)
        last_ok = next((r for r in reversed(served) if r[0] == "s"), None)
        local = kind == "x" or (kind == "c" and res == "ok")     # transitions the client makes by itself
        if sent_before and orc.final is None and not local:
            expect = MEANING.get(last_ok[1]) if last_ok is not None else prev
            if last_ok is None:
                tags.add("status-kept-checked")
            elif expect is not None:
                tags.add("last-read-checked")
                if prev in NONFINAL_NAMES and expect != prev:
                    # the two-step shape: a non-final status was shown, the server now says something else
                    tags.add("moved-on-from-" + prev)
            if expect is not None and sh_same != expect:
                if last_ok is not None:
                    hits.append(("status-not-last-read", k,
                                 f"step {k}: the server answered {last_ok[1]!r} ({body_name(last_ok)}) "
                                 f"but the job reports {sh_same}"))
                else:
                    hits.append(("status-changed-without-read", k,
                                 f"step {k}: no status was read successfully and nothing was accepted, but the status "
                                 f"shown went from {prev} to {sh_same}"))
        if kind == "p" and sent_before and not res.startswith("exc:"):
            # what the read returned: the meaning of the answer, or the kept status (absorbed / final)
            if orc.final is not None:
                expect = orc.final
            elif first_outcome == "read":
                expect = MEANING.get(first[1])
            elif first_outcome == "absorbed":
                expect = prev
            else:
                expect = None
            if expect is not None and expect in MEANING.values():
                v = op[1]
                if v == 0 and res != "st:" + expect:
                    hits.append(("status-not-last-read", k,
                                 f"step {k}: status() returned {res[3:]} but the last status successfully read "
                                 f"is {expect}"))
                elif v > 0 and not (v == 5 and expect == "CANCEL_REQUESTED") and \
                        res != ("flag:1" if PREDICATE[v](expect) else "flag:0"):
                    hits.append(("predicate-disagrees-with-status", k,
                                 f"step {k}: {VIEWS[v]} returned {res[5:]} although the last status successfully read "
                                 f"is {expect}"))
        # -- no exception class outside the documented ones (a ScriptExhausted is the harness' own: model mismatch)
        if res.startswith("exc:") and not res.startswith(("exc:HTTPError", "exc:ConnectionError", "exc:RuntimeError",
                                                          "exc:ScriptExhausted")) \
                and not (kind == "x" and res == "exc:AssertionError") and not hits \
                and not (res == "exc:TypeError" and (not op_wf(op) or (kind == "r" and full is not None))):
            # (full machine: a TypeError is the modelled outcome of a status body with a duration but no start time,
            #  and of rerun() on a job re-created without request data; judged through the model only)
            hits.append(("unexpected-exception", k, f"step {k}: the call raised {res[4:]}"))
        # ---------------- coverage tags ----------------
        if full is not None and res == "exc:TypeError":
            tags.add("rerun-no-body" if kind == "r" and op_wf(op) else "time-type-error")
        if len(served) == 2:
            tags.add("second-read")
        if res == "exc:AssertionError":
            tags.add("execute-refused")
        elif kind == "x" and res != "ok":
            tags.add("create-failed")
        elif kind == "c":
            tags.add("cancel-accepted" if res == "ok" else ("cancel-refused" if "nocancel" in res else "cancel-error"))
            if res == "ok" and calls[-1] == "XN":
                tags.add("unsent-cancel")
            if res == "ok" and sent_before and orc.queued_only and first_outcome == "read":
                orc.cancelled_queued = True
                tags.add("cancel-while-queued")
        elif kind == "r":
            if new_job is not None:
                tags.add("rerun-switch" if op[4] else "rerun-accepted")
            elif "norerun" in res:
                tags.add("rerun-refused")
        elif kind == "g":
            if res.startswith("res:"):
                tags.add("results-fetched" if any(c[0] == "G" for c in calls) else "results-cached")
            elif res.endswith(":running"):
                tags.add("results-refused")
            elif ":failed:" in res:
                tags.add("failed-message")
        if first is not None and first[0] == "s" and first[1] not in CANON:
            tags.add("unknown-string")
        if kind == "r" and new_job is not None and op[4]:
            job = new_job
            orc = Oracle(True)
            if full is not None:
                full["cur_delay"] = 3
        sh = shown(job)
        if orc.final is not None and sh != orc.final:
            hits.append(("final-status-changed", k, f"step {k}: status shown went from {orc.final} to {sh}"))
        if sh in FINAL_NAMES:
            orc.final = sh
        orc.prev = sh
        outs.append(f"{res}|{cid(job)}|{sh}|{','.join(calls)}" + (full_suffix(world, job) if full is not None else ""))
    if world.anomalies:
        hits.append(("handler-glue", 0, world.anomalies[0]))
        world.anomalies = []
    return outs, hits, tags


def nontrivial(ops):
    """at least one failing status answer is scripted and at least one non-status request kind is used"""
    fail = any(r[0] != "s" for op in ops for r in status_answers(op))
    return fail and any(op[0] != "p" for op in ops)


def status_answers(op):
    k = op[0]
    if k == "p":
        return [op[2]]
    if k == "c":
        return [op[1]]
    if k in ("r", "g"):
        return [op[1], op[2]]
    return []


# ------------------------------------------------------------------------------------------------
# alphabets of the exhaustive part
# ------------------------------------------------------------------------------------------------
def alphabet_full():
    a = [["x", OK], ["x", H(400)], ["x", CONN]]
    for s in CANON + ["bogus"]:
        a.append(["p", 0, S(s)])
    for c in TRANSIENT:
        a.append(["p", 0, H(c)])
    a += [["p", 0, H(500)], ["p", 0, H(404)], ["p", 0, CONN]]
    a += [["p", 1, S("completed")], ["p", 2, S("canceled")], ["p", 3, CONN], ["p", 4, H(429)],
          ["p", 5, S("cancel_requested")]]
    # the job that never leaves the queue (body without start time) and is cancelled there
    a += [["p", 0, S("waiting", "q")], ["p", 0, S("cancel_requested", "q")], ["p", 4, S("suspended", "z")]]
    a += [["c", S("running"), OK], ["c", S("running"), H(500)], ["c", S("completed"), OK], ["c", H(429), OK],
          ["c", H(500), OK], ["c", CONN, CONN], ["c", S("suspended"), OK], ["c", S("waiting", "q"), OK]]
    a += [["r", S("error"), CONN, OK, True], ["r", S("error"), CONN, OK, False],
          ["r", S("canceled"), CONN, H(500), True], ["r", S("running"), S("completed"), OK, True],
          ["r", CONN, CONN, OK, True], ["r", H(429), S("error"), OK, False], ["r", CONN, H(500), OK, True]]
    a += [["g", S("completed"), CONN, OK], ["g", S("completed"), CONN, ["empty"]],
          ["g", S("error"), CONN, ["missing"]], ["g", S("running"), CONN, OK],
          ["g", S("unknown"), S("running"), OK], ["g", S("unknown"), S("completed"), ["missing"]],
          ["g", CONN, CONN, OK], ["g", CONN, CONN, ["missing"]], ["g", H(429), CONN, H(500)],
          ["g", S("completed"), CONN, CONN]]
    return a


def alphabet_reduced():
    return [["x", OK], ["x", H(400)],
            ["p", 0, S("running", "q")], ["p", 0, S("completed")], ["p", 0, S("error", "z")], ["p", 0, S("unknown")],
            ["p", 0, H(429)], ["p", 0, H(500)], ["p", 0, CONN], ["p", 2, S("canceled")], ["p", 1, CONN],
            ["c", S("running"), OK], ["c", CONN, OK], ["c", CONN, H(500)],
            ["r", CONN, CONN, OK, True], ["r", S("error"), CONN, OK, True], ["r", CONN, CONN, OK, False],
            ["g", CONN, CONN, OK], ["g", CONN, CONN, ["missing"]], ["g", S("completed"), CONN, OK],
            ["g", S("unknown"), CONN, OK]]


def alphabet_deep(thorough):
    a = [["x", OK], ["p", 0, CONN], ["p", 0, S("running")], ["c", H(429), OK]]
    if thorough:
        a.append(["r", CONN, H(408), OK, True])
    return a


# ------------------------------------------------------------------------------------------------
# exhaustive enumeration (worker processes, one Lean driver each)
# ------------------------------------------------------------------------------------------------
_W = None


def _winit():
    global _W
    _W = (World(), core.LeanDriver("C17"))


def _subtree_size(a, d):
    return sum(a ** i for i in range(1, d + 1))


def _wchunk(args):
    alpha, prefix, depth = args
    world, lean = _W
    a = len(alpha)
    rep = lean.ask({"fixed": True, "alphabet": alpha, "prefix": prefix, "depth": depth})
    res = {"leaves": 0, "nodes": 0, "nontrivial": 0, "tags": collections.Counter(), "fails": [],
           "nfail": collections.Counter(), "steps": 0}
    if "err" in rep:
        res["fails"].append(("broken", "driver-rejects", f"Lean driver rejected the enumeration: {rep['err']}",
                             [alpha[i] for i in prefix]))
        res["nfail"]["driver-rejects"] += 1
        return res
    lean_outs = rep["outs"]
    stride = [1 + _subtree_size(a, depth - t) for t in range(1, depth + 1)]   # nodes below one child at level t
    p = len(prefix)
    pre_ops = [alpha[i] for i in prefix]
    prev = None
    for suf in itertools.product(range(a), repeat=depth):
        ops = pre_ops + [alpha[i] for i in suf]
        outs, hits, tags = run_history(world, ops)
        res["leaves"] += 1
        res["steps"] += len(ops)
        res["tags"].update(tags)
        if nontrivial(ops):
            res["nontrivial"] += 1
        first = 0
        if prev is not None:
            while suf[first] == prev[first]:
                first += 1
        prev = suf
        mismatch = None
        idx = -1
        for t in range(depth):
            idx += suf[t] * stride[t] + 1
            if t < first:
                continue
            res["nodes"] += 1
            if lean_outs[idx] != outs[p + t]:
                mismatch = (p + t, outs[p + t], lean_outs[idx])
                break
        if hits or mismatch:
            if hits:
                rec = ("violation", hits[0][0], hits[0][2], ops)
            else:
                rec = ("broken", "model-vs-code",
                       f"step {mismatch[0] + 1}: real code gives {mismatch[1]!r}, model gives {mismatch[2]!r}", ops)
            res["nfail"][rec[1]] += 1
            if sum(1 for f in res["fails"] if f[1] == rec[1]) < 2:
                res["fails"].append(rec)
    res["lean_requests"] = 1
    return res


def exhaustive(chk, pool, alpha, length, label, found):
    """all histories of length <= `length` over `alpha` (every proper prefix is a compared node)."""
    a = len(alpha)
    p = 0 if length <= 2 else (1 if length == 3 else 2)
    if a <= 6 and length >= 6:
        p = 3
    jobs = []
    if p > 0:
        jobs.append((alpha, [], p))
    for pre in itertools.product(range(a), repeat=p):
        jobs.append((alpha, list(pre), length - p))
    t0 = time.time()
    tot = collections.Counter()
    for r in pool.imap_unordered(_wchunk, jobs, chunksize=1):
        for key in ("leaves", "nodes", "nontrivial", "steps"):
            tot[key] += r[key]
        for tname, n in r["tags"].items():
            chk.branch(tname, n)
        for sig, n in r["nfail"].items():
            found["count"][sig] += n
        for rec in r["fails"]:
            if len(found["examples"][rec[1]]) < 3:
                found["examples"][rec[1]].append(rec)
        tot["lean_requests"] += r.get("lean_requests", 0)
    # the root chunk re-runs the short histories, count distinct histories once
    distinct = _subtree_size(a, length)
    chk.evaluations += tot["leaves"]
    chk.extra.setdefault("exhaustive_parts", []).append(
        {"part": label, "letters": a, "max_length": length, "histories_run": tot["leaves"],
         "distinct_histories": distinct, "compared_steps": tot["nodes"], "nontrivial_histories": tot["nontrivial"],
         "seconds": round(time.time() - t0, 1)})
    chk.count("exhaustive_histories", label, distinct)
    return distinct, tot["nontrivial"], tot["lean_requests"]


# ------------------------------------------------------------------------------------------------
# one history against the model (random part, corpus, replay, triage of exhaustive findings)
# ------------------------------------------------------------------------------------------------
def judge(chk, world, ops, lean_outs=None):
    outs, hits, tags = run_history(world, ops)
    if lean_outs is None:
        rep = chk.lean.ask({"fixed": True, "ops": ops})
        if "err" in rep:
            return ("broken", "driver-rejects", f"Lean driver rejected the history: {rep['err']}", {"ops": ops}), tags
        lean_outs = rep["outs"]
    mismatch = next((i for i, (x, y) in enumerate(zip(outs, lean_outs)) if x != y), None)
    if hits:
        sig, k, what = hits[0]
        return ("violation", sig, what, {"ops": ops, "real": outs, "model": lean_outs}), tags
    if mismatch is not None:
        cur = chk.lean.ask({"fixed": False, "ops": ops}).get("outs")
        like = " (the real code behaves exactly like the model of the UNREPAIRED code on this history)" \
            if cur == outs else ""
        return ("broken", "model-vs-code",
                f"step {mismatch + 1}: real code gives {outs[mismatch]!r}, model gives {lean_outs[mismatch]!r}{like}; "
                f"no direct oracle fails",
                {"ops": ops, "real": outs, "model": lean_outs}), tags
    return None, tags


def shrink(chk, world, ops, sig):
    cur = list(ops)
    budget = 300
    changed = True
    while changed and budget > 0:
        changed = False
        for i in range(len(cur)):
            cand = cur[:i] + cur[i + 1:]
            if not cand:
                continue
            budget -= 1
            r, _ = judge(chk, world, cand)
            if r is not None and r[1] == sig:
                cur = cand
                changed = True
                break
    return cur


def handle(chk, world, ops, source, lean_outs=None):
    r, tags = judge(chk, world, ops, lean_outs)
    for t in tags:
        chk.branch(t)
    chk.count("length", min(len(ops), 200) // 10 * 10)
    for op in ops:
        chk.count("op_kind", op[0])
    chk.count("source", source)
    chk.case(json.dumps(ops), nontrivial(ops), {"source": source, "len": len(ops), "ops": ops[:6]})
    if r is not None:
        report(chk, world, r)


def report(chk, world, r):
    kind, sig, what, rep = r
    seen = chk.extra.setdefault("_reported", set())
    if (kind, sig) in seen:
        return
    seen.add((kind, sig))
    small = shrink(chk, world, rep["ops"], sig)
    r2, _ = judge(chk, world, small)
    if r2 is not None and r2[1] == sig:
        kind, sig, what, rep = r2
    chk.fail(kind, sig, what, rep)


# ------------------------------------------------------------------------------------------------
# random long histories, biased to long failure streaks spanning cancel / rerun / get_results
# ------------------------------------------------------------------------------------------------
def rand_status_answer(rng, fail_bias):
    x = rng.random()
    if fail_bias:
        if x < 0.55:
            return H(rng.choice(TRANSIENT))
        if x < 0.9:
            return CONN
        if x < 0.95:
            return S(rng.choice(CANON))
        return H(rng.choice([400, 401, 403, 404, 500, 502, 503]))
    if x < 0.5:
        y = rng.random()
        return S(rng.choice(CANON), None if y < 0.6 else ("q" if y < 0.9 else "z"))
    if x < 0.6:
        return S(rng.choice(ODD))
    if x < 0.78:
        return H(rng.choice(TRANSIENT))
    if x < 0.88:
        return CONN
    c = rng.randint(400, 599)
    return H(c)


def rand_h(rng):
    x = rng.random()
    return OK if x < 0.8 else (H(rng.choice([400, 404, 409, 429, 500])) if x < 0.93 else CONN)


def rand_rh(rng):
    x = rng.random()
    if x < 0.5:
        return OK
    if x < 0.62:
        return ["empty"]
    if x < 0.85:
        return ["missing"]
    return H(rng.choice([404, 429, 500])) if x < 0.95 else CONN


def rand_op(rng, fail_bias):
    x = rng.random()
    a1, a2 = rand_status_answer(rng, fail_bias), rand_status_answer(rng, fail_bias)
    if x < (0.6 if fail_bias else 0.42):
        return ["p", 0 if rng.random() < 0.6 else rng.randint(1, 5), a1]
    if x < 0.72 if fail_bias else x < 0.57:
        return ["c", a1, rand_h(rng)]
    if x < 0.86 if fail_bias else x < 0.72:
        return ["r", a1, a2, rand_h(rng), rng.random() < 0.6]
    if fail_bias or x < 0.94:
        return ["g", a1, a2, rand_rh(rng)]
    return ["x", rand_h(rng)]


def gen_history(rng, max_len):
    n = rng.randint(1, max_len)
    ops = []
    if rng.random() < 0.88:
        ops.append(["x", OK if rng.random() < 0.92 else rand_h(rng)])
    while len(ops) < n:
        if rng.random() < 0.22:
            for _ in range(rng.randint(3, 9)):
                ops.append(rand_op(rng, True))
        else:
            ops.append(rand_op(rng, False))
    return ops[:max(n, 1)]


def gen_lifecycle(rng, max_len):
    """a history against a server that behaves like one: the job waits in the queue (bodies without start time),
    runs, may be suspended, ends; an accepted cancel makes it answer cancel_requested and later canceled; a rerun
    the client switches to starts over in the queue.  Faults are interleaved at a moderate rate so that guards are
    evaluated on kept statuses too."""
    ops = [["x", OK]]
    state, started = "waiting", False
    n = rng.randint(3, max(3, max_len))
    fault = rng.choice([0.0, 0.15, 0.35])
    linger = rng.choice([0.15, 0.35, 0.7])       # probability that the server moves on between two client actions

    def ans():
        y = rng.random()
        if y < fault * 0.6:
            return H(rng.choice(TRANSIENT))
        if y < fault * 0.9:
            return CONN
        if y < fault:
            return H(rng.choice([404, 500, 503]))
        return S(state) if started else S(state, "q")

    while len(ops) < n:
        if rng.random() < linger:
            if state == "waiting":
                state, started = "running", True
            elif state == "running":
                state = rng.choice(["completed", "completed", "error", "suspended"])
            elif state == "suspended":
                state = "running"
            elif state == "cancel_requested":
                state = "canceled"
        a1, a2 = ans(), ans()
        z = rng.random()
        if z < 0.5:
            ops.append(["p", 0 if rng.random() < 0.6 else rng.randint(1, 5), a1])
        elif z < 0.72:
            h = OK if rng.random() < 0.85 else rand_h(rng)
            ops.append(["c", a1, h])
            if h == OK and state in ("waiting", "running", "suspended"):
                state = "cancel_requested"
        elif z < 0.84:
            h = OK if rng.random() < 0.85 else rand_h(rng)
            switch = rng.random() < 0.7
            ops.append(["r", a1, a2, h, switch])
            if h == OK and switch and state in ("error", "canceled") and a1[0] == "s":
                state, started = "waiting", False
        else:
            ops.append(["g", a1, a2, rand_rh(rng)])
    return ops


# ------------------------------------------------------------------------------------------------
# the throttle (real clock replaced by a scripted one), model: `readStatusAt`
# ------------------------------------------------------------------------------------------------
class FakeClock:
    def __init__(self, world=None):
        self.now = 0.0
        self.sleeps = []
        self.max_sleeps = 3000
        self.world = world

    def time(self):
        return self.now

    def sleep(self, s):
        if s < 0:
            raise ValueError("sleep length must be non-negative")     # what time.sleep does
        if len(self.sleeps) >= self.max_sleeps:
            raise LoopRunaway(f"{len(self.sleeps)} sleeps in one call")  # never hang on a loop that cannot end
        self.now += s
        self.sleeps.append(s)
        if self.world is not None:
            self.world.events.append("z")


@contextlib.contextmanager
def clocked(world):
    """the real clock of remote_job.py replaced by a scripted one, the shipped delay of 1 s in force"""
    RJ = world.RemoteJob
    saved_time, saved_delay = world.rjm.time, RJ.STATUS_REFRESH_DELAY
    clock = FakeClock()
    try:
        world.rjm.time = clock
        RJ.STATUS_REFRESH_DELAY = 1          # the shipped value; times are multiples of 0.25 s (exact floats)
        yield clock
    finally:
        world.rjm.time = saved_time
        RJ.STATUS_REFRESH_DELAY = saved_delay


DELAY_Q = 4       # the shipped delay (1 s) in quarter seconds


def run_clock(world, clock, reads):
    """execute_async() at time 0, then status() at the scripted times (quarter seconds) -> outs"""
    clock.now = 0.0
    job = world.RemoteJob({"payload": {}}, world.handler, "verif")
    world.begin(1, [], OK)
    job.execute_async()
    outs = []
    for i, (q, r) in enumerate(reads):
        clock.now = q / 4.0
        world.begin(i + 2, [r], None)
        try:
            res = "st:" + job.status()
        except Exception as e:  # noqa: BLE001
            res = exc_str(world, e, "p")
        outs.append(f"{res}|{cid(job)}|{shown(job)}|{','.join(world.calls)}")
    return outs


def clock_oracles(reads, outs, tags=None):
    """the property statement on the clocked trace, independent of the Lean driver: no status request after a
    final status was shown, and the streak law over the requests that did reach the server.  (Which reads reach
    the server is the throttle: not part of the property statement, compared with the clocked model only.)"""
    hits = []
    fails, final = 0, False
    prev = "WAITING"          # run_clock starts from a job just sent
    last_req = 0              # quarter seconds: time of the last status request (the job was created at time 0)
    tags = collections.Counter() if tags is None else tags
    for k, ((q, r), o) in enumerate(zip(reads, outs), 2):
        res, _, sh, calls = o.split("|")
        sent = calls != ""
        # an unfinished job keeps following the server: a read that comes MORE than the refresh delay after the last
        # status request (or after the creation) of a job that has not shown a final status reaches the server.
        # (Reads inside the delay are the throttle's business: compared with the clocked model only.)
        if not final and q - last_req > DELAY_Q:
            tags["clock-due-read-checked"] += 1
            if prev == "UNKNOWN":
                tags["clock-due-read-after-unknown"] += 1
            if not sent:
                hits.append(("stopped-polling-before-final", k,
                             f"read {k}: status() at t={q / 4.0}s, {(q - last_req) / 4.0}s after the last status "
                             f"request (refresh delay {DELAY_Q / 4.0}s), on a job showing {prev} (not final) sent no "
                             f"status request and returned {res}"))
        if sent:
            last_req = q
        # the reported status is the last status successfully read; a read that did not reach the server
        # (throttled, final) or failed keeps it
        expect = MEANING.get(r[1]) if sent and r[0] == "s" else prev
        if expect is not None and expect in MEANING.values():
            if sh != expect or (not res.startswith("exc:") and res != "st:" + expect):
                what = f"the server answered {r[1]!r} ({body_name(r)})" if sent and r[0] == "s" else \
                    f"no status was read successfully (last known {prev})"
                hits.append(("status-not-last-read" if sent and r[0] == "s" else "status-changed-without-read", k,
                             f"read {k}: {what} but status() returned {res} and the job shows {sh}"))
        prev = sh
        if sent and final:
            hits.append(("polls-after-final", k, f"read {k}: status request sent after the job showed a final status"))
        if sent:
            if r[0] == "s":
                fails = 0
            else:
                fails += 1
                fatal = r[0] == "h" and r[1] not in TRANSIENT
                must_raise = fails > MAX_ABSORBED or fatal
                want = "exc:ConnectionError" if r[0] == "c" else f"exc:HTTPError:{r[1]}"
                if must_raise and res != want:
                    if fatal and fails <= MAX_ABSORBED:
                        hits.append(("fatal-http-absorbed", k,
                                     f"read {k}: HTTP {r[1]} on the status request was not raised"))
                    else:
                        hits.append(("streak-absorbed-after-max", k,
                                     f"read {k}: consecutive failed status request number {fails} was absorbed "
                                     f"instead of raised (result {res})"))
                elif not must_raise and res.startswith("exc:"):
                    hits.append(("transient-not-absorbed", k,
                                 f"read {k}: consecutive transient failure number {fails} was not absorbed: the call "
                                 f"raised {res[4:]} instead of returning the last known status"))
        if sh in FINAL_NAMES:
            final = True
    return hits


def judge_clock(chk, world, clock, reads, tags=None):
    outs = run_clock(world, clock, reads)
    hits = clock_oracles(reads, outs, tags)
    rep = chk.lean.ask({"fixed": True, "delay": DELAY_Q, "clock": reads})
    if hits:
        sig, k, what = hits[0]
        return ("violation", sig, what, {"clock": reads, "real": outs, "model": rep.get("outs")}), outs
    if "err" in rep:
        return ("broken", "driver-rejects", f"Lean driver rejected the clocked reads: {rep['err']}",
                {"clock": reads}), outs
    if rep["outs"] != outs:
        i = next(i for i, (x, y) in enumerate(zip(outs, rep["outs"])) if x != y)
        return ("broken", "throttle-model-vs-code",
                f"read {i + 2}: real code gives {outs[i]!r}, clocked model gives {rep['outs'][i]!r}; "
                f"no direct oracle fails",
                {"clock": reads, "real": outs, "model": rep["outs"]}), outs
    return None, outs


def shrink_clock(chk, world, clock, reads, sig):
    cur = list(reads)
    budget = 200
    changed = True
    while changed and budget > 0:
        changed = False
        for i in range(len(cur)):
            cand = cur[:i] + cur[i + 1:]
            if not cand:
                continue
            budget -= 1
            r, _ = judge_clock(chk, world, clock, cand)
            if r is not None and r[1] == sig:
                cur = cand
                changed = True
                break
    return cur


def report_clock(chk, world, clock, r):
    kind, sig, what, rep = r
    seen = chk.extra.setdefault("_reported", set())
    if (kind, sig) in seen:
        return
    seen.add((kind, sig))
    small = shrink_clock(chk, world, clock, rep["clock"], sig)
    r2, _ = judge_clock(chk, world, clock, small)
    if r2 is not None and r2[1] == sig:
        kind, sig, what, rep = r2
    chk.fail(kind, sig, what, rep)


def gen_clock_reads(rng):
    reads = []
    q = 0
    for _ in range(rng.randint(1, 14)):
        q += rng.choice([0, 1, 3, 4, 4, 5, 5, 12])
        reads.append([q, rand_status_answer(rng, rng.random() < 0.45)])
    return reads


def check_throttle(chk, world, n):
    rng = chk.rng
    corpus = load_corpus("clock")
    with clocked(world) as clock:
        for i in range(len(corpus) + n):
            reads = corpus[i] if i < len(corpus) else gen_clock_reads(rng)
            tags = collections.Counter()
            r, outs = judge_clock(chk, world, clock, reads, tags)
            for t, cnt in tags.items():
                chk.branch(t, cnt)
            chk.evaluations += 1
            chk.count("source", "throttle")
            for o in outs:
                chk.branch("throttled" if o.split("|")[3] == "" and o.split("|")[2] not in FINAL_NAMES
                           else "due-read")
            if r is not None:
                report_clock(chk, world, clock, r)


# ------------------------------------------------------------------------------------------------
# the full machine (Model/C17X.lean): time / progress fields, name, _to_dict / _from_dict / from_id, execute_sync
# ------------------------------------------------------------------------------------------------
@contextlib.contextmanager
def fullclock(world):
    """scripted clock for remote_job.py (time.time / time.sleep) and job_status.py (time / sleep); the refresh
    delay stays at -1: every status read is due"""
    from perceval.runtime import job_status as jsm
    saved = (world.rjm.time, jsm.time, jsm.sleep)
    clock = FakeClock(world)
    try:
        world.rjm.time = clock
        jsm.time = clock.time
        jsm.sleep = clock.sleep
        yield clock
    finally:
        world.rjm.time, jsm.time, jsm.sleep = saved


NAMES = ["verif", "", "a b", "unnamed", "resumed", "x"]


def rand_body(rng, started, allow_bad=False):
    p = rng.choice([0, 1, 2, 3, 4])
    c = rng.choice([None, 0, 1, 5, 40])
    st = rng.choice([2, 7, 30]) if started else rng.choice([None, None, 0])
    d = rng.choice([None, 0, 3, 9]) if started else rng.choice([None, None, 0])
    if allow_bad and rng.random() < 0.5:
        st, d = rng.choice([None, 0]), rng.choice([3, 9])       # a duration without a start time
    return [p, c, st, d]


def rand_answer_full(rng, fail_bias, started, allow_bad=False):
    r = rand_status_answer(rng, fail_bias)
    if r[0] == "s":
        return ["s", r[1], rand_body(rng, started if r[1] != "waiting" else (started and rng.random() < 0.3),
                                     allow_bad)]
    return r


def gen_sync(rng, d):
    """execute_sync against a server that lets the job wait, run and end (or not), with faults"""
    h = OK if rng.random() < 0.85 else rand_h(rng)
    rs = []
    state, started = "waiting", False
    n = rng.randint(0, 9)
    fault = rng.choice([0.0, 0.2, 0.6, 0.85])
    ends = rng.random() < 0.75
    for i in range(n):
        y = rng.random()
        if y < fault:
            z = rng.random()
            rs.append(H(rng.choice(TRANSIENT)) if z < 0.55 else (CONN if z < 0.9 else H(rng.choice([404, 500, 503]))))
            continue
        if rng.random() < 0.45:
            if state == "waiting":
                state, started = "running", True
            elif state == "running":
                state = rng.choice(["completed", "completed", "error", "canceled", "suspended", "unknown", "bogus"])
            elif state in ("suspended", "unknown", "bogus"):
                state = "running"
        if i == n - 1 and ends and state not in ("completed", "error", "canceled"):
            state, started = rng.choice(["completed", "completed", "error", "canceled"]), True
        rs.append(["s", state, rand_body(rng, started)])
    return ["y", h, rs, rand_rh(rng), d]


def gen_full(rng, max_len):
    t0 = rng.randint(1, 60)
    d0 = rng.choice([1, 2, 3, 5])
    hist = {"t0": t0, "name": rng.choice(NAMES), "delay": d0, "fops": []}
    n = rng.randint(1, max_len)
    now = t0
    cur_delay = d0
    started = False
    ops = hist["fops"]
    first = rng.random()
    if first < 0.3:
        op = gen_sync(rng, cur_delay)
        ops.append([now, op])
        now += len(op[2]) * max(d0, 3)      # at least what the loop can sleep, whichever object runs it
        started = True
    elif first < 0.9:
        ops.append([now, ["x", OK if rng.random() < 0.9 else rand_h(rng)]])
    bias = False
    streak_left = 0
    while len(ops) < n:
        now += rng.choice([0, 1, 1, 2, 7])
        if streak_left == 0 and rng.random() < 0.15:
            streak_left = rng.randint(3, 8)
        bias = streak_left > 0
        streak_left = max(0, streak_left - 1)
        if rng.random() < 0.25:
            started = True
        x = rng.random()
        a1 = rand_answer_full(rng, bias, started)
        a2 = rand_answer_full(rng, bias, started)
        if x < 0.34:
            bad = rng.random() < 0.06
            if bad:
                a1 = ["s", rng.choice(["completed", "canceled", "error", "running"]), rand_body(rng, False, True)]
            op = ["p", 0 if rng.random() < 0.6 else rng.randint(1, 5), a1]
        elif x < 0.44:
            op = ["c", a1, rand_h(rng)]
        elif x < 0.55:
            sw = rng.random() < 0.6
            op = ["r", a1, a2, rand_h(rng), sw]
            if sw:
                cur_delay, started = 3, False
        elif x < 0.65:
            op = ["g", a1, a2, rand_rh(rng)]
        elif x < 0.70:
            op = ["x", rand_h(rng)]
        elif x < 0.76:
            op = ["td"]
        elif x < 0.86:
            op = ["ro"]
            cur_delay = 3
        elif x < 0.93:
            bad = rng.random() < 0.08
            r = rand_answer_full(rng, rng.random() < 0.3, started)
            if bad:
                r = ["s", rng.choice(["completed", "canceled"]), rand_body(rng, False, True)]
            op = ["rs", r]
            cur_delay = 3
        elif x < 0.96:
            op = ["n", rng.choice(NAMES + [None])]
        else:
            op = gen_sync(rng, cur_delay)
        ops.append([now, op])
        if op[0] == "y":
            now += len(op[2]) * max(d0, 3)
    return hist


def full_request(hist):
    return {"fixed": True, "t0": hist["t0"], "name": hist["name"], "fops": hist["fops"]}


def judge_full(chk, world, clock, hist, lean_outs=None):
    ops = [o for _, o in hist["fops"]]
    full = {"clock": clock, "t0": hist["t0"], "name": hist["name"], "delay": hist["delay"],
            "times": [t for t, _ in hist["fops"]]}
    outs, hits, tags = run_history(world, ops, full)
    if lean_outs is None:
        rep = chk.lean.ask(full_request(hist))
        if "err" in rep:
            return ("broken", "driver-rejects", f"Lean driver rejected the full history: {rep['err']}",
                    {"full": hist}), tags
        lean_outs = rep["outs"]
    if hits:
        sig, k, what = hits[0]
        return ("violation", sig, what, {"full": hist, "real": outs, "model": lean_outs}), tags
    mismatch = next((i for i, (x, y) in enumerate(zip(outs, lean_outs)) if x != y), None)
    if mismatch is not None:
        return ("broken", "full-model-vs-code",
                f"step {mismatch + 1} ({hist['fops'][mismatch][1][0]}): real code gives {outs[mismatch]!r}, full model "
                f"gives {lean_outs[mismatch]!r}; no direct oracle fails",
                {"full": hist, "real": outs, "model": lean_outs}), tags
    return None, tags


def shrink_full(chk, world, clock, hist, sig):
    cur = dict(hist)
    budget = 250
    changed = True
    while changed and budget > 0:
        changed = False
        for i in range(len(cur["fops"])):
            cand = dict(cur, fops=cur["fops"][:i] + cur["fops"][i + 1:])
            if not cand["fops"]:
                continue
            budget -= 1
            r, _ = judge_full(chk, world, clock, cand)
            if r is not None and r[1] == sig:
                cur = cand
                changed = True
                break
    return cur


def report_full(chk, world, clock, r):
    kind, sig, what, rep = r
    seen = chk.extra.setdefault("_reported", set())
    if (kind, sig) in seen:
        return
    seen.add((kind, sig))
    small = shrink_full(chk, world, clock, rep["full"], sig)
    r2, _ = judge_full(chk, world, clock, small)
    if r2 is not None and r2[1] == sig:
        kind, sig, what, rep = r2
    chk.fail(kind, sig, what, rep)


def full_nontrivial(hist):
    kinds = {o[0] for _, o in hist["fops"]}
    return bool(kinds & set(EXTRA_KINDS)) and len(hist["fops"]) >= 3


def full_alphabet():
    """letters of the exhaustive part of the full machine (times: one unit per step)"""
    run_b, que_b, end_b, bad_b = [2, 5, 2, None], [0, 1, None, None], [4, 5, 2, 3], [0, 1, None, 3]
    return [["x", OK], ["x", H(400)],
            ["p", 0, ["s", "running", run_b]], ["p", 0, ["s", "waiting", que_b]], ["p", 0, ["s", "completed", end_b]],
            ["p", 0, ["s", "error", end_b]], ["p", 0, ["s", "canceled", bad_b]], ["p", 0, CONN], ["p", 1, H(500)],
            ["c", ["s", "waiting", que_b], OK],
            ["r", ["s", "canceled", que_b], CONN, OK, True], ["r", CONN, CONN, OK, False],
            ["g", ["s", "completed", end_b], CONN, OK], ["g", CONN, CONN, ["missing"]],
            ["td"], ["ro"], ["rs", ["s", "running", run_b]], ["rs", ["s", "error", end_b]], ["rs", CONN],
            ["rs", H(404)], ["n", ""], ["n", None],
            ["y", OK, [["s", "waiting", que_b], CONN, ["s", "completed", end_b]], OK, 3],
            ["y", OK, [["s", "running", run_b], H(500)], OK, 3]]


def check_full(chk, world):
    rng = chk.rng
    hists = [dict(h) for h in load_corpus("full")]
    ncorpus = len(hists)
    hists += [gen_full(rng, chk.pick(16, 40)) for _ in range(chk.pick(1500, 12000))]
    # exhaustive: every history of length <= 3 (quick) / 4 (thorough: reduced alphabet) over the full alphabet
    alpha = full_alphabet()
    depth = 3
    nex = 0
    for L in range(1, depth + 1):
        for combo in itertools.product(alpha, repeat=L):
            hists.append({"t0": 10, "name": "verif", "delay": 3, "exh": True,
                          "fops": [[10 + 12 * i, o] for i, o in enumerate(combo)]})
            nex += 1
    if chk.thorough:
        small = [alpha[i] for i in (0, 2, 5, 7, 11, 13, 15, 16, 17, 18, 22)]
        for combo in itertools.product(small, repeat=4):
            hists.append({"t0": 10, "name": "", "delay": 3, "exh": True,
                          "fops": [[10 + 12 * i, o] for i, o in enumerate(combo)]})
            nex += 1
        for combo in itertools.product([alpha[i] for i in (0, 7, 15, 18, 22)], repeat=6):
            hists.append({"t0": 10, "name": "x", "delay": 3, "exh": True,
                          "fops": [[10 + 12 * i, o] for i, o in enumerate(combo)]})
            nex += 1
    t0 = time.time()
    reps = chk.lean.ask_many([full_request(h) for h in hists])
    with fullclock(world) as clock:
        for h, rep in zip(hists, reps):
            exh = h.pop("exh", False)
            if "err" in rep:
                chk.fail("broken", "driver-rejects", rep["err"], {"full": h})
                continue
            r, tags = judge_full(chk, world, clock, h, rep["outs"])
            for t in tags:
                chk.branch(t)
            chk.branch("full-history")
            chk.count("source", "full-exhaustive" if exh else "full-random")
            for _, o in h["fops"]:
                chk.count("full_op_kind", o[0])
            chk.case("F" + json.dumps(h["fops"]), full_nontrivial(h),
                     None if exh else {"source": "full", "len": len(h["fops"]), "fops": h["fops"][:4]})
            if r is not None:
                report_full(chk, world, clock, r)
    chk.extra["full_machine"] = {"random_histories": len(hists) - nex - ncorpus, "corpus_histories": ncorpus,
                                 "exhaustive_histories": nex,
                                 "letters": len(alpha), "seconds": round(time.time() - t0, 1)}


# ------------------------------------------------------------------------------------------------
# execute_sync with the real throttle (shipped delay of 1 s) and a scripted clock, model: `syncLoopAt`
# ------------------------------------------------------------------------------------------------
def run_sync_clock(world, clock, sc):
    """-> (events, end): the requests and sleeps of one execute_sync() in order, and how it ended"""
    clock.now = sc["now"] / 4.0
    clock.sleeps = []
    job = world.RemoteJob({"payload": {}}, world.handler, "verif", refresh_progress_delay=sc["d"] / 4.0)
    world.begin(1, sc["rs"], OK, h2=OK, pending_ok=True)
    try:
        job.execute_sync()
        end = "complete"
    except ScriptExhausted:
        end = "pending"
    except Exception as e:  # noqa: BLE001
        end = "raised:" + exc_str(world, e, "p")
    ev = [e for e in world.events]
    bad_sleep = [x for x in clock.sleeps if x != sc["d"] / 4.0]
    return ev, end, bad_sleep


def model_sync_events(rep):
    ev = []
    outs = rep["outs"]
    for i, o in enumerate(outs):
        res, calls = o.split("|")
        if calls:
            ev.extend(calls.split(","))
        ending = i == len(outs) - 1 and rep["end"] != "pending"
        if not ending:
            ev.append("z")
    end = rep["end"]
    if end == "raised":
        end = "raised:" + outs[-1].split("|")[0]
    return ev, end


def gen_sync_clock(rng):
    d = rng.choice([1, 2, 3, 4, 5, 5, 8, 12, 12])
    now = rng.choice([0, 2, 4, 5, 6, 100, 100])
    op = gen_sync(rng, d)
    return {"d": d, "now": now, "fuel": 400, "rs": [r[:2] for r in op[2]]}


def judge_sync_clock(chk, world, clock, sc):
    ev, end, bad_sleep = run_sync_clock(world, clock, sc)
    real_ev = [e for e in ev if e != "C" and not e.startswith("G")]
    rep = chk.lean.ask({"fixed": True, "delay": DELAY_Q, "syncclock": sc})
    if "err" in rep:
        return ("broken", "driver-rejects", f"Lean driver rejected the clocked execute_sync: {rep['err']}",
                {"syncclock": sc})
    mev, mend = model_sync_events(rep)
    # direct: an unfinished job keeps following the server — a loop that sleeps thousands of times (hundreds of
    # refresh delays) without a single further status request has stopped polling before a final status
    if end == "raised:exc:LoopRunaway":
        return ("violation", "stopped-polling-before-final",
                f"clocked execute_sync: after {' '.join(real_ev[:40])} the loop went on sleeping "
                f"{len(clock.sleeps)} times {sc['d'] / 4.0}s (refresh delay {DELAY_Q / 4.0}s) without asking the "
                f"server again although no final status was read",
                {"syncclock": sc, "real": [real_ev[:60], end], "model": [mev, mend]})
    # direct: the loop must not poll after a final status, must end on it, and sleeps the configured delay
    if bad_sleep:
        return ("broken", "sync-sleep", f"execute_sync slept {bad_sleep} with refresh_progress_delay {sc['d'] / 4.0}",
                {"syncclock": sc})
    if (real_ev, end) != (mev, mend):
        return ("broken", "sync-clock-model-vs-code",
                f"clocked execute_sync: real code does {' '.join(real_ev)} and ends {end}; model does {' '.join(mev)} "
                f"and ends {mend}", {"syncclock": sc, "real": [real_ev, end], "model": [mev, mend]})
    return None


def check_sync_clock(chk, world, n):
    with clocked(world) as clock:
        clock.world = world
        for _ in range(n):
            sc = gen_sync_clock(chk.rng)
            r = judge_sync_clock(chk, world, clock, sc)
            chk.evaluations += 1
            chk.count("source", "sync-clock")
            chk.branch("sync-clock-spaced" if sc["d"] > DELAY_Q else "sync-clock-throttled")
            if r is not None:
                seen = chk.extra.setdefault("_reported", set())
                if (r[0], r[1]) in seen:
                    continue
                seen.add((r[0], r[1]))
                # shrink: drop answers
                cur = sc
                changed = True
                while changed:
                    changed = False
                    for i in range(len(cur["rs"])):
                        cand = dict(cur, rs=cur["rs"][:i] + cur["rs"][i + 1:])
                        r2 = judge_sync_clock(chk, world, clock, cand)
                        if r2 is not None and r2[1] == r[1]:
                            cur, r, changed = cand, r2, True
                            break
                chk.fail(*r)


# ------------------------------------------------------------------------------------------------
# results on the CONTENT of the answer (Model/C17R.lean, part R: `rstep`)
# ------------------------------------------------------------------------------------------------
MAP_MODULE = "verif_c17_mapping"


def install_mapping_module():
    """the function `job_context['result_mapping']` names: importable through sys.modules, records what it got"""
    import sys
    import types
    if MAP_MODULE in sys.modules:
        return
    m = types.ModuleType(MAP_MODULE)

    def vmap(results, **kw):
        return {"__mapped__": results, "__args__": list(kw.items())}
    m.vmap = vmap
    sys.modules[MAP_MODULE] = m


def encode_payload(p):
    """the Python value whose JSON text the scripted server puts into `results`"""
    if p is None:
        return None
    t = p[0]
    if t == "num":
        return p[1]
    if t == "str":
        return "abc" if p[1] else ""
    if t == "list":
        return [7] * p[1]
    _, res, rlist, ctx, extra = p
    d = {}
    if extra:
        d["extra"] = 1
    if res is not None:
        d["results"] = {"tok": res}
    if ctx[0] == "null":
        d["job_context"] = None
    elif ctx[0] == "nomap":
        d["job_context"] = {"other": 1}
    elif ctx[0] == "map":
        fn = {"good": [MAP_MODULE, "vmap"], "noattr": [MAP_MODULE, "nothing"],
              "nomodule": ["verif_c17_no_such_module", "vmap"]}[ctx[1]]
        d["job_context"] = {"result_mapping": fn}
        if ctx[2] is not None:
            d["job_context"]["mapping_delta_parameters"] = {k: v for k, v in ctx[2]}
    if rlist is not None:
        items = []
        for tok, it in rlist:
            item = {}
            if it is not None:
                item["iteration"] = {k: v for k, v in it}
            if tok is not None:
                item["results"] = {"tok": tok}
            items.append(item)
        d["results_list"] = items
    return d


def results_body(h):
    if h[0] == "nokey":
        return b'{}'
    if h[0] == "notstr":
        return b'{"results": null}'
    if h[0] == "badjson":
        return b'{"results": "{not json"}'
    return json.dumps({"results": json.dumps(encode_payload(h[1]))}).encode()


def rv_str(v):
    if isinstance(v, dict) and "__mapped__" in v:
        return "M(" + rv_str(v["__mapped__"]) + "|" + ",".join(f"{k}={x}" for k, x in v["__args__"]) + ")"
    if isinstance(v, dict) and set(v) == {"tok"}:
        return str(v["tok"])
    return "?" + repr(v)


def payload_str(r):
    """canonical form of what get_results() returned (same grammar as `payloadStr` of the driver)"""
    if r is None:
        return "null"
    if isinstance(r, bool):
        return "?bool"
    if isinstance(r, int):
        return f"num:{r}"
    if isinstance(r, str):
        return "str:" + r
    if isinstance(r, list):
        return f"list:{len(r)}"
    if not isinstance(r, dict):
        return "?" + type(r).__name__
    res = rv_str(r["results"]) if "results" in r else "-"
    if "results_list" in r:
        rl = "[" + ";".join(
            (rv_str(it["results"]) if "results" in it else "-") + "/" +
            (",".join(f"{k}={x}" for k, x in it["iteration"].items()) if "iteration" in it else "-")
            for it in r["results_list"]) + "]"
    else:
        rl = "-"
    if "job_context" not in r:
        ctx = "absent"
    elif r["job_context"] is None:
        ctx = "null"
    elif "result_mapping" in r["job_context"]:
        ctx = "map"
    else:
        ctx = "nomap"
    return f"dict:{res}:{rl}:{ctx}:{1 if 'extra' in r else 0}"


def expected_mapping(p):
    """the property-level expectation for a well-formed mapped answer, computed independently of the Lean model:
    every item (or the single entry) is replaced by f(item, **delta parameters overridden by the item's iteration);
    None when the answer is not of that clear-cut shape"""
    if not (isinstance(p, list) and p and p[0] == "dict"):
        return None
    _, res, rlist, ctx, extra = p
    if ctx[0] != "map" or ctx[1] != "good":
        return None
    deltas = ctx[2] or []
    if rlist is not None:
        if any(tok is None or it is None for tok, it in rlist):
            return None
        items = []
        for tok, it in rlist:
            d = dict(it)
            args = ",".join(f"{k}={d.get(k, v)}" for k, v in deltas)
            items.append(f"M({tok}|{args})/" + ",".join(f"{k}={x}" for k, x in it))
        r = "-" if res is None else str(res)
        return f"dict:{r}:[{';'.join(items)}]:map:{1 if extra else 0}"
    if res is None:
        return None
    return f"dict:M({res}|{','.join(f'{k}={v}' for k, v in deltas)}):-:map:{1 if extra else 0}"


def do_op(world, job, k, op, after_begin=None):
    """one operation of the base alphabet (+ "G") on the real job -> (result string, new job or None)"""
    kind = op[0]
    if kind == "x":
        world.begin(k, [], op[1])
    elif kind == "p":
        world.begin(k, [op[2]], None)
    elif kind == "c":
        world.begin(k, [op[1]], op[2])
    else:
        world.begin(k, [op[1], op[2]], op[3])
    if after_begin is not None:
        after_begin()
    new_job = None
    try:
        if kind == "x":
            job.execute_async()
            res = "ok"
        elif kind == "p":
            v = op[1]
            res = ("st:" + job.status()) if v == 0 else ("flag:1" if getattr(job, VIEWS[v]) else "flag:0")
        elif kind == "c":
            job.cancel()
            res = "ok"
        elif kind == "r":
            new_job = job.rerun()
            res = f"new:{cid(new_job)}:{shown(new_job)}"
        elif kind == "G":
            res = "val:" + payload_str(job.get_results())
        else:
            r = job.get_results()
            res = "res:empty" if r == {} else f"res:{r['results']['tok']}"
    except Exception as e:  # noqa: BLE001 — every exception class is an observable outcome
        res = exc_str(world, e, "g" if kind == "G" else kind)
    return res, new_job


def run_rops(world, ops):
    """-> (outs, hits, tags): the results machine on the real code (throttle transparent), with the property
    statement evaluated directly on the trace"""
    install_mapping_module()
    job = world.RemoteJob({"payload": {}}, world.handler, "verif")
    outs, hits, tags = [], [], set()
    final = None          # final status shown
    failmsg = None        # status_message of the server read that said ERROR / CANCELED
    cached = None         # value a get_results of the FINAL job returned (truthy): must be returned for ever
    stored = False        # a results answer with a decodable value has been received by this object
    odd = False           # this object has been told a status string outside the canonical vocabulary
    for k, op in enumerate(ops, 1):
        kind = op[0]
        res, new_job = do_op(world, job, k, op)
        calls, served = list(world.calls), list(world.served)
        for r in served:
            if r[0] == "s" and r[1] in ("error", "canceled"):
                failmsg = f"m{k}"
            elif r[0] == "s" and r[1] not in CANON:
                odd = True            # the direct message oracles only judge the canonical server vocabulary
        if final is not None and any(c[0] == "S" for c in calls):
            hits.append(("polls-after-final", k, f"step {k}: status request sent after the job showed {final}"))
        if kind == "G":
            asked = any(c[0] == "G" for c in calls)
            guard = served[0][1] if served and served[0][0] == "s" else None
            if guard in UNFINISHED:
                tags.add("R-refused")
                if res != "exc:RuntimeError:running" or asked:
                    hits.append(("results-while-unfinished", k,
                                 f"step {k}: get_results() while the server says {guard!r}: result {res}, requests "
                                 f"{','.join(calls)} (must be refused without a results request)"))
            if res.startswith("exc:RuntimeError:failed:"):
                tags.add("R-failed-message")
                if failmsg is not None and not odd and res != "exc:RuntimeError:failed:" + failmsg:
                    hits.append(("failed-message-lost", k,
                                 f"step {k}: the server's failure message was {failmsg!r} but get_results() raised "
                                 f"{res}"))
            if final in FAILED_NAMES and not stored and not odd and op[3][0] in ("nokey", "notstr"):
                if res != "exc:RuntimeError:failed:" + str(failmsg):
                    hits.append(("failed-message-lost", k,
                                 f"step {k}: get_results() of a job that ended {final} (message {failmsg!r}, no usable "
                                 f"results in the answer) gave {res} instead of 'The job failed: <message>'"))
            if cached is not None:
                tags.add("R-cached-return")
                if res != cached or calls:
                    hits.append(("cached-results-changed", k,
                                 f"step {k}: the finished job had returned {cached} before; get_results() now gives "
                                 f"{res} with requests {','.join(calls) or 'none'}"))
            elif final is not None and not stored and asked and op[3][0] == "p":
                want = expected_mapping(op[3][1])
                if want is not None:
                    tags.add("R-mapped-single" if op[3][1][2] is None else "R-mapped-list")
                    if op[3][1][2] is not None and any(
                            k2 in dict(it) and dict(it)[k2] != v2 for _, it in op[3][1][2]
                            for k2, v2 in (op[3][1][3][2] or [])):
                        tags.add("R-override")
                    if res != "val:" + want:
                        hits.append(("result-mapping-wrong", k,
                                     f"step {k}: the answer asks for the mapping of every entry (delta parameters "
                                     f"{op[3][1][3][2]}); expected {want}, get_results() returned {res}"))
            if asked and op[3][0] == "p":
                if stored and res.startswith("val:") and shown(job) == "UNKNOWN":
                    tags.add("R-unknown-refetch")
                stored = True
            if res.startswith("val:") and not asked and cached is None and stored:
                tags.add("R-stored-value-returned")
            if res.startswith("val:") and shown(job) in FINAL_NAMES and res not in (
                    "val:null", "val:num:0", "val:str:", "val:list:0", "val:dict:-:-:absent:0"):
                cached = res
            tags.add({"exc:JSONDecodeError": "R-badjson", "exc:AttributeError": "R-noattr",
                      "exc:ModuleNotFoundError": "R-nomodule"}.get(res, "R-other"))
            if asked and res.startswith("exc:RuntimeError") and op[3][0] == "p" and \
                    isinstance(op[3][1], list) and op[3][1][0] == "dict" and op[3][1][2] and \
                    op[3][1][2][0][0] is not None and op[3][1][3][:2] == ["map", "good"]:
                tags.add("R-partial-mapping")
        if new_job is not None and op[4]:
            job, final, failmsg, cached, stored, odd = new_job, None, None, None, False, False
        sh = shown(job)
        if final is not None and sh != final:
            hits.append(("final-status-changed", k, f"step {k}: status shown went from {final} to {sh}"))
        if sh in FINAL_NAMES:
            final = sh
        outs.append(f"{res}|{cid(job)}|{sh}|{','.join(calls)}")
    return outs, hits, tags


def rand_iter(rng, names):
    ks = [n for n in names if rng.random() < 0.6]
    rng.shuffle(ks)
    return [[n, rng.randint(0, 9)] for n in ks]


def rand_payload(rng):
    x = rng.random()
    if x < 0.05:
        return None
    if x < 0.1:
        return ["num", rng.choice([0, 5])]
    if x < 0.15:
        return ["str", rng.random() < 0.5]
    if x < 0.2:
        return ["list", rng.choice([0, 2])]
    y = rng.random()
    if y < 0.12:
        ctx = ["absent"]
    elif y < 0.2:
        ctx = ["null"]
    elif y < 0.28:
        ctx = ["nomap"]
    else:
        z = rng.random()
        fn = "good" if z < 0.84 else ("noattr" if z < 0.92 else "nomodule")
        w = rng.random()
        deltas = None if w < 0.2 else ([] if w < 0.3 else rand_iter(rng, ["a", "b", "c"]) or [["a", 1]])
        ctx = ["map", fn, deltas]
    res = rng.randint(1, 99) if rng.random() < 0.6 else None
    rlist = None
    if rng.random() < 0.6:
        rlist = []
        for _ in range(rng.randint(0, 3)):
            bad = rng.random()
            rlist.append([None if bad < 0.08 else rng.randint(1, 99),
                          None if 0.08 <= bad < 0.18 else rand_iter(rng, ["a", "b", "c", "z"])])
    return ["dict", res, rlist, ctx, rng.random() < 0.2]


def rand_rbody(rng):
    x = rng.random()
    if x < 0.06:
        return H(rng.choice([404, 429, 500]))
    if x < 0.09:
        return CONN
    if x < 0.15:
        return ["nokey"]
    if x < 0.21:
        return ["notstr"]
    if x < 0.27:
        return ["badjson"]
    return ["p", rand_payload(rng)]


def gen_rops(rng):
    ops = [["x", OK]]
    for _ in range(rng.randint(1, 3)):          # one job, then perhaps its rerun children
        for _ in range(rng.randint(0, 2)):
            ops.append(["p", 0, S(rng.choice(["waiting", "running", "suspended", "unknown"]))])
            if rng.random() < 0.4:
                ops.append(["G", S(rng.choice(CANON)), rand_status_answer(rng, False), rand_rbody(rng)])
        end = rng.choice(["completed", "error", "canceled", "error", "canceled", "unknown", "bogus"])
        ops.append(["p", rng.choice([0, 0, 1, 2]), S(end)])
        for _ in range(rng.randint(1, 5)):
            x = rng.random()
            if x < 0.75:
                ops.append(["G", rand_status_answer(rng, False), rand_status_answer(rng, False), rand_rbody(rng)])
            elif x < 0.85:
                ops.append(["p", 0, rand_status_answer(rng, False)])
            elif x < 0.92:
                ops.append(["c", rand_status_answer(rng, False), rand_h(rng)])
            else:
                ops.append(["r", rand_status_answer(rng, False), rand_status_answer(rng, False), rand_h(rng), False])
        ops.append(["r", rand_status_answer(rng, False), rand_status_answer(rng, False), OK, True])
    return ops[:-1] if rng.random() < 0.5 else ops


def judge_rops(chk, world, ops, lean_outs=None):
    outs, hits, tags = run_rops(world, ops)
    if lean_outs is None:
        rep = chk.lean.ask({"fixed": True, "rops": ops})
        if "err" in rep:
            return ("broken", "driver-rejects", f"Lean driver rejected the history: {rep['err']}", {"rops": ops}), tags
        lean_outs = rep["outs"]
    if hits:
        sig, k, what = hits[0]
        return ("violation", sig, what, {"rops": ops, "real": outs, "model": lean_outs}), tags
    i = next((i for i, (x, y) in enumerate(zip(outs, lean_outs)) if x != y), None)
    if i is not None:
        return ("broken", "results-model-vs-code",
                f"step {i + 1} ({ops[i]}): real code gives {outs[i]!r}, results model gives {lean_outs[i]!r}; "
                f"no direct oracle fails", {"rops": ops, "real": outs, "model": lean_outs}), tags
    return None, tags


def shrink_list(judge_fn, items, sig, budget=250):
    cur = list(items)
    changed = True
    while changed and budget > 0:
        changed = False
        for i in range(len(cur)):
            cand = cur[:i] + cur[i + 1:]
            if not cand:
                continue
            budget -= 1
            r, _ = judge_fn(cand)
            if r is not None and r[1] == sig:
                cur, changed = cand, True
                break
    return cur


def report_list(chk, judge_fn, r, key):
    kind, sig, what, rep = r
    seen = chk.extra.setdefault("_reported", set())
    if (kind, sig) in seen:
        return
    seen.add((kind, sig))
    small = shrink_list(judge_fn, rep[key], sig)
    r2, _ = judge_fn(small)
    if r2 is not None and r2[1] == sig:
        kind, sig, what, rep = r2
    chk.fail(kind, sig, what, rep)


R_BRANCHES = ["R-refused", "R-failed-message", "R-cached-return", "R-mapped-list", "R-mapped-single", "R-override",
              "R-unknown-refetch", "R-stored-value-returned", "R-badjson", "R-noattr", "R-nomodule",
              "R-partial-mapping"]


def check_results(chk, world, n):
    corpus = load_corpus("rops")
    hists = corpus + [gen_rops(chk.rng) for _ in range(n)]
    reps = chk.lean.ask_many([{"fixed": True, "rops": h} for h in hists])
    for h, rep in zip(hists, reps):
        chk.evaluations += 1
        chk.count("source", "results")
        if "err" in rep:
            chk.fail("broken", "driver-rejects", rep["err"], {"rops": h})
            continue
        r, tags = judge_rops(chk, world, h, rep["outs"])
        for t in tags:
            chk.branch(t)
        chk.case(json.dumps(h), any(op[0] == "G" and op[3][0] == "p" for op in h),
                 {"source": "results", "len": len(h), "ops": h[:4]})
        if r is not None:
            report_list(chk, lambda ops: judge_rops(chk, world, ops), r, "rops")


# ------------------------------------------------------------------------------------------------
# every operation under the real throttle (Model/C17R.lean, part K: `kstep`), shipped delay, scripted clock
# ------------------------------------------------------------------------------------------------
class SeqClock:
    """time.time() of remote_job.py: the scripted times of the status reads of the current operation, in order"""

    def __init__(self):
        self.seq = [0.0]
        self.count = 0
        self.last = 0.0

    def set(self, *ts):
        self.seq = list(ts)
        self.count = 0

    def time(self):
        self.last = self.seq[min(self.count, len(self.seq) - 1)]
        self.count += 1
        return self.last

    def sleep(self, s):
        raise LoopRunaway("sleep in a clocked operation")


class ByRead(list):
    """status answers served by the POSITION of the status read within the operation (as in the model: the first
    read gets r1, the second r2, whether or not the first one reached the server); the read in progress is the one
    whose time the clock handed out last"""

    def __init__(self, answers, clock):
        super().__init__(answers)
        self.clock = clock
        self.req_times = []
        self.positions = []      # 0 = the first status read of the operation, 1 = the second

    def pop(self, _i=0):
        self.req_times.append(self.clock.last)
        self.positions.append(max(self.clock.count - 1, 0))
        return self[min(max(self.clock.count - 1, 0), len(self) - 1)]


def run_kops(world, kops):
    """-> (outs, hits, tags); kops = [now1, now2, op] with times in quarter seconds, delay = 1 s"""
    RJ = world.RemoteJob
    saved_time, saved_delay = world.rjm.time, RJ.STATUS_REFRESH_DELAY
    clock = SeqClock()
    outs, hits, tags = [], [], set()
    try:
        world.rjm.time = clock
        RJ.STATUS_REFRESH_DELAY = 1
        job = RJ({"payload": {}}, world.handler, "verif")
        final, fails, creates, last_req, prev = None, 0, 0, 0, "not sent"
        for k, (n1, n2, op) in enumerate(kops, 1):
            clock.set(n1 / 4.0, n2 / 4.0)
            kind = op[0]
            box = {}

            def by_read():
                world.status_q = box["q"] = ByRead(world.status_q, clock)
            res, new_job = do_op(world, job, k, op, by_read)
            calls, served = list(world.calls), list(world.served)
            ns = sum(1 for c in calls if c[0] == "S")
            req_times = [int(round(x * 4)) for x in box["q"].req_times]
            creates += calls.count("C")
            if creates > 1:
                hits.append(("sent-twice", k, f"step {k}: create_job called again for a job object already submitted"))
            if final is not None and ns:
                hits.append(("polls-after-final", k, f"step {k}: status request sent after the job showed {final}"))
            sent_before = prev != "not sent"
            if sent_before and final is None and kind != "x":
                if n1 - last_req > DELAY_Q:
                    tags.add("K-overdue-checked")
                    if ns == 0:
                        hits.append(("stopped-polling-before-final", k,
                                     f"step {k}: {OP_NAME[kind]} at t={n1 / 4.0}s, {(n1 - last_req) / 4.0}s after the "
                                     f"last status request (refresh delay 1s) on a job showing {prev} (not final) sent "
                                     f"no status request (result {res})"))
                elif ns == 0:
                    tags.add("K-throttled-guard" if kind != "p" else "K-throttled-read")
                if ns == 1 and kind == "r" and res == "exc:RuntimeError:norerun" and req_times == [n1]:
                    tags.add("K-second-read-throttled")
                if ns == 1 and kind in ("r", "g") and req_times == [n2] and n2 != n1:
                    tags.add("K-only-second-read-sent")
                if ns == 2:
                    tags.add("K-second-read-sent")
            for i, r in enumerate(served):
                if r[0] == "s":
                    fails = 0
                else:
                    fails += 1
                    fatal = r[0] == "h" and r[1] not in TRANSIENT
                    must = fails > MAX_ABSORBED or fatal
                    want = "exc:ConnectionError" if r[0] == "c" else f"exc:HTTPError:{r[1]}"
                    last = i == len(served) - 1 and calls[-1][0] == "S"    # nothing was requested after it
                    if must and not (last and res == want):
                        hits.append(("fatal-http-absorbed" if fatal and fails <= MAX_ABSORBED
                                     else "streak-absorbed-after-max", k,
                                     f"step {k}: failed status request number {fails} of the streak ({r}) was not "
                                     f"raised (result {res})"))
                    elif not must and last and res == want:
                        hits.append(("transient-not-absorbed", k,
                                     f"step {k}: transient failure number {fails} was raised ({res})"))
            if req_times:
                last_req = req_times[-1]
            if new_job is not None and op[4]:
                # the new object exists since now: "overdue" is judged from its creation on (the code is stricter:
                # it starts with _previous_status_refresh = 0, compared through the model)
                job, final, fails, creates, last_req = new_job, None, 0, 1, n2
                tags.add("K-child")
            sh = shown(job)
            if final is not None and sh != final:
                hits.append(("final-status-changed", k, f"step {k}: status shown went from {final} to {sh}"))
            if sh in FINAL_NAMES:
                final = sh
            prev = sh
            outs.append(f"{res}|{cid(job)}|{sh}|{','.join(calls)}")
    finally:
        world.rjm.time = saved_time
        RJ.STATUS_REFRESH_DELAY = saved_delay
    return outs, hits, tags


def gen_kops(rng):
    t = rng.choice([0, 2, 5, 9])
    kops = [[t, t, ["x", OK if rng.random() < 0.9 else rand_h(rng)]]]
    fail_bias = rng.random() < 0.35
    for _ in range(rng.randint(2, 14)):
        t += rng.choice([0, 1, 3, 4, 5, 5, 6, 12])
        t2 = t + rng.choice([0, 0, 0, 1, 5, 8])
        op = rand_op(rng, fail_bias and rng.random() < 0.8)
        kops.append([t, t2, op])
        t = t2
    return kops


def judge_kops(chk, world, kops, lean_outs=None):
    outs, hits, tags = run_kops(world, kops)
    if lean_outs is None:
        rep = chk.lean.ask({"fixed": True, "delay": DELAY_Q, "kops": kops})
        if "err" in rep:
            return ("broken", "driver-rejects", f"Lean driver rejected the history: {rep['err']}", {"kops": kops}), tags
        lean_outs = rep["outs"]
    if hits:
        sig, k, what = hits[0]
        return ("violation", sig, what, {"kops": kops, "real": outs, "model": lean_outs}), tags
    i = next((i for i, (x, y) in enumerate(zip(outs, lean_outs)) if x != y), None)
    if i is not None:
        return ("broken", "clocked-ops-model-vs-code",
                f"step {i + 1} ({kops[i]}): real code gives {outs[i]!r}, clocked model gives {lean_outs[i]!r}; "
                f"no direct oracle fails", {"kops": kops, "real": outs, "model": lean_outs}), tags
    return None, tags


K_BRANCHES = ["K-overdue-checked", "K-throttled-guard", "K-throttled-read", "K-second-read-throttled",
              "K-only-second-read-sent", "K-second-read-sent", "K-child"]


def check_clocked_ops(chk, world, n):
    corpus = load_corpus("kops")
    hists = corpus + [gen_kops(chk.rng) for _ in range(n)]
    reps = chk.lean.ask_many([{"fixed": True, "delay": DELAY_Q, "kops": h} for h in hists])
    for h, rep in zip(hists, reps):
        chk.evaluations += 1
        chk.count("source", "clocked-ops")
        if "err" in rep:
            chk.fail("broken", "driver-rejects", rep["err"], {"kops": h})
            continue
        r, tags = judge_kops(chk, world, h, rep["outs"])
        for t in tags:
            chk.branch(t)
        chk.case(json.dumps(h), any(k[2][0] != "p" for k in h), {"source": "clocked-ops", "len": len(h), "ops": h[:4]})
        if r is not None:
            report_list(chk, lambda ks: judge_kops(chk, world, ks), r, "kops")


# ------------------------------------------------------------------------------------------------
# results on the content of the answer UNDER the real throttle, re-creation from the dictionary / from the id under
# the real clock (Model/C17Y.lean: `ystep`, `resumeAt`), shipped delay, scripted clock
# ------------------------------------------------------------------------------------------------
TRUTHLESS = ("val:null", "val:num:0", "val:str:", "val:list:0", "val:dict:-:-:absent:0")


def run_yops(world, hist):
    """-> (outs, hits, tags); hist = {"resume": [id, now, answer] or None, "yops": [[now1, now2, op], ...]} with
    op = a base operation (x/p/c/r), ["G", r1, r2, results body] or ["reopen"]; times in quarter seconds, delay 1 s"""
    install_mapping_module()
    RJ = world.RemoteJob
    saved_time, saved_delay = world.rjm.time, RJ.STATUS_REFRESH_DELAY
    clock = SeqClock()
    outs, hits, tags = [], [], set()
    try:
        world.rjm.time = clock
        RJ.STATUS_REFRESH_DELAY = 1
        k0 = 1
        final, fails, creates, last_req, prev = None, 0, 0, 0, "not sent"
        failmsg, cached, stored, odd = None, None, False, False
        old_last_req = None      # last status request of the object the current one was re-created from
        if hist.get("resume") is not None:
            n, now, r = hist["resume"]
            clock.set(now / 4.0)
            world.begin(1, [r], None)
            world.status_q = q = ByRead(world.status_q, clock)
            job = None
            try:
                job = RJ.from_id(f"job-{n}", world.handler)
                res = f"new:{cid(job)}:{shown(job)}"
            except Exception as e:  # noqa: BLE001
                res = exc_str(world, e, "p")
            calls, served = list(world.calls), list(world.served)
            outs.append(f"{res}|{','.join(calls)}")
            if now > DELAY_Q:
                tags.add("Y-resume-sent")
                if calls != [f"S{n}"]:
                    hits.append(("stopped-polling-before-final", 1,
                                 f"step 1: RemoteJob.from_id at t={now / 4.0}s (refresh delay 1s) sent "
                                 f"{','.join(calls) or 'no request'} instead of exactly one status request"))
                elif served and served[0][0] == "s" and served[0][1] in CANON and job is not None and \
                        shown(job) != MEANING[served[0][1]]:
                    hits.append(("status-not-last-read", 1,
                                 f"step 1: from_id was told {served[0][1]!r} and shows {shown(job)}"))
            else:
                tags.add("Y-resume-throttled")
            if served and served[0][0] != "s":       # the streak law on the one read of a fresh object
                r0 = served[0]
                fatal = r0[0] == "h" and r0[1] not in TRANSIENT
                want = "exc:ConnectionError" if r0[0] == "c" else f"exc:HTTPError:{r0[1]}"
                if fatal and res != want:
                    hits.append(("fatal-http-absorbed", 1,
                                 f"step 1: from_id got {r0} for its status request and did not raise it (result {res})"))
                elif not fatal and job is None:
                    hits.append(("transient-not-absorbed", 1,
                                 f"step 1: from_id raised the first transient failure {r0} ({res})"))
            if job is None:
                tags.add("Y-resume-raised")
                return outs, hits, tags
            for r2 in served:
                if r2[0] == "s" and r2[1] in ("error", "canceled"):
                    failmsg = "m1"
                elif r2[0] == "s" and r2[1] not in CANON:
                    odd = True
                fails = 0 if r2[0] == "s" else 1
            creates, prev, k0 = 1, shown(job), 2
            last_req = now
            if prev in FINAL_NAMES:
                final = prev
        else:
            job = RJ({"payload": {}}, world.handler, "verif")
        for k, (n1, n2, op) in enumerate(hist["yops"], k0):
            kind = op[0]
            if kind == "reopen":
                world.begin(k, [], None)
                try:
                    job = RJ._from_dict(job._to_dict(), world.handler)
                    res = "ok"
                except Exception as e:  # noqa: BLE001
                    res = exc_str(world, e, "p")
                calls = list(world.calls)
                if calls:
                    hits.append(("reopen-sends-requests", k, f"step {k}: _from_dict(_to_dict()) sent {','.join(calls)}"))
                sh = shown(job)
                tags.add("Y-reopen-unsent" if sh == "not sent" else
                         ("Y-reopen-final" if sh in FINAL_NAMES else "Y-reopen-sent"))
                if res == "ok" and prev != "not sent" and sh != prev:
                    hits.append(("reopen-changes-status", k,
                                 f"step {k}: the job showed {prev}, its re-creation from the dictionary shows {sh}"))
                # a new object: fresh counters; "overdue" is judged from its creation on (the code is stricter: it
                # starts with _previous_status_refresh = 0, compared through the model)
                old_last_req = last_req
                fails, creates, last_req = 0, (0 if sh == "not sent" else 1), n1
                failmsg, cached, stored = None, None, False
                prev = sh
                outs.append(f"{res}|{cid(job)}|{sh}|{','.join(calls)}")
                continue
            clock.set(n1 / 4.0, n2 / 4.0)
            box = {}

            def by_read():
                world.status_q = box["q"] = ByRead(world.status_q, clock)
            res, new_job = do_op(world, job, k, op, by_read)
            calls, served = list(world.calls), list(world.served)
            ns = sum(1 for c in calls if c[0] == "S")
            req_times = [int(round(x * 4)) for x in box["q"].req_times]
            positions = list(box["q"].positions)
            creates += calls.count("C")
            if creates > 1:
                hits.append(("sent-twice", k, f"step {k}: create_job called again for a job object already submitted"))
            if final is not None and ns:
                hits.append(("polls-after-final", k, f"step {k}: status request sent after the job showed {final}"))
            sent_before = prev != "not sent"
            if sent_before and final is None and kind != "x":
                if n1 - last_req > DELAY_Q:
                    if ns == 0:
                        hits.append(("stopped-polling-before-final", k,
                                     f"step {k}: {OP_NAME[kind.lower()]} at t={n1 / 4.0}s, {(n1 - last_req) / 4.0}s "
                                     f"after the last status request (refresh delay 1s) on a job showing {prev} (not "
                                     f"final) sent no status request (result {res})"))
                if old_last_req is not None and ns and n1 - old_last_req <= DELAY_Q:
                    tags.add("Y-reopen-then-read-inside-delay")
            if kind != "x":
                old_last_req = None
            for i, r in enumerate(served):
                if r[0] == "s":
                    fails = 0
                    if r[1] in ("error", "canceled"):
                        failmsg = f"m{k}"
                    elif r[1] not in CANON:
                        odd = True
                else:
                    fails += 1
                    fatal = r[0] == "h" and r[1] not in TRANSIENT
                    must = fails > MAX_ABSORBED or fatal
                    want = "exc:ConnectionError" if r[0] == "c" else f"exc:HTTPError:{r[1]}"
                    last = i == len(served) - 1 and calls[-1][0] == "S"
                    if must and not (last and res == want):
                        hits.append(("fatal-http-absorbed" if fatal and fails <= MAX_ABSORBED
                                     else "streak-absorbed-after-max", k,
                                     f"step {k}: failed status request number {fails} of the streak ({r}) was not "
                                     f"raised (result {res})"))
                    elif not must and last and res == want:
                        hits.append(("transient-not-absorbed", k,
                                     f"step {k}: transient failure number {fails} was raised ({res})"))
            if kind == "G":
                asked = any(c[0] == "G" for c in calls)
                guard = served[0][1] if served and served[0][0] == "s" and positions and positions[0] == 0 else None
                if ns:
                    tags.add("Y-results-read-sent")
                if 1 in positions:
                    tags.add("Y-results-second-read-sent")
                if guard in UNFINISHED:
                    tags.add("Y-refused")
                    if res != "exc:RuntimeError:running" or asked:
                        hits.append(("results-while-unfinished", k,
                                     f"step {k}: get_results() at t={n1 / 4.0}s while the server says {guard!r}: "
                                     f"result {res}, requests {','.join(calls)} (must be refused without a results "
                                     f"request)"))
                if ns == 0 and final is None and sent_before:
                    tags.add("Y-throttled-refused" if res == "exc:RuntimeError:running" else
                             ("Y-throttled-fetch" if asked else "Y-throttled-other"))
                if res.startswith("exc:RuntimeError:failed:") and failmsg is not None and not odd and \
                        res != "exc:RuntimeError:failed:" + failmsg:
                    hits.append(("failed-message-lost", k,
                                 f"step {k}: the server's failure message was {failmsg!r} but get_results() raised "
                                 f"{res}"))
                if cached is not None:
                    tags.add("Y-cached-return")
                    if res != cached or calls:
                        hits.append(("cached-results-changed", k,
                                     f"step {k}: the finished job had returned {cached} before; get_results() at "
                                     f"t={n1 / 4.0}s now gives {res} with requests {','.join(calls) or 'none'}"))
                elif final is not None and not stored and asked and op[3][0] == "p":
                    want = expected_mapping(op[3][1])
                    if want is not None:
                        tags.add("Y-mapped")
                        if res != "val:" + want:
                            hits.append(("result-mapping-wrong", k,
                                         f"step {k}: the answer asks for the mapping of every entry (delta parameters "
                                         f"{op[3][1][3][2]}); expected {want}, get_results() returned {res}"))
                if asked and op[3][0] == "p":
                    stored = True
                if res.startswith("val:") and shown(job) in FINAL_NAMES and res not in TRUTHLESS:
                    cached = res
            if req_times:
                last_req = req_times[-1]
            if new_job is not None and op[4]:
                job, final, fails, creates, last_req = new_job, None, 0, 1, n2
                failmsg, cached, stored, odd = None, None, False, False
                tags.add("Y-child")
            sh = shown(job)
            if final is not None and sh != final:
                hits.append(("final-status-changed", k, f"step {k}: status shown went from {final} to {sh}"))
            if sh in FINAL_NAMES:
                final = sh
            prev = sh
            outs.append(f"{res}|{cid(job)}|{sh}|{','.join(calls)}")
    finally:
        world.rjm.time = saved_time
        RJ.STATUS_REFRESH_DELAY = saved_delay
    return outs, hits, tags


def gen_yops(rng):
    resume = None
    yops = []
    t = rng.choice([0, 2, 5, 9])
    if rng.random() < 0.25:
        now = rng.choice([0, 2, 4, 5, 9, 40])
        resume = [50 + rng.randint(0, 9), now, rand_status_answer(rng, False)]
        t = now
    else:
        z = rng.random()
        if z < 0.86:
            yops.append([t, t, ["x", OK]])
        elif z < 0.94:
            yops.append([t, t, ["x", rng.choice([H(500), H(429), CONN])]])     # creation fails: an unsent ERROR job
            yops.append([t, t, ["reopen"]])
        else:
            yops.append([t, t, ["reopen"]])                                    # a job never submitted
    fail_bias = rng.random() < 0.2
    for i in range(rng.randint(2, 12)):
        t += rng.choice([0, 1, 3, 4, 5, 5, 6, 12])
        t2 = t + rng.choice([0, 0, 0, 1, 5, 8])
        x = rng.random()
        if i == 0 and x < 0.6:
            op = ["p", 0, S(rng.choice(["completed", "error", "canceled", "unknown", "running", "error"]))]
        elif x < 0.4:
            fb = fail_bias and rng.random() < 0.6
            op = ["G", rand_status_answer(rng, fb), rand_status_answer(rng, fb), rand_rbody(rng)]
        elif x < 0.5 and resume is None:
            op = ["reopen"]
            t2 = t
        else:
            op = rand_op(rng, fail_bias and rng.random() < 0.8)
            if op[0] == "g":
                op = ["G", op[1], op[2], rand_rbody(rng)]
            if resume is not None and op[0] in ("r", "x"):
                op = ["p", 0, op[1] if op[0] == "r" else S("running")]
        yops.append([t, t2, op])
        t = t2
    return {"resume": resume, "yops": yops}


def judge_yops(chk, world, hist, lean_outs=None):
    outs, hits, tags = run_yops(world, hist)
    if lean_outs is None:
        req = {"fixed": True, "delay": DELAY_Q, "yops": hist["yops"]}
        if hist.get("resume") is not None:
            req["resume"] = hist["resume"]
        rep = chk.lean.ask(req)
        if "err" in rep:
            return ("broken", "driver-rejects", f"Lean driver rejected the history: {rep['err']}", {"yhist": hist}), tags
        lean_outs = rep["outs"]
    if hits:
        sig, k, what = hits[0]
        return ("violation", sig, what, {"yhist": hist, "real": outs, "model": lean_outs}), tags
    if len(outs) != len(lean_outs):
        return ("broken", "clocked-results-model-vs-code",
                f"real code made {len(outs)} steps, the model {len(lean_outs)}",
                {"yhist": hist, "real": outs, "model": lean_outs}), tags
    i = next((i for i, (x, y) in enumerate(zip(outs, lean_outs)) if x != y), None)
    if i is not None:
        return ("broken", "clocked-results-model-vs-code",
                f"step {i + 1}: real code gives {outs[i]!r}, the combined results/throttle model gives "
                f"{lean_outs[i]!r}; no direct oracle fails", {"yhist": hist, "real": outs, "model": lean_outs}), tags
    return None, tags


def shrink_yhist(chk, world, hist, sig, budget=200):
    cur = hist
    changed = True
    while changed and budget > 0:
        changed = False
        for i in range(len(cur["yops"])):
            cand = {"resume": cur.get("resume"), "yops": cur["yops"][:i] + cur["yops"][i + 1:]}
            if not cand["yops"] and cand["resume"] is None:
                continue
            budget -= 1
            r, _ = judge_yops(chk, world, cand)
            if r is not None and r[1] == sig:
                cur, changed = cand, True
                break
    return cur


def report_yhist(chk, world, r):
    kind, sig, what, rep = r
    seen = chk.extra.setdefault("_reported", set())
    if (kind, sig) in seen:
        return
    seen.add((kind, sig))
    small = shrink_yhist(chk, world, rep["yhist"], sig)
    r2, _ = judge_yops(chk, world, small)
    if r2 is not None and r2[1] == sig:
        kind, sig, what, rep = r2
    chk.fail(kind, sig, what, rep)


Y_BRANCHES = ["Y-resume-sent", "Y-resume-throttled", "Y-resume-raised", "Y-reopen-sent", "Y-reopen-unsent",
              "Y-reopen-final", "Y-reopen-then-read-inside-delay", "Y-results-read-sent", "Y-results-second-read-sent",
              "Y-refused", "Y-throttled-refused", "Y-throttled-fetch", "Y-cached-return", "Y-mapped", "Y-child"]


def check_clocked_results(chk, world, n):
    corpus = load_corpus("yhist")
    hists = corpus + [gen_yops(chk.rng) for _ in range(n)]
    reqs = []
    for h in hists:
        req = {"fixed": True, "delay": DELAY_Q, "yops": h["yops"]}
        if h.get("resume") is not None:
            req["resume"] = h["resume"]
        reqs.append(req)
    reps = chk.lean.ask_many(reqs)
    for h, rep in zip(hists, reps):
        chk.evaluations += 1
        chk.count("source", "clocked-results")
        if "err" in rep:
            chk.fail("broken", "driver-rejects", rep["err"], {"yhist": h})
            continue
        r, tags = judge_yops(chk, world, h, rep["outs"])
        for t in tags:
            chk.branch(t)
        chk.case(json.dumps(h, sort_keys=True), any(k[2][0] in ("G", "reopen") for k in h["yops"]),
                 {"source": "clocked-results", "len": len(h["yops"]), "resume": h.get("resume"), "ops": h["yops"][:3]})
        if r is not None:
            report_yhist(chk, world, r)


# ------------------------------------------------------------------------------------------------
# ------------------------------------------------------------------------------------------------
# part 12: status answers by SHAPE (Model/C17W.lean: `readStatusW`) — the full machine, scripted clock, the
# throttle transparent; the answer to a "pw" read is a JSON object lacking the keys listed in its fifth field
# ------------------------------------------------------------------------------------------------
DROPPABLE = ["status", "progress", "progress_message", "status_message"]
W_BRANCHES = ["W-keyerror-no-status", "W-keyerror-progress", "W-keyerror-phase", "W-keyerror-message-final",
              "W-irrelevant-drop-read", "W-silent-after-malformed-final", "W-absorbed-after-malformed",
              "W-guard-after-keyerror", "W-keyerror-on-streak", "W-streak-judged"]


def raw_to_lean(r):
    if r[0] != "s":
        return r
    p, c, st, d, drops = r[2]
    return ["sw", None if "status" in drops else r[1], None if "progress" in drops else p,
            "progress_message" not in drops, "status_message" not in drops, c, st, d]


def wops_request(hist):
    return {"fixed": True, "t0": hist["t0"], "name": hist["name"],
            "wops": [[t, (["pw", o[1], raw_to_lean(o[2])] if o[0] == "pw" else o)] for t, o in hist["wops"]]}


def run_wops(world, clock, hist):
    """-> (outs, hits, tags): one history of the full machine with shaped status answers on the real code"""
    clock.now = float(hist["t0"])
    job = world.RemoteJob({"payload": {}}, world.handler, hist["name"])
    outs, hits, tags = [], [], set()
    creates = 0
    final = None            # final status the object has shown
    lo = hi = 0             # failed status requests in a row: since the last 200 answer / the last complete 200 answer
    last_keyerror = False
    malformed_final = False
    for k, (t, op) in enumerate(hist["wops"], 1):
        clock.now = float(t)
        kind = op[0]
        sent_before = cid(job) != "N"
        prev = shown(job)
        if kind == "pw":
            world.begin(k, [op[2]], None)
            try:
                v = op[1]
                res = ("st:" + job.status()) if v == 0 else ("flag:1" if getattr(job, VIEWS[v]) else "flag:0")
            except Exception as e:  # noqa: BLE001
                res = exc_str(world, e, "p")
            new_job = None
        else:
            res, new_job = do_op(world, job, k, op)
        calls, served = list(world.calls), list(world.served)
        # ---- direct oracles: the property statement on the real trace
        nc = calls.count("C")
        if nc and creates + nc > 1:
            hits.append(("sent-twice", k, f"step {k}: create_job called again for a job object already submitted"))
        creates += nc
        nstatus = sum(1 for c in calls if c[0] == "S")
        if final is not None and nstatus:
            hits.append(("polled-after-final", k, f"step {k}: status request sent although the job had shown {final}"))
        if sent_before and final is None and kind != "x" and not nstatus:
            hits.append(("stopped-polling-before-final", k,
                         f"step {k}: {OP_NAME.get(kind, 'the status read')} on job {job.id} showing {prev} (not final) "
                         f"sent no status request (result {res})"))
        if kind in ("p", "pw") and sent_before and final is None and nstatus != 1:
            hits.append(("status-read-request-count", k, f"step {k}: a status read sent {nstatus} status requests"))
        for i, r in enumerate(served):
            is_last = i == len(served) - 1
            if r[0] == "s":
                drops = r[2][4] if len(r) > 2 and isinstance(r[2], list) and len(r[2]) > 4 else []
                lo = 0
                if not drops:
                    hi = 0
                    if is_last and res == "exc:KeyError":
                        hits.append(("unexpected-exception", k,
                                     f"step {k}: KeyError on a status answer that carries every key"))
                continue
            lo += 1
            hi += 1
            fatal = r[0] == "h" and r[1] not in TRANSIENT
            want = "exc:ConnectionError" if r[0] == "c" else f"exc:HTTPError:{r[1]}"
            did_raise = is_last and calls[-1][0] == "S" and res == want
            if fatal or lo > MAX_ABSORBED:         # whatever a malformed 200 answer counts for: must be raised
                tags.add("W-streak-judged")
                if not did_raise:
                    hits.append(("fatal-http-absorbed" if fatal and lo <= MAX_ABSORBED else "streak-absorbed-after-max",
                                 k, f"step {k}: failed status request number {lo} ({want[4:]}) was not raised "
                                    f"(result {res})"))
            elif hi <= MAX_ABSORBED:               # … must be absorbed
                tags.add("W-streak-judged")
                if did_raise:
                    hits.append(("transient-not-absorbed", k,
                                 f"step {k}: transient failure number {hi} of the status request was raised ({res})"))
            elif not did_raise:
                tags.add("W-absorbed-after-malformed")   # the code's reading: the malformed answer restarted the count
        if res.startswith("exc:") and not res.startswith(("exc:HTTPError", "exc:ConnectionError", "exc:RuntimeError",
                                                          "exc:ScriptExhausted", "exc:KeyError", "exc:TypeError")) \
                and not (kind == "x" and res == "exc:AssertionError"):
            hits.append(("unexpected-exception", k, f"step {k}: the call raised {res[4:]}"))
        # ---- coverage
        if kind == "pw" and op[2][0] == "s":
            drops = op[2][2][4]
            if res == "exc:KeyError":
                if "status" in drops:
                    tags.add("W-keyerror-no-status")
                elif shown(job) in ("RUNNING", "CANCEL_REQUESTED"):
                    tags.add("W-keyerror-progress" if "progress" in drops else "W-keyerror-phase")
                elif shown(job) in FAILED_NAMES:
                    tags.add("W-keyerror-message-final")
                    malformed_final = True
                if hi > 0:
                    tags.add("W-keyerror-on-streak")
            elif drops and served:
                tags.add("W-irrelevant-drop-read")
        if kind in ("p", "pw") and malformed_final and not calls and final is not None:
            tags.add("W-silent-after-malformed-final")
        if last_keyerror and kind in ("c", "r", "g"):
            tags.add("W-guard-after-keyerror")
        last_keyerror = res == "exc:KeyError"
        if kind == "r" and new_job is not None and op[4]:
            job, creates, final, lo, hi, malformed_final = new_job, 1, None, 0, 0, False
        sh = shown(job)
        if final is not None and sh != final:
            hits.append(("final-status-changed", k, f"step {k}: status shown went from {final} to {sh}"))
        if sh in FINAL_NAMES and cid(job) != "N":
            final = sh
        outs.append(f"{res}|{cid(job)}|{sh}|{','.join(calls)}" + full_suffix(world, job))
    if world.anomalies:
        hits.append(("handler-glue", 0, world.anomalies[0]))
        world.anomalies = []
    return outs, hits, tags


def rand_raw_answer(rng, fail_p):
    x = rng.random()
    if x < fail_p:
        y = rng.random()
        return CONN if y < 0.5 else H(rng.choice(TRANSIENT)) if y < 0.9 else H(rng.choice([400, 404, 500, 503]))
    s = rng.choice(CANON) if rng.random() < 0.85 else rng.choice(ODD)
    start = rng.choice([None, 0, 2, 7])
    dur = rng.choice([None, 0, 3]) if (start or rng.random() < 0.1) else None
    body = [rng.randrange(0, 5), rng.choice([None, 0, 1, 5]), start, dur]
    y = rng.random()
    if y < 0.35:
        drops = []
    elif y < 0.8:
        drops = [rng.choice(DROPPABLE)]
    else:
        drops = sorted(rng.sample(DROPPABLE, rng.choice([2, 3, 4])))
    return ["s", s, body + [drops]]


def gen_wops(rng):
    t = 10
    wops = []
    if rng.random() < 0.92:
        wops.append([t, ["x", OK]])
    elif rng.random() < 0.5:
        wops.append([t, ["x", H(400)]])
    fail_p = rng.choice([0.1, 0.25, 0.6, 0.8])
    for _ in range(rng.randrange(2, 15)):
        t += rng.choice([0, 1, 2, 5, 12])
        x = rng.random()
        if x < 0.6:
            op = ["pw", rng.randrange(0, 6), rand_raw_answer(rng, fail_p)]
        elif x < 0.72:
            op = ["p", rng.randrange(0, 6), rand_answer_full(rng, fail_p, True)]
        elif x < 0.8:
            op = ["c", rand_answer_full(rng, fail_p, True), rand_h(rng)]
        elif x < 0.88:
            op = ["r", rand_answer_full(rng, fail_p, True), rand_answer_full(rng, fail_p, True), rand_h(rng),
                  rng.random() < 0.5]
        elif x < 0.96:
            op = ["g", rand_answer_full(rng, fail_p, True), rand_answer_full(rng, fail_p, True), rand_rh(rng)]
        else:
            op = ["x", rand_h(rng)]
        wops.append([t, op])
    return {"t0": 10, "name": rng.choice(NAMES), "wops": wops}


def wops_alphabet():
    b = [2, 5, 2, None]
    return [["pw", 0, ["s", "running", b + [["progress"]]]], ["pw", 5, ["s", "cancel_requested", b + [["progress_message"]]]],
            ["pw", 0, ["s", "error", [4, 5, 2, 3, ["status_message"]]]], ["pw", 1, ["s", "canceled", b + [["status_message"]]]],
            ["pw", 0, ["s", "waiting", b + [["status"]]]],
            ["pw", 0, ["s", "completed", [4, 5, 2, 3, ["progress", "progress_message", "status_message"]]]],
            ["pw", 4, ["s", "waiting", b + [["progress", "status_message"]]]], ["pw", 0, ["s", "running", b + [[]]]],
            ["pw", 0, CONN], ["pw", 0, H(429)],
            ["c", ["s", "waiting", [0, 1, None, None]], OK], ["g", CONN, CONN, ["missing"]],
            ["r", CONN, CONN, OK, True]]


def judge_wops(chk, world, clock, hist, lean_outs=None):
    outs, hits, tags = run_wops(world, clock, hist)
    if lean_outs is None:
        rep = chk.lean.ask(wops_request(hist))
        if "err" in rep:
            return ("broken", "driver-rejects", f"Lean driver rejected the shaped history: {rep['err']}",
                    {"whist": hist}), tags
        lean_outs = rep["outs"]
    if hits:
        sig, k, what = hits[0]
        return ("violation", sig, what, {"whist": hist, "real": outs, "model": lean_outs}), tags
    i = next((i for i, (x, y) in enumerate(zip(outs, lean_outs)) if x != y), None)
    if i is not None:
        return ("broken", "shaped-model-vs-code",
                f"step {i + 1} ({hist['wops'][i][1]}): real code gives {outs[i]!r}, model gives {lean_outs[i]!r}; "
                f"no direct oracle fails", {"whist": hist, "real": outs, "model": lean_outs}), tags
    return None, tags


def report_whist(chk, world, clock, r):
    kind, sig, what, rep = r
    seen = chk.extra.setdefault("_reported", set())
    if (kind, sig) in seen:
        return
    seen.add((kind, sig))
    hist = rep["whist"]
    small = shrink_list(lambda ws: judge_wops(chk, world, clock, dict(hist, wops=ws)), hist["wops"], sig)
    r2, _ = judge_wops(chk, world, clock, dict(hist, wops=small))
    if r2 is not None and r2[1] == sig:
        kind, sig, what, rep = r2
    chk.fail(kind, sig, what, rep)


def check_shaped(chk, world, n):
    t0 = time.time()
    hists = [dict(h) for h in load_corpus("whist")]
    hists += [gen_wops(chk.rng) for _ in range(n)]
    alpha = wops_alphabet()
    nex = 0
    for L in range(1, 4):
        for combo in itertools.product(alpha, repeat=L):
            hists.append({"t0": 10, "name": "verif", "exh": True,
                          "wops": [[10, ["x", OK]]] + [[15 + 5 * i, o] for i, o in enumerate(combo)]})
            nex += 1
    reps = chk.lean.ask_many([wops_request(h) for h in hists])
    with fullclock(world) as clock:
        for h, rep in zip(hists, reps):
            exh = h.pop("exh", False)
            chk.evaluations += 1
            chk.count("source", "shaped-exhaustive" if exh else "shaped-random")
            if "err" in rep:
                chk.fail("broken", "driver-rejects", rep["err"], {"whist": h})
                continue
            r, tags = judge_wops(chk, world, clock, h, rep["outs"])
            for t in tags:
                chk.branch(t)
            chk.case("W" + json.dumps(h["wops"]), any(o[0] == "pw" for _, o in h["wops"]),
                     None if exh else {"source": "shaped", "len": len(h["wops"]), "wops": h["wops"][:4]})
            if r is not None:
                report_whist(chk, world, clock, r)
    chk.extra["shaped_answers"] = {"random_histories": n, "exhaustive_histories": nex, "letters": len(alpha),
                                   "seconds": round(time.time() - t0, 1)}


def load_corpus(key="ops"):
    out = []
    for p in sorted(glob.glob(os.path.join(core.VERIF, "corpus", "C17", "*.json"))):
        d = json.load(open(p))
        if key in d:
            out.append(d[key])
    return out


def setup(chk):
    chk.lean = core.LeanDriver("C17")
    chk.assumptions = [
        "RemoteJob.STATUS_REFRESH_DELAY is set to -1 by the harness so that every status read is due (main model); "
        "the throttle is checked separately against the clocked model with a scripted clock and the shipped delay; "
        "'keeps polling until final' is judged directly as: with the transparent throttle every status-dependent call "
        "on a sent job not showing a final status sends a status request, and with the shipped delay a read more than "
        "the delay after the last request does",
        "the network is replaced at requests.get/requests.post of perceval.runtime.rpc_handler by a scripted fake "
        "returning genuine requests.Response objects; HTTP errors carry codes 400..599; `requests` itself is trusted",
        "server status strings are ASCII; in the main and full machines results carry no job_context and the time / "
        "progress fields of the status body are not compared (main machine); the results machine (part 9) feeds "
        "get_results with the content shapes of Model/C17R.lean and a mapping function injected into sys.modules that "
        "records its arguments; the clocked-operations part (10) serves the status answers by the position of the read "
        "within the operation (first read r1, second r2), as the model assigns them; part 11 (whole object under the "
        "clock) does the same, re-creates jobs only when they carry request data (constructor-made jobs and their "
        "children), and starts a quarter of its histories with from_id at a scripted time",
        "job ids, status messages and result tokens are the position of the step in the history on both sides "
        "(freshness of a rerun id is the server's business)",
        "full machine: times are integers, progress a multiple of 1/4; the JobStatus of a sent job is read through the "
        "public `status` property under an enormous STATUS_REFRESH_DELAY (no request, no state change); direct oracles "
        "assume a server that never reports a duration without a start time (bodies violating it are generated, "
        "compared with the model, not judged); rerun() raising TypeError on a job without request data (from_id) is "
        "compared with the model, not judged; refresh_progress_delay of re-created objects is the constructor default",
        "the model compared against is the REPAIRED behaviour (fixes/C17-*.diff); on a tree without the repairs the "
        "check reports the two known violations",
    ]
    chk.rule = ("histories = lists of client actions (execute_async, status()/is_* read, cancel, rerun with/without "
                "switching to the new job, get_results) each carrying the server's answers (status strings incl. "
                "unknown/odd-case ones, HTTP 408/409/421/423/429, other HTTP codes, connection errors; "
                "ok/refused/unreachable create, cancel, rerun; results present/empty/missing/refused); exhaustive over "
                "the stated alphabets up to the stated length, plus random long histories; distinct = distinct "
                "histories; non-trivial = scripts at least one failing status answer and uses at least one "
                "non-status operation")
    chk.required_branches = [
        "absorbed", "raised-at-max", "raised-beyond-max", "fatal", "reset", "final-short-circuit", "second-read",
        "execute-refused", "create-failed", "cancel-accepted", "cancel-refused", "unsent-cancel", "rerun-accepted",
        "rerun-switch", "rerun-refused", "results-fetched", "results-cached", "results-refused", "failed-message",
        "unknown-string", "throttled", "due-read", "whitelist-probe",
        "last-read-checked", "status-kept-checked", "guard-on-kept-status", "queued-body", "cancel-while-queued",
        "cancel-requested-after-queued-cancel", "lifecycle",
        # an unfinished job keeps polling: every non-final status was shown before a status-dependent call, the server
        # then said something else, guards were evaluated on a job showing UNKNOWN, overdue clocked reads were judged
        "poll-required-checked", "guard-after-unknown", "clock-due-read-checked", "clock-due-read-after-unknown",
        *["polled-from-" + s for s in sorted(NONFINAL_NAMES)], *["moved-on-from-" + s for s in sorted(NONFINAL_NAMES)],
        # the full machine
        "full-history", "to-dict", "to-dict-no-body", "reopen-sent", "reopen-unsent", "reopen-final", "reopen-no-body",
        "resume-read", "resume-fault", "name-empty", "name-not-a-string", "rerun-no-body", "time-type-error",
        "sync-accepted", "sync-refused", "sync-raised", "sync-absorbed", "sync-pending", "sync-returned",
        "sync-job-failed", "sync-clock-spaced", "sync-clock-throttled",
        # the results machine and the clocked operations (Model/C17R.lean)
        *R_BRANCHES, *K_BRANCHES,
        # results under the throttle, re-creation under the clock (Model/C17Y.lean)
        *Y_BRANCHES,
        # status answers by shape (Model/C17W.lean)
        *W_BRANCHES]
    return World()


def probe_whitelist(chk, world):
    """every HTTP code 400..599 on a fresh streak and on a streak of three: absorbed iff whitelisted"""
    reqs, hists = [], []
    for code in range(400, 600):
        for pre in (0, 3):
            ops = [["x", OK]] + [["p", 0, CONN]] * pre + [["p", 0, H(code)], ["p", 0, S("running")]]
            hists.append(ops)
            reqs.append({"fixed": True, "ops": ops})
    reps = chk.lean.ask_many(reqs)
    for ops, rep in zip(hists, reps):
        chk.branch("whitelist-probe")
        handle(chk, world, ops, "whitelist", rep.get("outs"))


def run(chk: core.Check):
    tsec = {}
    tm = time.time()

    def lap(name):
        nonlocal tm
        tsec[name] = round(time.time() - tm, 1)
        tm = time.time()

    world = setup(chk)
    found = {"count": collections.Counter(), "examples": collections.defaultdict(list)}
    lap("setup")
    # 1. corpus
    for ops in load_corpus():
        handle(chk, world, ops, "corpus")
    # 2. whitelist
    probe_whitelist(chk, world)
    # 3. random long histories
    n = chk.pick(1500, 12000)
    max_len = chk.pick(40, 200)
    hists = [(gen_history(chk.rng, max_len), "random") for _ in range(n)]
    # 3b. histories against a server that behaves like one (queue -> run -> end, cancel in the queue, rerun)
    hists += [(gen_lifecycle(chk.rng, chk.pick(14, 40)), "lifecycle") for _ in range(chk.pick(1200, 8000))]
    reps = chk.lean.ask_many([{"fixed": True, "ops": h} for h, _ in hists])
    for (h, source), rep in zip(hists, reps):
        if "err" in rep:
            chk.fail("broken", "driver-rejects", rep["err"], {"ops": h})
            continue
        if source == "lifecycle":
            chk.branch("lifecycle")
        handle(chk, world, h, source, rep["outs"])
    lap("corpus+whitelist+random")
    # 4. exhaustive enumeration
    parts = [(alphabet_full(), chk.pick(3, 4), "full"),
             (alphabet_deep(chk.thorough), chk.pick(7, 8), "deep")]
    if chk.thorough:
        parts.append((alphabet_reduced(), 5, "reduced"))
    nproc = max(2, min(chk.pick(8, 14), (os.cpu_count() or 4) - 1))
    ctx = mp.get_context("spawn")
    distinct = nontriv = wreq = 0
    with ctx.Pool(nproc, initializer=_winit) as pool:
        for alpha, length, label in parts:
            d, nt, lr = exhaustive(chk, pool, alpha, length, label, found)
            distinct += d
            nontriv += nt
            wreq += lr
    chk.exhaustive = True
    lap("exhaustive")
    chk.extra["distinct_nontrivial"] = len(chk.sigs) + nontriv
    chk.extra["distinct_histories"] = len(chk.sigs) + distinct
    lap("sync-clock")
    chk.extra["section_seconds"] = tsec
    chk.extra["lean_requests_workers"] = wreq
    chk.extra["exhaustive_disagreements"] = dict(found["count"])
    # 5. triage of what the exhaustive part found (violations first)
    order = sorted(found["examples"].items(), key=lambda kv: 0 if kv[1][0][0] == "violation" else 1)
    for sig, recs in order:
        rec = min(recs, key=lambda r: len(r[3]))
        r, _ = judge(chk, world, rec[3])
        if r is None:
            r = ("broken", "unstable", f"worker reported {rec[1]} ({rec[2]}) but it does not reproduce", {"ops": rec[3]})
        report(chk, world, r)
    # 6. the throttle, against the clocked model (last, so that a defect both parts see is reported with a
    #    history replay)
    check_throttle(chk, world, chk.pick(300, 3000))
    lap("throttle")
    # 7. the full machine: time / progress fields, name, _to_dict / _from_dict / from_id, execute_sync
    check_full(chk, world)
    lap("full")
    # 8. execute_sync's polling loop under the real throttle
    t8 = time.time()
    check_sync_clock(chk, world, chk.pick(400, 4000))
    chk.extra["sync_clock"] = {"cases": chk.pick(400, 4000), "seconds": round(time.time() - t8, 1)}
    lap("sync-clock")
    # 9. results on the content of the answer (job_context / result_mapping / results_list, the cache)
    check_results(chk, world, chk.pick(1500, 12000))
    lap("results")
    # 10. every operation under the real throttle
    check_clocked_ops(chk, world, chk.pick(1200, 10000))
    lap("clocked-ops")
    # 11. results on the content of the answer under the real throttle; _from_dict(_to_dict()) / from_id under the clock
    check_clocked_results(chk, world, chk.pick(2000, 12000))
    lap("clocked-results")
    # 12. status answers lacking keys (KeyError out of the status read: not absorbed, not counted, status stored)
    check_shaped(chk, world, chk.pick(1500, 10000))
    lap("shaped-answers")
    chk.extra["distinct_nontrivial"] = len(chk.sigs) + nontriv
    chk.extra["distinct_histories"] = len(chk.sigs) + distinct
    chk.extra["section_seconds"] = tsec
    chk.extra.pop("_reported", None)


def replay(chk, data):
    world = setup(chk)
    chk.required_branches = []
    chk.rule = "replay of one stored history"
    rep = data["replay"]
    if "rops" in rep:
        r, _ = judge_rops(chk, world, rep["rops"])
        chk.evaluations += 1
        if r is not None:
            report_list(chk, lambda ops: judge_rops(chk, world, ops), r, "rops")
        chk.extra.pop("_reported", None)
        return
    if "whist" in rep:
        with fullclock(world) as clock:
            r, _ = judge_wops(chk, world, clock, rep["whist"])
            chk.evaluations += 1
            if r is not None:
                report_whist(chk, world, clock, r)
        chk.extra.pop("_reported", None)
        return
    if "yhist" in rep:
        r, _ = judge_yops(chk, world, rep["yhist"])
        chk.evaluations += 1
        if r is not None:
            report_yhist(chk, world, r)
        chk.extra.pop("_reported", None)
        return
    if "kops" in rep:
        r, _ = judge_kops(chk, world, rep["kops"])
        chk.evaluations += 1
        if r is not None:
            report_list(chk, lambda ks: judge_kops(chk, world, ks), r, "kops")
        chk.extra.pop("_reported", None)
        return
    if "full" in rep:
        with fullclock(world) as clock:
            r, _ = judge_full(chk, world, clock, rep["full"])
            chk.evaluations += 1
            if r is not None:
                report_full(chk, world, clock, r)
        chk.extra.pop("_reported", None)
        return
    if "syncclock" in rep:
        with clocked(world) as clock:
            clock.world = world
            r = judge_sync_clock(chk, world, clock, rep["syncclock"])
            chk.evaluations += 1
            if r is not None:
                chk.fail(*r)
        return
    if "clock" in rep:
        with clocked(world) as clock:
            r, _ = judge_clock(chk, world, clock, rep["clock"])
            chk.evaluations += 1
            if r is not None:
                report_clock(chk, world, clock, r)
        chk.extra.pop("_reported", None)
        return
    handle(chk, world, rep["ops"], "replay")
    chk.extra.pop("_reported", None)
