"""./check Cxx --tier quick|thorough [--replay file]

1. rebuild Props/Cxx (kernel re-checks every proof), audit axioms, grep forbidden constructs
2. corpus replay + correspondence run against /repo's working tree (seeded by VERIF_SEED)
3. failing-input search on disagreement, verdict, evidence/Cxx.json
"""
import argparse
import importlib
import json
import os
import random
import sys
import time
import threading
import traceback

from . import core


def escalate(chk, mod):
    """Source drift: an anchored file of the property is not the one the model was last validated against
    (anchors.json).  A quiet quick run is then not the end: the correspondence is run again with fresh seeds
    while a time budget lasts (VERIF_ESCALATE_BUDGET seconds of total run time, default 280), so that a change
    which needs a rarer input has a better chance to meet it.  On the recorded tree nothing happens."""
    if chk.thorough or os.environ.get("VERIF_NO_ESCALATE"):
        return
    drift = core.source_drift(chk.prop)
    chk.extra["source_drift"] = drift
    force = int(os.environ.get("VERIF_ESCALATE_FORCE", "0") or 0)   # development: that many extra rounds, drift or not
    if not drift and not force:
        return
    budget = float(os.environ.get("VERIF_ESCALATE_BUDGET", "280"))
    rounds, last = 0, time.time() - chk.t0
    while not chk.failures and (rounds < force if force else (time.time() - chk.t0) + 1.15 * last < budget):
        rounds += 1
        t = time.time()
        if chk.lean is not None:
            chk.lean.close()
            chk.lean = None
        chk.rng = random.Random(chk.seed * 1000003 + 7919 * rounds)
        chk.round = rounds
        mod.run(chk)
        last = time.time() - t
    chk.extra["escalation_rounds"] = rounds


def main():
    ap = argparse.ArgumentParser()
    ap.add_argument("prop")
    ap.add_argument("--tier", default=os.environ.get("VERIF_TIER", "quick"), choices=["quick", "thorough"])
    ap.add_argument("--replay", default=None)
    ap.add_argument("--no-lean-audit", action="store_true", help="(development) skip build/audit")
    args = ap.parse_args()
    seed = int(os.environ.get("VERIF_SEED", "0") or 0)
    prop = args.prop.upper()
    chk = core.Check(prop, args.tier, seed)
    mod = importlib.import_module(f"harness.{prop.lower()}")

    lean_res = {}

    def lean_job():
        try:
            lean_res.update(core.lean_build_and_audit(prop, chk.thorough))
        except Exception as e:  # timeouts etc.
            lean_res.update({"ok": False, "obligations": 0, "discharged": 0, "names": [],
                             "log": traceback.format_exc(), "failed": [f"lean build/audit crashed: {e}"]})

    # the build must be complete before a driver is started (drivers import the built .olean files)
    rc, out = core._run(["lake", "build", f"PercevalModel.Props.{prop}", f"PercevalModel.Model.{prop}"])
    th = None
    if not args.no_lean_audit:
        th = threading.Thread(target=lean_job)
        th.start()
    try:
        if args.replay:
            data = json.load(open(args.replay))
            mod.replay(chk, data)
        else:
            mod.run(chk)
            escalate(chk, mod)
    except core.LeanError as e:
        chk.fail("broken", "lean-driver", f"model driver failed: {e}", {"error": str(e)})
    except Exception as e:
        traceback.print_exc()
        drift = [] if args.replay else core.source_drift(prop)
        if not drift:
            if th:
                th.join()
            sys.exit(2)
        # The correspondence could not be carried out AND the code under the model is not the code it was last validated
        # against (anchors.json): the harness met behaviour of the implementation it cannot evaluate.  The property is
        # then no longer shown to hold: reported as a broken correspondence (no-failing-input-found) naming where the
        # evaluation stopped, instead of a harness error.  On the recorded tree the same exception stays exit 2.
        tb = traceback.extract_tb(e.__traceback__)
        where = tb[-1] if tb else None
        chk.fail("broken", "correspondence-not-evaluable",
                 f"the correspondence for {prop} stopped with {type(e).__name__}: {str(e)[:200]}"
                 + (f" at {os.path.basename(where.filename)}:{where.lineno} ({where.name})" if where else "")
                 + f"; anchored files that differ from the recorded tree: {drift}",
                 {"correspondence": f"harness/{prop.lower()}.py run", "exception": type(e).__name__,
                  "source_drift": drift})
    finally:
        if chk.lean is not None:
            chk.lean.close()
    if th:
        th.join()
    rc = chk.finish(lean_res if lean_res else None)
    sys.exit(rc)


if __name__ == "__main__":
    main()
