"""Type-directed generators built on Perceval's own vocabulary.

Everything is generated as a JSON-able *spec* first (so it can be shrunk, stored in a replay file and
rebuilt), and turned into Perceval objects by `build_*`.
"""
from __future__ import annotations

import math
import random
from fractions import Fraction

import numpy as np

from .core import TRIPLES, rational_cs, angle_of, rat


# ------------------------------------------------------------------------------------------------
# exact complex rationals (for Cayley-rational unitaries)
# ------------------------------------------------------------------------------------------------
class QC:
    __slots__ = ("re", "im")

    def __init__(self, re=0, im=0):
        self.re = Fraction(re)
        self.im = Fraction(im)

    def __add__(self, o):
        o = _qc(o)
        return QC(self.re + o.re, self.im + o.im)

    __radd__ = __add__

    def __sub__(self, o):
        o = _qc(o)
        return QC(self.re - o.re, self.im - o.im)

    def __rsub__(self, o):
        return _qc(o) - self

    def __neg__(self):
        return QC(-self.re, -self.im)

    def __mul__(self, o):
        o = _qc(o)
        return QC(self.re * o.re - self.im * o.im, self.re * o.im + self.im * o.re)

    __rmul__ = __mul__

    def conj(self):
        return QC(self.re, -self.im)

    def inv(self):
        d = self.re * self.re + self.im * self.im
        return QC(self.re / d, -self.im / d)

    def __truediv__(self, o):
        return self * _qc(o).inv()

    def is_zero(self):
        return self.re == 0 and self.im == 0

    def __complex__(self):
        return complex(float(self.re), float(self.im))

    def __eq__(self, o):
        o = _qc(o)
        return self.re == o.re and self.im == o.im

    def __hash__(self):
        return hash((self.re, self.im))

    def __repr__(self):
        return f"({self.re}+{self.im}i)"

    def json(self):
        return [rat(self.re), rat(self.im)]


def _qc(x):
    return x if isinstance(x, QC) else QC(x)


def qmat_mul(a, b):
    n, k, m = len(a), len(b), len(b[0])
    return [[sum((a[i][l] * b[l][j] for l in range(k)), QC()) for j in range(m)] for i in range(n)]


def qmat_eye(n):
    return [[QC(1 if i == j else 0) for j in range(n)] for i in range(n)]


def qmat_inv(a):
    n = len(a)
    m = [list(r) + e for r, e in zip(a, qmat_eye(n))]
    for c in range(n):
        p = next(r for r in range(c, n) if not m[r][c].is_zero())
        m[c], m[p] = m[p], m[c]
        iv = m[c][c].inv()
        m[c] = [x * iv for x in m[c]]
        for r in range(n):
            if r != c and not m[r][c].is_zero():
                f = m[r][c]
                m[r] = [x - f * y for x, y in zip(m[r], m[c])]
    return [r[n:] for r in m]


def cayley_unitary(rng: random.Random, n: int, den_max=4):
    """Exactly unitary matrix over Q[i]: (I - S)(I + S)^-1 with S rational skew-Hermitian."""
    s = [[QC() for _ in range(n)] for _ in range(n)]
    for i in range(n):
        s[i][i] = QC(0, Fraction(rng.randint(-3, 3), rng.randint(1, den_max)))
        for j in range(i + 1, n):
            z = QC(Fraction(rng.randint(-3, 3), rng.randint(1, den_max)),
                   Fraction(rng.randint(-3, 3), rng.randint(1, den_max)))
            s[i][j] = z
            s[j][i] = -z.conj()
    eye = qmat_eye(n)
    a = [[eye[i][j] - s[i][j] for j in range(n)] for i in range(n)]
    b = [[eye[i][j] + s[i][j] for j in range(n)] for i in range(n)]
    return qmat_mul(a, qmat_inv(b))


def qmat_to_np(q):
    return np.array([[complex(z) for z in r] for r in q], dtype=complex)


def qmat_json(q):
    return [[z.json() for z in r] for r in q]


def qmat_from_json(rows):
    return [[QC(Fraction(z[0]), Fraction(z[1])) for z in r] for r in rows]


# ------------------------------------------------------------------------------------------------
# leaf specs
# ------------------------------------------------------------------------------------------------
def cs_json(cs):
    return [rat(cs[0]), rat(cs[1])]


def cs_angle(j) -> float:
    return math.atan2(float(Fraction(j[1])), float(Fraction(j[0])))


def gen_cs(rng, allow_zero=False):
    if allow_zero and rng.random() < 0.15:
        return [rat(1), rat(0)]
    return cs_json(rational_cs(rng))


def gen_leaf(rng: random.Random, maxw: int, kinds=("BS", "PS", "PERM", "U", "UH", "Barrier")):
    """A random elementary-component spec of width <= maxw."""
    ks = [k for k in kinds if not (k == "BS" and maxw < 2)]
    k = rng.choice(ks)
    if k == "BS":
        return {"t": "BS", "conv": rng.choice(["Rx", "Ry", "H"]), "theta": gen_cs(rng),
                "tl": gen_cs(rng, True), "bl": gen_cs(rng, True), "tr": gen_cs(rng, True), "br": gen_cs(rng, True)}
    if k == "PS":
        return {"t": "PS", "phi": gen_cs(rng)}
    if k == "PERM":
        n = rng.randint(1, min(maxw, 5))
        p = list(range(n))
        rng.shuffle(p)
        return {"t": "PERM", "perm": p}
    if k == "U":
        n = rng.randint(1, min(maxw, 3))
        return {"t": "U", "rows": qmat_json(cayley_unitary(rng, n))}
    if k == "UH":
        n = rng.randint(1, min(maxw, 4))
        return {"t": "UH", "n": n, "seed": rng.randrange(1 << 30)}
    if k == "Barrier":
        return {"t": "Barrier", "m": rng.randint(1, maxw)}
    raise ValueError(k)


def leaf_width(spec) -> int:
    t = spec["t"]
    if t == "BS":
        return 2
    if t == "PS":
        return 1
    if t == "PERM":
        return len(spec["perm"])
    if t == "U":
        return len(spec["rows"])
    if t == "UH":
        return spec["n"]
    if t == "Barrier":
        return spec["m"]
    raise ValueError(t)


def haar(n, seed):
    r = np.random.RandomState(seed)
    z = (r.randn(n, n) + 1j * r.randn(n, n)) / math.sqrt(2)
    q, rr = np.linalg.qr(z)
    d = np.diagonal(rr)
    return q * (d / np.abs(d))


def build_leaf(spec):
    import perceval as pcvl
    from perceval.components import BS, PS, PERM, Unitary
    from perceval.components.unitary_components import Barrier, BSConvention
    t = spec["t"]
    if t == "BS":
        return BS(theta=2 * cs_angle(spec["theta"]), phi_tl=cs_angle(spec["tl"]), phi_bl=cs_angle(spec["bl"]),
                  phi_tr=cs_angle(spec["tr"]), phi_br=cs_angle(spec["br"]), convention=BSConvention[spec["conv"]])
    if t == "PS":
        return PS(cs_angle(spec["phi"]))
    if t == "PERM":
        return PERM(list(spec["perm"]))
    if t == "U":
        return Unitary(pcvl.Matrix(qmat_to_np(qmat_from_json(spec["rows"]))))
    if t == "UH":
        return Unitary(pcvl.Matrix(haar(spec["n"], spec["seed"])))
    if t == "Barrier":
        return Barrier(spec["m"])
    raise ValueError(t)


def leaf_matrix_json(obj):
    """The leaf's *own* numeric matrix, as exact dyadic rationals."""
    from .core import mat
    return mat(np.array(obj.compute_unitary(use_symbolic=False), dtype=complex).tolist())


# ------------------------------------------------------------------------------------------------
# shrinking
# ------------------------------------------------------------------------------------------------
def shrink_list(items: list, still_fails, max_rounds=200):
    """Greedy delta debugging on a list: drop chunks, then single elements, while the failure persists."""
    cur = list(items)
    n = max(1, len(cur) // 2)
    rounds = 0
    while n >= 1 and rounds < max_rounds:
        i = 0
        progressed = False
        while i < len(cur) and rounds < max_rounds:
            cand = cur[:i] + cur[i + n:]
            rounds += 1
            ok = False
            try:
                ok = bool(cand) and still_fails(cand)
            except Exception:
                ok = False
            if ok:
                cur = cand
                progressed = True
            else:
                i += n
        if n == 1 and not progressed:
            break
        n = max(1, n // 2) if not progressed else n
        if n == 1 and progressed:
            continue
    return cur
