"""
C15, extension 8 — the constructor layer of `Detector` (Lean: Model/C15Det.lean, Props/C15.lean namespace DetC).

Per case (`n_wires`, `max_detections` each `None` or an int: negative, 0, small, around +-2^31; built through the
constructor or a factory; serialised with compress False / True / inside a list):
  * real `Detector(nw, md)` raises AssertionError  <->  model `ctor` = none
  * (`_wires`, `_max`), `max_detections`, `type`     ==   model state / `dtype`
  * `serialize` raises ValueError (32-bit field)     <->  model `enc` = none; message fields == model fields
  * what `deserialize` rebuilds (state, type, name)  ==   model `dec`
  * direct oracle on the real objects (no model): the rebuilt detector has the same state, type and name and
    `detect(n)` gives the same outcome for n = 0..4 - except for a cap of 0, the boundary stated by the theorem
    `DetC.roundtrip_detector_exact_iff` (counted, compared with the model's `expected`).
Tampered messages (any two int32 fields) go to `deserialize_detector(bytes)` and to the model's `dec`.
"""
from __future__ import annotations

from base64 import b64decode

I31 = 2 ** 31
POOL = [None, -I31 - 1, -I31, -5, -1, 0, 1, 2, 3, 4, 7, I31 - 1, I31, 2 ** 40]
VIAS = ["ctor", "ppnr", "ctor", "ppnr", "threshold", "pnr"]
NAMES = ["PPNR", "d0", "", "Threshold"]
BROKEN = "model-vs-code:detector-ctor"
VIOLATION = "detector-ctor-roundtrip"


def gen_cases(rng, n_random):
    cases = []
    for nw in POOL:
        for md in POOL:
            cases.append({"nw": nw, "md": md, "via": "ctor" if nw is None or (len(cases) % 3) else "ppnr",
                          "name": NAMES[len(cases) % len(NAMES)], "how": ["plain", "zip", "list"][len(cases) % 3]})
    cases.append({"nw": None, "md": None, "via": "threshold", "name": None, "how": "plain"})
    cases.append({"nw": None, "md": None, "via": "pnr", "name": None, "how": "zip"})
    for _ in range(n_random):
        via = rng.choice(VIAS)
        if via in ("threshold", "pnr"):
            nw = md = None
        else:
            nw = rng.choice([None, rng.randint(-2, 9), rng.randint(1, 9), rng.randint(1, 9), rng.choice(POOL)])
            md = rng.choice([None, rng.randint(-3, 9), 0, rng.choice(POOL)] +
                            ([rng.randint(1, nw), nw, nw + 1] if isinstance(nw, int) and 0 < nw < 100 else []))
            if via == "ppnr" and nw is None:
                via = "ctor"
        cases.append({"nw": nw, "md": md, "via": via, "name": rng.choice(NAMES + [None]),
                      "how": rng.choice(["plain", "zip", "list"])})
    return cases


def model_args(c):
    if c["via"] == "threshold":
        return [1, None]
    if c["via"] == "pnr":
        return [None, None]
    return [c["nw"], c["md"]]


def build(c):
    from perceval.components import Detector
    if c["via"] == "threshold":
        d = Detector.threshold()
    elif c["via"] == "pnr":
        d = Detector.pnr()
    elif c["via"] == "ppnr":
        d = Detector.ppnr(c["nw"], c["md"])
    else:
        d = Detector(c["nw"], c["md"])
    if c["via"] == "ctor" or c.get("name") is not None:
        d.name = c["name"] if c.get("name") is not None else "det"
    return d


def state(d):
    return [d._wires, d._max]


def outcome(d, n):
    from perceval.utils import BasicState
    r = d.detect(n)
    if isinstance(r, BasicState):
        return {str(r): 1.0}
    return {str(k): float(v) for k, v in r.items()}


def same_outcomes(a, b):
    for n in range(5):
        try:
            oa = outcome(a, n)
        except Exception:
            return None     # the original itself cannot detect: nothing to compare
        ob = outcome(b, n)
        if set(oa) != set(ob) or any(abs(oa[k] - ob[k]) > 1e-9 for k in oa):
            return f"detect({n}) gives {ob} instead of {oa}"
    return None


def judge(c, m, counter):
    """-> None or (kind, signature, text).  The real round trip and the direct oracle come first (a failure of the
    property on the real objects is a violation whatever the model says), the comparison with the model second."""
    from perceval.serialization import serialize, deserialize
    from perceval.serialization import _schema_circuit_pb2 as pb

    def hit(k):
        counter[k] = counter.get(k, 0) + 1

    tag = f"Detector via {c['via']} ({c['nw']!r}, {c['md']!r})"
    # ---- the real code
    try:
        d = build(c)
    except AssertionError:
        d = None
    plain = text = e = None
    why = ""
    if d is not None:
        try:
            plain = serialize(d, compress=False)
            if c["how"] == "list":
                text = serialize([d, "x"], compress=False)
            else:
                text = plain if c["how"] == "plain" else serialize(d, compress=True)
        except ValueError:
            plain = None
    if plain is not None:
        try:
            e = deserialize(text)
            if c["how"] == "list":
                if not (isinstance(e, list) and len(e) == 2 and e[1] == "x"):
                    return "violation", VIOLATION, f"{tag}: the list around the detector came back as {e!r}"
                e = e[0]
        except AssertionError as ex:
            e = None
            why = str(ex)
        # ---- direct oracle, no model
        if e is None:
            return "violation", VIOLATION, f"{tag}: accepted and written, but the reader raises AssertionError: {why}"
        bad = None
        if type(e) is not type(d):
            bad = f"rebuilt object is a {type(e).__name__}"
        elif e.name != d.name:
            bad = f"name {d.name!r} became {e.name!r}"
        elif e.type != d.type:
            bad = f"type {d.type.name} became {e.type.name}"
        elif d._max == 0:
            # the stated boundary (DetC.roundtrip_detector_exact_iff): `0 or None`; everything but the cap survives
            if state(e) != [d._wires, d._wires]:
                bad = f"cap 0 came back as {state(e)}"
        elif state(e) != state(d):
            bad = f"(_wires, _max) {state(d)} became {state(e)}"
        elif d._max is None or d._max >= 1:
            bad = same_outcomes(d, e)
        if bad is not None:
            return "violation", VIOLATION, f"{tag}: {bad}"
    # ---- the model
    if d is None:
        hit("detc-ctor-rejects")
        if m["ctor"] is not None:
            return "broken", BROKEN, f"{tag}: the constructor raises AssertionError, the model builds {m['ctor']}"
        return None
    if m["ctor"] is None:
        return "broken", BROKEN, f"{tag}: the constructor accepts (state {state(d)}), the model raises"
    if state(d) != m["ctor"] or d.max_detections != m["ctor"][1] or d.type.name != m["type"]:
        return ("broken", BROKEN, f"{tag}: state {state(d)} max_detections {d.max_detections} type {d.type.name}, "
                                  f"model {m['ctor']} {m['type']}")
    hit("detc-type-" + d.type.name)
    if d._wires is None and c["md"] is not None and c["via"] == "ctor":
        hit("detc-wires-none-cap-dropped")
    if d._max is not None and d._max < 0:
        hit("detc-negative-cap")
    if plain is None:
        hit("detc-out-of-range")
        if m["enc"] is not None:
            return "broken", BROKEN, f"{tag}: serialize raises ValueError, the model writes {m['enc']}"
        return None
    if m["enc"] is None:
        return "broken", BROKEN, f"{tag}: serialize writes, the model raises (32-bit field)"
    if not plain.startswith(":PCVL:Detector:"):
        return "broken", BROKEN, f"{tag}: unexpected envelope {plain[:24]!r}"
    msg = pb.Detector()
    msg.ParseFromString(b64decode(plain[len(":PCVL:Detector:"):]))
    if [msg.n_wires, msg.max_detections] != m["enc"] or msg.name != d.name:
        return ("broken", BROKEN, f"{tag}: message fields ({msg.n_wires}, {msg.max_detections}, {msg.name!r}), "
                                  f"model {m['enc']}, name {d.name!r}")
    hit("detc-how-" + c["how"])
    if m["dec"] is None:
        return "broken", BROKEN, f"{tag}: the reader rebuilds {state(e)}, the model's reader raises"
    if [state(e), e.type.name] != m["dec"] or state(e) != m["expected"]:
        return "broken", BROKEN, f"{tag}: rebuilt {state(e)} {e.type.name}, model {m['dec']} (expected {m['expected']})"
    if d._max == 0:
        hit("detc-cap-zero")
    else:
        hit("detc-identical")
    return None


def check_tampered(driver, rng, n, counter):
    from perceval.serialization.deserialize import deserialize_detector
    from perceval.serialization import _schema_circuit_pb2 as pb
    small = [-I31, -3, -1, 0, 0, 1, 2, 3, 5, I31 - 1]
    fs = [[a, b] for a in small for b in small][: max(n, 100)]
    while len(fs) < n:
        fs.append([rng.choice(small + [rng.randint(-4, 8)]), rng.choice(small + [rng.randint(-4, 8)])])
    rep = driver.ask({"op": "detdecs", "fs": fs})
    if "err" in rep:
        return "broken", BROKEN, f"driver: {rep['err']}", {"fs": fs[:1]}
    for f, m in zip(fs, rep["res"]):
        msg = pb.Detector()
        msg.name = "t"
        msg.n_wires, msg.max_detections = f
        try:
            e = deserialize_detector(msg.SerializeToString())
            got = [state(e), e.type.name]
        except AssertionError:
            got = None
            counter["detc-reader-rejects"] = counter.get("detc-reader-rejects", 0) + 1
        counter["detc-tampered"] = counter.get("detc-tampered", 0) + 1
        if got != m:
            return ("broken", BROKEN, f"message (n_wires={f[0]}, max_detections={f[1]}): the reader gives {got}, "
                                      f"the model {m}", {"f": f})
    return None


def check_cases(driver, cases, counter):
    """-> None or (kind, signature, text, case); of several failures the one with the smallest numbers"""
    worst = None
    for lo in range(0, len(cases), 400):
        chunk = cases[lo:lo + 400]
        rep = driver.ask({"op": "detctors", "args": [model_args(c) for c in chunk]})
        if "err" in rep:
            return "broken", BROKEN, f"driver: {rep['err']}", chunk[0]
        for c, m in zip(chunk, rep["res"]):
            try:
                res = judge(c, m, counter)
            except Exception as ex:   # anything unforeseen is a harness/code disagreement, never silently dropped
                res = ("broken", BROKEN, f"Detector ({c['nw']!r}, {c['md']!r}) via {c['via']}: "
                                         f"{type(ex).__name__}: {ex}")
            if res is not None:
                size = sum(abs(v) if isinstance(v, int) else 0 for v in (c["nw"], c["md"]))
                rank = (0 if res[0] == "violation" else 1, size)
                if worst is None or rank < worst[0]:
                    worst = (rank, res + (c,))
    return None if worst is None else worst[1]
