"""C03 — simulation is linear in its input; mixtures are convex; tagged photons evolve independently;
SVDistribution and DensityMatrix inputs give the same output probabilities.

Correspondence (model = lean/PercevalModel/Model/C03.lean through Driver/C03.lean, exact on the very
matrix `compute_unitary()` reports, sent as dyadic rationals):

* kind "bs"  — a tagged BasicState (several tags per mode): `Simulator.probs`, `evolve`, `probability` for ALL
               outputs, `prob_amplitude` on annotated outputs (matching and mismatching tag sets),
               `probs_svd` of the one-member mixture (fast path), tag relabelling (merge order);
* kind "sv"  — a superposition with rational rescaled coefficients, equal or unequal photon numbers, tagged
               or not: `evolve`, `probs`, `probability`, `prob_amplitude`, `probs_svd` (generic path + split);
* kind "svd" — a mixture with rational weights of Fock members (fast path) or superpositions (generic path),
               `precision = 0` for exact agreement and the default precision with members below the
               threshold (input trimming) against the model and against `trim_error_bound`;
* kind "dm"  — `DensityMatrix.from_svd` → `evolve_density_matrix` (whole matrix), `probs_density_matrix`,
               against the density-matrix route and the mixture route of the model (`dm_eq_svd`).

* states mixing annotated and un-annotated photons (`+mixed` plans): the same kinds "bs"/"sv"/"svd" with the native
               rule of `separate_state` modelled (`native`, Model/C03Mixed.lean); groups and annotation map of the real
               objects compared for every Fock-state case;
* kind "keys" — sequences of `svd[ψ] = v`, `svd[ψ] += w`, `svd.add(ψ, w)`, `svd[ψ]` on a real SVDistribution with keys in
               several scalings against Model/C03Keys.lean, then `probs_svd` of the mixture so built.

Direct oracles on the implementation, independent of Lean: (i) a numpy evaluation of the specification
(permanents, products over tag groups, coherent sums, mixtures); (ii) the property itself on the real code:
evolve(∑ c_k s_k) = ∑ c_k evolve(s_k), probs(tagged) = convolution of probs(group), probs_svd(mixture) =
∑ w_i probs(member_i), probs_density_matrix = probs_svd.
"""
from __future__ import annotations

import copy
import glob
import itertools
import json
import math
import os
import threading
from fractions import Fraction

import numpy as np

from . import core, gens

ENGINES = ["SLOS", "Naive"]
MINP = Fraction(1, 10 ** 16)          # global_params['min_p']
DEFAULT_PREC = 1e-6                   # Simulator._rel_precision
KEY_SLACK = 1e-12


# ------------------------------------------------------------------------------------------------
# small helpers
# ------------------------------------------------------------------------------------------------
def all_states(m, n):
    if m == 0:
        return [[]] if n == 0 else []
    out = []
    for k in range(n, -1, -1):
        for r in all_states(m - 1, n - k):
            out.append([k] + r)
    return out


def fact_prod(s):
    p = 1
    for x in s:
        p *= math.factorial(x)
    return p


def is_mixed(state):
    """annotated (tag != 0) and un-annotated (tag 0) photons in one state"""
    flat = [t for mode in state for t in mode]
    return 0 in flat and any(flat)


def eff(state):
    """the state the Simulator effectively works on when annotated and un-annotated photons are mixed (the rule of the
    native `separate_state` / `get_photon_annotation(0)`, Model/C03Mixed.lean `native`; written here independently of
    Lean and compared with the real objects in `judge_bs`): un-annotated photons join the group of the first
    annotation (order of first occurrence among the annotated photons; inside a mode annotated photons come first,
    sorted); with ONE annotation present the single group is labelled by the first photon.  The identity on every
    other state."""
    if not is_mixed(state):
        return state
    nz = []
    for mode in state:
        for t in sorted(x for x in mode if x):
            if t not in nz:
                nz.append(t)
    if len(nz) == 1:
        first = next(mode for mode in state if mode)
        lab = min(x for x in first if x) if any(first) else 0
        return [[lab] * len(mode) for mode in state]
    return [sorted(nz[0] if t == 0 else t for t in mode) for mode in state]


def tags_of(state):
    seen = []
    for mode in eff(state):
        for t in mode:
            if t not in seen:
                seen.append(t)
    return seen


def group_of(tag, state):
    return [mode.count(tag) for mode in eff(state)]


def occ(state):
    return [len(mode) for mode in state]


def canon_key(state):
    """annotated state -> canonical hashable: sorted (tag, occupation of that tag)"""
    return tuple(sorted((t, tuple(group_of(t, state))) for t in tags_of(state)))


def key_of_tuple(tags, tup):
    """Lean's (tag universe, per-tag Fock states) -> the same canonical form (vacuum groups dropped)"""
    if not tags:
        return ()
    return tuple(sorted((t, tuple(f)) for t, f in zip(tags, tup) if sum(f) > 0))


def key_occ(key, m):
    o = [0] * m
    for _, f in key:
        for i, c in enumerate(f):
            o[i] += c
    return tuple(o)


def term_scale(state):
    """∏_g ∏ s_g!  (the coefficient actually given to Perceval is c' · sqrt of this)"""
    p = 1
    for t in tags_of(state):
        p *= fact_prod(group_of(t, state))
    return p


def build_bs(state):
    import perceval as pcvl
    if all(t == 0 for mode in state for t in mode):
        return pcvl.BasicState([len(mode) for mode in state])
    parts = []
    for mode in state:
        ann = "".join("{_:%d}" % (t - 1) for t in mode if t)
        plain = sum(1 for t in mode if not t)
        parts.append((ann + (str(plain) if plain else "")) if mode else "0")
    return pcvl.BasicState("|" + ",".join(parts) + ">")


def read_bs(bs):
    """annotated BasicState -> per mode the tags of its photons, in the object's own photon order"""
    st = [[] for _ in range(bs.m)]
    for i in range(bs.n):
        a = str(bs.get_photon_annotation(i))
        if a == "":
            tag = 0
        else:
            k, v = a.split(":")
            if k != "_":
                raise ValueError("unexpected annotation " + a)
            tag = int(v) + 1
        st[bs.photon2mode(i)].append(tag)
    return st


def cq(c):
    return complex(float(Fraction(c[0])), float(Fraction(c[1])))


def build_sv(terms):
    import perceval as pcvl
    sv = pcvl.StateVector()
    for t in terms:
        sv += (cq(t["coef"]) * math.sqrt(term_scale(t["state"]))) * pcvl.StateVector(build_bs(t["state"]))
    return sv


def build_svd(members):
    import perceval as pcvl
    d = {}
    for mb in members:
        d[build_sv(mb["terms"])] = float(Fraction(mb["w"]))
    return pcvl.SVDistribution(d)


def build_circuit(spec):
    import perceval as pcvl
    c = pcvl.Circuit(spec["m"])
    for off, leaf in spec["comps"]:
        c.add(off, gens.build_leaf(leaf))
    return c


def make_sim(engine, circuit, prec):
    from perceval.backends import NaiveBackend, SLOSBackend
    from perceval.simulators import Simulator
    sim = Simulator({"SLOS": SLOSBackend, "Naive": NaiveBackend}[engine]())
    sim.set_circuit(circuit)
    if prec is not None:
        sim.set_precision(prec)
    return sim


def bsd_to_dict(bsd):
    out = {}
    for k, v in bsd.items():
        out[tuple(k)] = out.get(tuple(k), 0.0) + float(v)
    return out


def sv_to_dict(sv):
    out = {}
    for s, a in sv:
        k = canon_key(read_bs(s))
        out[k] = out.get(k, 0j) + complex(a)
    return out


# ------------------------------------------------------------------------------------------------
# generators
# ------------------------------------------------------------------------------------------------
def gen_circuit_spec(rng, m, depth):
    comps = []
    for _ in range(depth):
        leaf = gens.gen_leaf(rng, m, kinds=("BS", "BS", "PS", "PERM", "U", "UH"))
        w = gens.leaf_width(leaf)
        if w > m:
            continue
        comps.append([rng.randint(0, m - w), leaf])
    return {"m": m, "comps": comps}


def gen_state(rng, m, n, ntags, mixed=False):
    """n photons on m modes; ntags = 0: un-annotated, else every photon gets a tag in 1..ntags; `mixed`: a photon is
    un-annotated with probability 2/5 (states mixing annotated and un-annotated photons)"""
    for _ in range(6 if mixed else 1):
        st = [[] for _ in range(m)]
        for _ in range(n):
            tag = 0 if ntags == 0 else rng.randint(1, ntags)
            if mixed and rng.random() < 0.35:
                tag = 0
            st[rng.randrange(m)].append(tag)
        if not mixed or n < 2 or is_mixed(st):
            break
    return [sorted(x) for x in st]


def gen_out_like(rng, m, state):
    out = [[] for _ in range(m)]
    for mode in state:
        for t in mode:
            out[rng.randrange(m)].append(t)
    return [sorted(x) for x in out]


def gen_outs(rng, m, states, k):
    outs = []
    for _ in range(k):
        outs.append(gen_out_like(rng, m, rng.choice(states)))
    base = gen_out_like(rng, m, rng.choice(states))
    tg = tags_of(base)
    if tg:
        fresh = max(tg) + 1
        a = rng.choice(tg)
        outs.append([[fresh if t == a else t for t in mode] for mode in base])          # unknown annotation
        if tg != [0]:
            outs.append([[0] * len(mode) for mode in base])                              # annotations dropped
        else:
            outs.append([[1] * len(mode) for mode in base])                              # annotations added
        if len(tg) >= 2:
            b = rng.choice([t for t in tg if t != a])
            moved = copy.deepcopy(base)
            for mode in moved:
                if a in mode:
                    mode[mode.index(a)] = b
                    mode.sort()
                    break
            outs.append(moved)                                                           # group sizes differ
            outs.append([[t for t in mode if t != a] for mode in base])                  # one group missing
    outs.append([[] for _ in range(m)])                                                  # vacuum
    return outs


def gen_coef(rng):
    while True:
        re = Fraction(rng.randint(-3, 3), rng.randint(1, 3))
        im = Fraction(rng.randint(-3, 3), rng.randint(1, 3)) if rng.random() < 0.6 else Fraction(0)
        if re != 0 or im != 0:
            return [core.rat(re), core.rat(im)]


class UsedSet(set):
    """canonical keys of the basis states already used in a case + the real states (for `native_clash`)"""
    def __init__(self):
        super().__init__()
        self.states = []


def native_clash(st, others):
    """exqalibur's equality of basic states that mix annotated and un-annotated photons is not symmetric (observed:
    `BasicState('|{_:0}1,1>') == BasicState('|{_:0}{_:1},1>')` is True, the reverse False), so a StateVector or an
    SVDistribution holding both keeps one or two components depending on the ORDER of insertion.  That is a property
    of the external container, not of the simulation: two states that the native `==` identifies in either direction
    are never put into one case."""
    if not is_mixed(st) and not any(is_mixed(o) for o in others):
        return False
    b = build_bs(st)
    for o in others:
        c = build_bs(o)
        if b == c or c == b:
            return True
    return False


def gen_terms(rng, m, nmax, ntags, k, equal_n, used, mixed=False):
    """k distinct basis states (not in `used`), with rescaled rational coefficients"""
    terms = []
    n0 = rng.randint(1, nmax)
    tries = 0
    seen_states = used.states if isinstance(used, UsedSet) else []
    while len(terms) < k and tries < 200:
        tries += 1
        n = n0 if equal_n else rng.randint(0, nmax)
        st = gen_state(rng, m, n, ntags, mixed)
        key = canon_key(st)
        if key in used:
            continue
        if mixed and native_clash(st, seen_states):
            continue
        used.add(key)
        seen_states.append(st)
        terms.append({"coef": gen_coef(rng), "state": st})
    return terms


def gen_weights(rng, k, normalised=True):
    a = [rng.randint(1, 9) for _ in range(k)]
    s = sum(a) if normalised else rng.choice([sum(a) * 2, max(1, sum(a) // 2), 7])
    return [Fraction(x, s) for x in a]


# ---- widely unequal coefficients ------------------------------------------------------------------
# "arbitrary complex coefficients" includes a superposed term whose squared coefficient (its population) is far
# below every precision-like constant of the code (the simulator's relative precision 1e-6, DensityMatrix.precision
# 1e-6, min_p) while its AMPLITUDE is not negligible: the output probabilities depend on it through the interference
# with the dominant terms, ~ 2·|c_weak|·|c_strong| ≫ |c_weak|².  A threshold applied to a population where only an
# amplitude-scale quantity may be neglected shows exactly there.  The scales: relative amplitudes 1/37 … 1/100003
# (populations 7e-4 … 1e-10, never a round power of ten: no tie with a threshold), kept above the native StateVector
# cut-off (normalised modulus < 1e-6 is discarded by the container itself, see `loss_profile`).
WEAK_SCALES = [37, 131, 307, 709, 1013, 1511, 3163, 10007, 31627, 100003]
AMP_FLOOR = 3e-6                      # 3 × global_params['min_complex_component']
WEAK_POP = 1e-6                       # a term is "weak" when its normalised population is below this


def norm_amps(terms):
    cs = [abs(cq(t["coef"])) * math.sqrt(term_scale(t["state"])) for t in terms]
    nrm = math.sqrt(sum(c * c for c in cs))
    return [c / nrm for c in cs]


def weaken(rng, terms, scales=WEAK_SCALES):
    """multiply the coefficient of one term (two when there are ≥ 3) by 1/scale — in place; the scale is lowered
    until every normalised amplitude stays above AMP_FLOOR.  -> True when some term ended with population < WEAK_POP"""
    if len(terms) < 2:
        return False
    idx = rng.sample(range(len(terms)), 2 if (len(terms) >= 3 and rng.random() < 0.4) else 1)
    orig = {i: [Fraction(x) for x in terms[i]["coef"]] for i in idx}
    for i in idx:
        cands = sorted(scales, reverse=True)
        k = cands.index(rng.choice(cands))
        for s in cands[k:]:
            terms[i]["coef"] = [core.rat(orig[i][0] / s), core.rat(orig[i][1] / s)]
            if min(norm_amps(terms)) >= AMP_FLOOR:
                break
        else:
            terms[i]["coef"] = [core.rat(orig[i][0]), core.rat(orig[i][1])]
    return any(a * a < WEAK_POP for a in norm_amps(terms))


def weak_info(members):
    """-> set of shapes present: 'weak-term' (a superposed member has a term of population < 1e-6 next to a dominant
    one), 'weak-coherent' (… of the SAME photon number: the two interfere in the output populations), 'weak-member'
    (a member of relative weight < 1e-6)"""
    out = set()
    ws = [float(Fraction(mb["w"])) for mb in members]
    if len(ws) > 1 and min(ws) < WEAK_POP * max(ws):
        out.add("weak-member")
    for mb in members:
        if len(mb["terms"]) < 2:
            continue
        amps = norm_amps(mb["terms"])
        ns = [state_n(t["state"]) for t in mb["terms"]]
        for a, n in zip(amps, ns):
            if 0 < a * a < WEAK_POP:
                out.add("weak-term")
                if any(b * b > 0.05 and k == n for b, k in zip(amps, ns)):
                    out.add("weak-coherent")
    return out


# ---- keys of the SVDistribution dict ------------------------------------------------------------
# Members of a mixture may share basis states; a photon-number sector of a superposed member may even BE another
# member (or a sector of another member): `_preprocess_svd` then accumulates the weights of the equal keys.  Whether
# two StateVectors are one key is decided natively on floats; it is deterministic for one-component vectors with a
# real positive coefficient (c/|c| = 1.0 exactly, measured on 2·10⁴ values) and for vectors that are not positively
# proportional (clearly different floats).  The generator therefore presents every overlap EXCEPT exact positive
# proportionality of two parts that are not both one-component with real positive coefficients (and never two equal
# members: they would be one entry of the input dict).
def sectors(terms):
    """the photon-number sectors `_split_by_photon_count` makes of a superposition of unequal photon numbers"""
    ns = [sum(len(x) for x in t["state"]) for t in terms]
    if len(terms) <= 1 or len(set(ns)) <= 1:
        return []
    out = []
    for n in dict.fromkeys(ns):
        out.append([t for t, k in zip(terms, ns) if k == n])
    return out


def pos_proportional(ta, tb):
    """the two (un-normalised) superpositions are the same normalised state vector: same basis states, coefficients
    differing by one positive real factor (exact, on the rational rescaled coefficients)"""
    da = {canon_key(t["state"]): (Fraction(t["coef"][0]), Fraction(t["coef"][1])) for t in ta}
    db = {canon_key(t["state"]): (Fraction(t["coef"][0]), Fraction(t["coef"][1])) for t in tb}
    if set(da) != set(db) or len(da) != len(ta) or len(db) != len(tb):
        return False
    k0 = next(iter(da))
    (a, b), (c, d) = da[k0], db[k0]
    den = c * c + d * d
    lr, li = (a * c + b * d) / den, (b * c - a * d) / den
    if li != 0 or lr <= 0:
        return False
    return all(da[k] == (lr * db[k][0], lr * db[k][1]) for k in da)


def real_positive(terms):
    return len(terms) == 1 and Fraction(terms[0]["coef"][1]) == 0 and Fraction(terms[0]["coef"][0]) > 0


def keys_ok(members):
    parts = [(mb["terms"], True) for mb in members]
    for mb in members:
        parts += [(sec, False) for sec in sectors(mb["terms"])]
    for (ta, oa), (tb, ob) in itertools.combinations(parts, 2):
        if pos_proportional(ta, tb):
            if not (real_positive(ta) and real_positive(tb)) or (oa and ob):
                return False
    return True


def overlap_info(members):
    """-> set of shapes: 'shared' (two members share a basis state), 'member+sector' (a sector of a superposed member
    is another member: `trimmed_svd[sv] += p` on an existing key), 'sector+sector' (two members have an equal sector:
    `to_add[split_sv] += prob`)"""
    out = set()
    sets = [set(canon_key(t["state"]) for t in mb["terms"]) for mb in members]
    if any(a & b for a, b in itertools.combinations(sets, 2)):
        out.add("shared")
    secs = [(i, sec) for i, mb in enumerate(members) for sec in sectors(mb["terms"])]
    for i, sec in secs:
        for j, mb in enumerate(members):
            if j != i and pos_proportional(sec, mb["terms"]):
                out.add("member+sector")
    for (i, sa), (j, sb) in itertools.combinations(secs, 2):
        if i != j and pos_proportional(sa, sb):
            out.add("sector+sector")
    return out


def gen_pos_coef(rng):
    return [core.rat(Fraction(rng.randint(1, 4), rng.randint(1, 3))), "0"]


def state_n(st):
    return sum(len(x) for x in st)


def add_overlaps(rng, m, nm, ntags, members):
    """members sharing basis states, a Fock member that is a photon-number sector of a superposed member, two
    superposed members with a common sector.  Returns the new list (the old one when nothing valid was found)"""
    def weight():
        return core.rat(Fraction(rng.randint(1, 9), rng.choice([10, 20, 40])))

    def other_state(n_not, avoid):
        for _ in range(50):
            n = rng.choice([k for k in range(0, nm + 1) if k != n_not] or [n_not + 1])
            st = gen_state(rng, m, n, ntags)
            if canon_key(st) not in avoid:
                return st
        return None

    for _ in range(8):
        new = copy.deepcopy(members)
        states = [t["state"] for mb in new for t in mb["terms"]]
        shape = rng.choice(["share", "fock-sector", "fock-sector", "two-sectors", "fock-sector+two"])
        if shape == "share":
            if not states:
                continue
            pick = rng.sample(states, min(len(states), rng.randint(1, 2)))
            extra = gen_state(rng, m, rng.randint(0, nm), ntags)
            cand, seen = [], set()
            for st in pick + [extra]:
                if canon_key(st) not in seen:
                    seen.add(canon_key(st))
                    cand.append({"coef": gen_coef(rng), "state": st})
            if len(cand) < 2:
                continue
            new.append({"w": weight(), "terms": cand})
        else:
            singles = [mb for mb in new if len(mb["terms"]) == 1]
            if singles and rng.random() < 0.6:
                x = rng.choice(singles)["terms"][0]["state"]
            else:
                x = gen_state(rng, m, rng.randint(0, nm), ntags)
            nx = state_n(x)
            n_super = 2 if shape in ("two-sectors", "fock-sector+two") else 1
            avoid = {canon_key(x)}
            for _ in range(n_super):
                y = other_state(nx, avoid)
                if y is None:
                    break
                avoid.add(canon_key(y))
                cx = gen_pos_coef(rng) if rng.random() < 0.75 else gen_coef(rng)
                terms = [{"coef": cx, "state": x}, {"coef": gen_coef(rng), "state": y}]
                if rng.random() < 0.4:
                    for _ in range(20):
                        z = gen_state(rng, m, state_n(y), ntags)
                        if canon_key(z) not in avoid:
                            avoid.add(canon_key(z))
                            terms.append({"coef": gen_coef(rng), "state": z})
                            break
                rng.shuffle(terms)
                new.append({"w": weight(), "terms": terms})
            if shape != "two-sectors" and not any(len(mb["terms"]) == 1 and canon_key(mb["terms"][0]["state"]) == canon_key(x)
                                                  for mb in new):
                new.append({"w": weight(), "terms": [{"coef": ["1", "0"], "state": x}]})
        if keys_ok(new):
            rng.shuffle(new)
            return new
    return members


def gen_case(rng, chk, kind, prec, fixed=None, mixed=False):
    big = chk.thorough
    m = rng.choice([2, 3, 3, 4] if not big else [2, 3, 3, 4, 4, 5])
    if fixed:
        m = fixed["m"]
    nmax = {2: 4, 3: 4, 4: 3, 5: 3}[m] if not big else {2: 5, 3: 4, 4: 4, 5: 3}[m]
    case = {"kind": kind, "m": m, "engine": rng.choice(ENGINES), "prec": prec,
            "circ": gen_circuit_spec(rng, m, rng.randint(2, 6))}
    if fixed:
        case["engine"], case["circ"] = fixed["engine"], fixed["circ"]
    if kind == "bs":
        n = rng.choice([0, 1, 2, 2, 3, 3, nmax, nmax])
        ntags = rng.choice([0, 1, 2, 2, 3, 3, 4])
        if mixed:
            # annotated and un-annotated photons in one state (native rule, Model/C03Mixed.lean)
            n = rng.choice([2, 3, 3, nmax, nmax])
            ntags = rng.choice([1, 2, 2, 3, 3])
        st = gen_state(rng, m, n, ntags, mixed)
        case["members"] = [{"w": "1", "terms": [{"coef": ["1", "0"], "state": st}]}]
        case["outs"] = gen_outs(rng, m, [st], 6)
    elif kind == "sv":
        ntags = rng.choice([0, 0, 1, 2, 3]) if not mixed else rng.choice([1, 2, 2, 3])
        nm = min(nmax, 3)
        # a vector of ONE component with a non-trivial coefficient: `Simulator.probs(StateVector)` dispatches it to
        # `probs(BasicState)`, `probability(StateVector, ·)` still evolves it (Model/C03Entry.lean)
        one = rng.random() < 0.25
        terms = gen_terms(rng, m, nm, ntags, 1 if one else rng.randint(2, 3), rng.random() < 0.5, UsedSet(), mixed)
        if one and len(terms) == 1:
            if terms[0]["coef"] == ["1", "0"]:
                terms[0]["coef"] = ["-2/3", "1/2"]
        elif len(terms) < 2:
            terms = [{"coef": ["1", "0"], "state": [[0]] + [[] for _ in range(m - 1)]},
                     {"coef": ["1/2", "1"], "state": [[] for _ in range(m - 1)] + [[0]]}]
        if len(terms) >= 2 and rng.random() < 0.25:
            weaken(rng, terms)
        case["members"] = [{"w": "1", "terms": terms}]
        case["outs"] = gen_outs(rng, m, [t["state"] for t in terms], 5)
        # occupations asked of `Simulator.probability(StateVector, BasicState)`: outcomes of the photon numbers present
        # (among them impossible ones when the circuit leaves modes untouched) and one of another photon number
        ns = sorted(set(sum(len(x) for x in t["state"]) for t in terms))
        pool = [list(o) for n in ns for o in all_states(m, n)]
        rng.shuffle(pool)
        case["pouts"] = pool[:8] + [list(rng.choice(all_states(m, max(ns) + 1)))]
    elif kind == "svd":
        k = rng.randint(2, 5)
        superposed = rng.random() < 0.5
        ntags = rng.choice([0, 1, 2, 3]) if not mixed else rng.choice([1, 2, 2, 3])
        nm = min(nmax, 3)
        used = UsedSet()
        members = []
        ws = gen_weights(rng, k, normalised=(rng.random() < 0.7))
        for w in ws:
            nt = rng.randint(2, 3) if (superposed and rng.random() < 0.6) else 1
            terms = gen_terms(rng, m, nm, ntags, nt, rng.random() < 0.5, used, mixed)
            if not terms:
                continue
            if len(terms) == 1:
                terms[0]["coef"] = ["1", "0"]
            members.append({"w": core.rat(w), "terms": terms})
        if prec == "default":
            # members far below the relative threshold 1e-6·max_p: trimmed by _preprocess_svd
            for _ in range(rng.randint(1, 3)):
                terms = gen_terms(rng, m, nm, ntags, 1, True, used)
                if terms:
                    terms[0]["coef"] = ["1", "0"]
                    members.append({"w": core.rat(Fraction(rng.randint(1, 9), 10 ** rng.randint(8, 10))), "terms": terms})
            # members just above the threshold: kept, but the product / amplitude thresholds
            # p_threshold/(10·prob0) bite inside them
            for _ in range(rng.randint(1, 3)):
                nt = rng.randint(2, 3) if superposed else 1
                terms = gen_terms(rng, m, nm, max(ntags, 2), nt, rng.random() < 0.5, used, mixed)
                if terms:
                    if len(terms) == 1:
                        terms[0]["coef"] = ["1", "0"]
                    # 2e-6 … 6e-5, never a round multiple of 1e-6·max_p (no float/rational tie at the threshold)
                    members.append({"w": core.rat(Fraction(rng.randint(2000, 60000) * 1000 + 137, 10 ** 12)),
                                    "terms": terms})
            # superposed members made of several tag groups at an ordinary or smallish weight (1e-3 … 0.3): the
            # recombination of their groups runs with a threshold that must stay negligible at this precision
            if superposed:
                for _ in range(rng.randint(1, 2)):
                    terms = gen_terms(rng, m, nm, max(ntags, 2), rng.randint(2, 3), True, used, mixed)
                    if len(terms) >= 2:
                        members.append({"w": core.rat(Fraction(rng.choice([1, 3, 10, 40, 137, 300]), 1000)),
                                        "terms": terms})
            rng.shuffle(members)
        sup = [mb for mb in members if len(mb["terms"]) >= 2]
        if sup and rng.random() < 0.3:
            weaken(rng, rng.choice(sup)["terms"])
        if rng.random() < 0.4:
            members = add_overlaps(rng, m, nm, ntags, members)
        case["members"] = members
    elif kind == "dm":
        if not fixed:
            m = rng.choice([2, 3, 3] if not big else [2, 3, 3, 4])
            case["m"] = m
            case["circ"] = gen_circuit_spec(rng, m, rng.randint(2, 5))
        nm = {2: 3, 3: 3, 4: 2}[m]
        case["members"] = gen_dm_members(rng, m, nm)
    return case


def gen_dm_members(rng, m, nm, force_n=None, first=None):
    """un-annotated members of a density matrix; members may share basis states (fresh `used` per member);
    `force_n`: some term has exactly that many photons and none has more (fixes n_max of the FockBasis);
    `first`: a basis state that must be populated"""
    for _ in range(30):
        k = rng.randint(1, 4)
        used = UsedSet()
        members = []
        # a superposed member with a weak term (population below 1e-6, amplitude not negligible), mostly of the photon
        # number of a dominant term so that the two interfere in the output populations
        weak = rng.random() < 0.45
        for w in gen_weights(rng, k, normalised=(rng.random() < 0.8)):
            if rng.random() < 0.4:
                used = UsedSet()
            equal_n = rng.random() < (0.8 if weak else 0.5)
            nt = rng.randint(2, 3) if weak else rng.randint(1, 3)
            terms = gen_terms(rng, m, nm if force_n is None else force_n, 0, nt, equal_n, used)
            if terms:
                if len(terms) == 1:
                    terms[0]["coef"] = ["1", "0"]
                elif weak:
                    weaken(rng, terms, WEAK_SCALES if rng.random() < 0.3 else WEAK_SCALES[4:])
                    weak = False
                members.append({"w": core.rat(w), "terms": terms})
        # a member of tiny relative weight (a population far below DensityMatrix.precision on the diagonal)
        if len(members) >= 2 and rng.random() < 0.15:
            mb = rng.choice(members)
            mb["w"] = core.rat(Fraction(mb["w"]) / rng.choice([1013 ** 2, 3163 ** 2, 31627 ** 2]))
        if first is not None:
            members.append({"w": core.rat(Fraction(rng.randint(1, 9), 10)), "terms": [{"coef": ["1", "0"], "state": first}]})
        if not members:
            continue
        if force_n is not None and max(state_n(t["state"]) for mb in members for t in mb["terms"]) != force_n:
            st = gen_state(rng, m, force_n, 0)
            members.append({"w": core.rat(Fraction(rng.randint(1, 9), 10)), "terms": [{"coef": ["1", "0"], "state": st}]})
        if keys_ok(members):
            return members
    return [{"w": "1", "terms": [{"coef": ["1", "0"], "state": gen_state(rng, m, force_n or 1, 0)}]}]


def gen_session(rng, chk):
    """ONE long-lived Simulator (one circuit) answering a sequence of different requests: density matrices living in
    the same FockBasis (m, n_max) but populating other basis states, mixtures, superpositions, tagged Fock states"""
    big = chk.thorough
    m = rng.choice([2, 3, 3] if not big else [2, 3, 3, 4])
    nm = {2: 3, 3: 3, 4: 2}[m]
    fixed = {"m": m, "engine": rng.choice(ENGINES), "circ": gen_circuit_spec(rng, m, rng.randint(2, 5))}
    n_dm = rng.choice([0, 2, 2, 2, 3])
    kinds = ["dm"] * n_dm + [rng.choice(["bs", "sv", "svd", "svd"]) for _ in range(rng.randint(1, 2) if n_dm else rng.randint(3, 4))]
    rng.shuffle(kinds)
    force_n = rng.randint(1, nm)
    steps = []
    populated = set()
    for kd in kinds:
        if kd == "dm":
            # mostly the same FockBasis as the earlier density matrices of the session, and a basis state none of
            # them populated; sometimes another n_max, sometimes a sub-support
            fn = force_n if rng.random() < 0.8 else rng.randint(1, nm)
            first = None
            if populated and rng.random() < 0.8:
                for _ in range(30):
                    st = gen_state(rng, m, rng.randint(0, fn), 0)
                    if tuple(occ(st)) not in populated:
                        first = st
                        break
            members = gen_dm_members(rng, m, nm, fn, first)
            if first is not None and rng.random() < 0.3:
                members = [mb for mb in members if len(mb["terms"]) == 1 and mb["terms"][0]["state"] == first] or members
                if not keys_ok(members) or max(state_n(t["state"]) for mb in members for t in mb["terms"]) != fn:
                    members = gen_dm_members(rng, m, nm, fn, first)
            populated |= {tuple(occ(t["state"])) for mb in members for t in mb["terms"]}
            steps.append({"kind": "dm", "members": members})
        else:
            sub = gen_case(rng, chk, kd, "0", fixed)
            if sub["members"]:
                steps.append({"kind": kd, "members": sub["members"], "outs": sub.get("outs", [])})
    return {"kind": "session", "m": m, "engine": fixed["engine"], "prec": "0", "circ": fixed["circ"], "steps": steps,
            "members": [mb for st in steps for mb in st["members"]]}


def gen_malformed(rng):
    m = rng.choice([2, 3])
    case = {"kind": rng.choice(["bad-modes", "dm-tagged"]), "m": m, "engine": rng.choice(ENGINES), "prec": "0",
            "circ": gen_circuit_spec(rng, m, 2)}
    if case["kind"] == "bad-modes":
        st = gen_state(rng, m + rng.choice([-1, 1]), 2, rng.choice([0, 2]))
    else:
        st = gen_state(rng, m, 2, 2)
        if not tags_of(st):
            st[0] = [1]
    case["members"] = [{"w": "1", "terms": [{"coef": ["1", "0"], "state": st}]}]
    return case


# ------------------------------------------------------------------------------------------------
# Lean request
# ------------------------------------------------------------------------------------------------
def real_state(state):
    """the state as the real object reports it (photon order, canonical tag order inside a mode)"""
    return read_bs(build_bs(state))


def lean_members(case, floats):
    out = []
    for mb in case["members"]:
        w = Fraction(mb["w"])
        out.append({"w": core.rat(float(w)) if floats else core.rat(w),
                    "terms": [{"coef": t["coef"], "state": real_state(t["state"])} for t in mb["terms"]]})
    return out


def lean_request(case, u):
    kind = case["kind"]
    base = {"m": case["m"], "U": core.mat(u.tolist())}
    if kind in ("bs", "bad-modes"):
        st = case["members"][0]["terms"][0]["state"]
        return dict(base, op="bs", state=real_state(st), outs=[real_state(o) for o in case.get("outs", [])])
    if kind == "sv":
        return dict(base, op="sv", terms=lean_members(case, False)[0]["terms"],
                    outs=[real_state(o) for o in case["outs"]], cut2=core.rat(CUT2), pouts=case.get("pouts", []))
    if kind == "svd":
        if case["prec"] == "default":
            return dict(base, op="svd", members=lean_members(case, True), prec=core.rat(DEFAULT_PREC),
                        minp=core.rat(float(MINP)), bound=True, cut2=core.rat(CUT2))
        return dict(base, op="svd", members=lean_members(case, True), prec="0", minp="0", cut2=core.rat(CUT2))
    if kind == "keys":
        return {"op": "keys", "ops": case["ops"]}
    if kind in ("dm", "dm-tagged"):
        nmax = max(sum(len(x) for x in t["state"]) for mb in case["members"] for t in mb["terms"])
        return dict(base, op="dm", members=lean_members(case, True), nmax=nmax)
    raise ValueError(kind)


def lean_requests(case, u):
    """-> list of requests (one per request of a session)"""
    if case["kind"] == "session":
        return [lean_request(step_case(case, st), u) for st in case["steps"]]
    return [lean_request(case, u)]


# ------------------------------------------------------------------------------------------------
# independent numpy evaluation of the specification
# ------------------------------------------------------------------------------------------------
def np_perm(a):
    n = a.shape[0]
    if n == 0:
        return 1.0
    tot = 0
    for p in itertools.permutations(range(n)):
        x = 1
        for i in range(n):
            x *= a[p[i], i]
        tot += x
    return tot


def py_amp(u, s, t):
    if sum(s) != sum(t):
        return 0.0
    rows = [i for i, c in enumerate(t) for _ in range(c)]
    cols = [i for i, c in enumerate(s) for _ in range(c)]
    if not rows:
        return 1.0
    return np_perm(u[np.ix_(rows, cols)]) / math.sqrt(fact_prod(s) * fact_prod(t))


def py_term_amps(u, m, state):
    tg = tags_of(state)
    per = []
    for t in tg:
        s = group_of(t, state)
        per.append([(t, tuple(o), py_amp(u, s, o)) for o in all_states(m, sum(s))])
    out = {}
    for combo in itertools.product(*per):
        a = 1.0
        for _, _, x in combo:
            a *= x
        k = tuple(sorted((t, o) for t, o, _ in combo))
        out[k] = out.get(k, 0j) + a
    return out


def py_sv_amps(u, m, terms):
    cs = [cq(t["coef"]) * math.sqrt(term_scale(t["state"])) for t in terms]
    norm = math.sqrt(sum(abs(c) ** 2 for c in cs))
    out = {}
    for c, t in zip(cs, terms):
        for k, a in py_term_amps(u, m, t["state"]).items():
            out[k] = out.get(k, 0j) + c / norm * a
    return out


def py_probs(amps, m):
    out = {}
    for k, a in amps.items():
        o = key_occ(k, m)
        out[o] = out.get(o, 0.0) + abs(a) ** 2
    return out


def py_svd(u, m, members):
    out = {}
    tot = sum(float(Fraction(mb["w"])) for mb in members)
    for mb in members:
        w = float(Fraction(mb["w"])) / tot
        for o, p in py_probs(py_sv_amps(u, m, mb["terms"]), m).items():
            out[o] = out.get(o, 0.0) + w * p
    return out


# ------------------------------------------------------------------------------------------------
# comparison helpers
# ------------------------------------------------------------------------------------------------
def exact_dist(lst):
    return {tuple(k): Fraction(v) for k, v in lst}


def same_exact(a, b):
    """two exact distributions agree as functions (entries of probability 0 may be listed or not)"""
    da = {k: v for k, v in exact_dist(a).items() if v != 0}
    db = {k: v for k, v in exact_dist(b).items() if v != 0}
    return da == db


def cmp_dist(obs, exact, tol=core.TOL, extra=None, slack=0.0):
    """obs: {tuple: float}; exact: {tuple: Fraction}.  -> None or (key, observed, expected).
    `extra[key]` / `slack`: additional absolute tolerance (see `loss_profile`), zero in general"""
    extra = extra or {}
    for k, p in exact.items():
        x, xh = obs.get(k, 0.0), float(p)
        if abs(x - xh) > tol + tol * abs(xh) + extra.get(k, 0.0) + 2 * slack:
            return list(k), x, xh
    for k, v in obs.items():
        if k not in exact and abs(v) > max(tol, KEY_SLACK) + extra.get(k, 0.0) + 2 * slack:
            return list(k), v, 0.0
    return None


def cmp_float_dist(a, b, tol=1e-7):
    for k in set(a) | set(b):
        if abs(a.get(k, 0.0) - b.get(k, 0.0)) > tol:
            return list(k), a.get(k, 0.0), b.get(k, 0.0)
    return None


def lean_amps(rep_list, tags, norm2):
    """[[tuple, [re, im], ∏t!], …] -> {canonical key: normalised amplitude}"""
    out = {}
    for tup, num, tf in rep_list:
        k = key_of_tuple(tags, tup)
        out[k] = out.get(k, 0j) + core.uncx(num) / math.sqrt(tf * norm2)
    return out


def cmp_amps(obs, exact, tol=core.TOL, extra=None, slack=0.0):
    extra = extra or {}
    for k, a in exact.items():
        if abs(obs.get(k, 0j) - a) > tol + tol * abs(a) + extra.get(k, 0.0) + slack:
            return k, obs.get(k, 0j), a
    for k, v in obs.items():
        if k not in exact and abs(v) > max(tol, 1e-8) + extra.get(k, 0.0) + slack:
            return k, v, 0j
    return None


# The native StateVector container discards components of modulus < global_params['min_complex_component']
# (= 1e-6; measured: `BasicState([1,0]) + 5e-7*BasicState([0,1])` has one component, `+ 2e-6*…` has two).
# An evolve-based result may therefore miss exactly those contributions of one input term to one annotated
# output whose modulus is below 1e-6 (a partial product over the groups is never smaller than the full one),
# and an output whose total amplitude is below 1e-6.  The tolerance is widened by precisely these amounts —
# it stays 1e-9 whenever no such amplitude exists.
DROP = 1.01e-6
CUT2 = Fraction(101, 10 ** 8) ** 2      # DROP², handed to the model (`smallC`, `lossAt`)


def model_loss(rep_loss, tags, exact_amps):
    """the model's exactly computed bound on what the native cut can change, per annotated output (`lossAt`: sum of the
    moduli of the components below the cut, Props/C03 `evolve_cut_bound`), plus an output whose TOTAL amplitude is below
    the cut (lost when the normalised vector is read)"""
    out = {}
    for tup, l in rep_loss:
        k = key_of_tuple(tags, tup)
        out[k] = out.get(k, 0.0) + float(Fraction(l)) * 1.001
    for k, a in exact_amps.items():
        if abs(a) < DROP:
            out[k] = out.get(k, 0.0) + abs(a) * 1.001
    return out


def loss_profile(u, m, terms):
    """-> (loss per annotated key, extra probability tolerance per occupation, total probability slack)"""
    cs = [cq(t["coef"]) * math.sqrt(term_scale(t["state"])) for t in terms]
    nrm = math.sqrt(sum(abs(c) ** 2 for c in cs))
    contrib, total = {}, {}
    for c, t in zip(cs, terms):
        for k, a in py_term_amps(u, m, t["state"]).items():
            contrib.setdefault(k, []).append((abs(a), abs(c / nrm * a)))
            total[k] = total.get(k, 0j) + c / nrm * a
    loss, local, slack = {}, {}, 0.0
    for k, lst in contrib.items():
        l = sum(x[1] for x in lst if x[0] < DROP or x[1] < DROP)
        if abs(total[k]) < DROP:
            l += abs(total[k])
        if l:
            loss[k] = l * 1.001
            e = 2 * abs(total[k]) * l + l * l
            o = key_occ(k, m)
            local[o] = local.get(o, 0.0) + e
            slack += e
    return loss, local, slack


def mix_profile(u, m, members):
    """the same for a mixture evaluated through state vectors (generic path, density matrices)"""
    tot = sum(float(Fraction(mb["w"])) for mb in members)
    local, slack = {}, 0.0
    for mb in members:
        w = float(Fraction(mb["w"])) / tot
        _, loc, sl = loss_profile(u, m, mb["terms"])
        for o, e in loc.items():
            local[o] = local.get(o, 0.0) + w * e
        slack += w * sl
    return local, slack


# ------------------------------------------------------------------------------------------------
# what a relative precision permits to neglect (numpy, independent of the Lean model)
# ------------------------------------------------------------------------------------------------
# "up to the configured precision", evaluated directly: with θ = max(min_p, precision · max weight), the simulator may
#   (a) leave out a member (after the split by photon number) whose weight is ≤ θ;
#   (b) leave out, inside a kept member of weight w, a product of group amplitudes of a term of coefficient c whose
#       weighted probability w·|c|²·|∏ amplitudes|² is ≤ θ/10 (only terms made of ≥ 2 tag groups are recombined);
#   (c) lose what the native StateVector container discards (modulus < 1e-6, see `loss_profile`).
# Nothing else.  `precision_budget` turns this into a tolerance per outcome: the largest change of an un-normalised
# outcome probability that leaving out ANY subset of the permitted items can cause, plus the effect of the final
# normalisation.  An implementation that drops exactly the permitted items (the current one) stays within it; one
# that drops more than the precision allows leaves it.
BUDGET_EPS = 1e-9


def split_parts(members):
    """members -> [(raw weight, terms)] after `_split_by_photon_count` (superpositions of unequal photon numbers)"""
    parts = []
    for mb in members:
        w = float(Fraction(mb["w"]))
        terms = mb["terms"]
        ns = [sum(len(x) for x in t["state"]) for t in terms]
        if len(terms) > 1 and len(set(ns)) > 1:
            cs = [abs(cq(t["coef"])) ** 2 * term_scale(t["state"]) for t in terms]
            for n in sorted(set(ns)):
                idx = [i for i in range(len(terms)) if ns[i] == n]
                parts.append((w * sum(cs[i] for i in idx) / sum(cs), [terms[i] for i in idx]))
        else:
            parts.append((w, terms))
    return parts


def code_theta(members, prec):
    """the relative threshold `_preprocess_svd` ends with: precision × the largest weight met — of a member, or of a
    key after the sectors of the split superpositions were accumulated onto equal keys (see `keys_ok`)"""
    ws = [float(Fraction(mb["w"])) for mb in members]
    maxp = max(ws)
    th1 = max(float(MINP), maxp * prec)
    trimmed, to_add = {}, {}
    for i, (mb, w) in enumerate(zip(members, ws)):
        if w > th1:
            key = ("k", canon_key(mb["terms"][0]["state"])) if real_positive(mb["terms"]) else ("m", i)
            trimmed[key] = w
    for i, (mb, w) in enumerate(zip(members, ws)):
        secs = sectors(mb["terms"])
        if w > th1 and secs:
            cs = [abs(cq(t["coef"])) ** 2 * term_scale(t["state"]) for t in mb["terms"]]
            for j, sec in enumerate(secs):
                share = sum(c for c, t in zip(cs, mb["terms"]) if any(t is x for x in sec)) / sum(cs)
                key = ("k", canon_key(sec[0]["state"])) if real_positive(sec) else ("s", i, j)
                to_add[key] = to_add.get(key, 0.0) + w * share
    for key, p in to_add.items():
        trimmed[key] = trimmed.get(key, 0.0) + p
        maxp = max(maxp, trimmed[key])
    return max(float(MINP), maxp * prec)


def part_budget(u, m, terms, thr2):
    """one kept member: `thr2[t]` = largest squared modulus of a product of group amplitudes of term t that may be
    neglected (0: none).  -> ({occupation: largest change of its probability}, their sum)"""
    cs = [cq(t["coef"]) * math.sqrt(term_scale(t["state"])) for t in terms]
    nrm = math.sqrt(sum(abs(c) ** 2 for c in cs))
    contrib, total = {}, {}
    for c, t, th in zip(cs, terms, thr2):
        for k, a in py_term_amps(u, m, t["state"]).items():
            x = c / nrm * a
            drop = abs(a) ** 2 <= th or abs(a) < DROP or abs(x) < DROP
            contrib.setdefault(k, []).append((abs(x), drop))
            total[k] = total.get(k, 0j) + x
    local, slack = {}, 0.0
    for k, lst in contrib.items():
        l = sum(x for x, d in lst if d)
        tk = abs(total[k])
        if tk < DROP:
            l += tk
        if not l:
            continue
        if len(lst) == 1:
            e = tk * tk                      # a lone contribution is there or not
        else:
            e = 2 * tk * l + l * l
        e *= 1.001
        o = key_occ(k, m)
        local[o] = local.get(o, 0.0) + e
        slack += e
    return local, slack


def precision_budget(u, m, members, prec=DEFAULT_PREC):
    """-> (d, D, info): d[o] bounds the change of the un-normalised probability of o (weights normalised to 1),
    D bounds the change of the total mass; a result normalised at the end may differ from the exact mixture P by at most
    (d[o] + P[o]·D)/(1 − D)"""
    parts = split_parts(members)
    tot = sum(float(Fraction(mb["w"])) for mb in members)
    theta = code_theta(members, prec)
    d, big_d = {}, 0.0
    info = {"theta": theta, "trimmed": 0, "multi_group_superposed": 0, "window": 0}
    for w, terms in parts:
        wn = w / tot
        if w <= theta * (1 + BUDGET_EPS):
            info["trimmed"] += 1
            big_d += wn
            for o, p in py_probs(py_sv_amps(u, m, terms), m).items():
                d[o] = d.get(o, 0.0) + wn * p
            continue
        cs = [abs(cq(t["coef"])) ** 2 * term_scale(t["state"]) for t in terms]
        thr2 = []
        for c2, t in zip(cs, terms):
            ngroups = len([g for g in tags_of(t["state"])])
            thr2.append(theta / (10 * (c2 / sum(cs)) * w) * (1 + BUDGET_EPS) if ngroups >= 2 else 0.0)
        if len(terms) > 1 and any(thr2) and wn >= 1e-3:
            info["multi_group_superposed"] += 1
            # a product that the precision does NOT allow to neglect, but whose squared modulus is small
            # (below the square root of its threshold): the region where a threshold applied on the wrong scale shows
            for t, th in zip(terms, thr2):
                if th and any(th < abs(a) ** 2 <= math.sqrt(th) for a in py_term_amps(u, m, t["state"]).values()):
                    info["window"] += 1
                    break
        loc, sl = part_budget(u, m, terms, thr2)
        for o, e in loc.items():
            d[o] = d.get(o, 0.0) + wn * e
        big_d += wn * sl
    return d, big_d, info


def beyond_budget(obs, ref, d, big_d, extra=None, extra_slack=0.0, floor=1e-8):
    """obs, ref: {occupation: float}.  -> None or (key, observed, reference, allowed)"""
    if big_d >= 0.5:
        return None
    extra = extra or {}
    worst = None
    for k in set(obs) | set(ref):
        p = ref.get(k, 0.0)
        allowed = (d.get(k, 0.0) + p * big_d) / (1 - big_d) * 1.01 + extra.get(k, 0.0) + 2 * extra_slack + floor
        dev = abs(obs.get(k, 0.0) - p)
        if dev > allowed and (worst is None or dev / allowed > worst[4]):
            worst = (list(k), obs.get(k, 0.0), p, allowed, dev / allowed)
    return worst[:4] if worst else None


class Bad(Exception):
    def __init__(self, sig, what, detail=None):
        super().__init__(what)
        self.sig, self.what, self.detail = sig, what, detail or {}


# ------------------------------------------------------------------------------------------------
# one case
# ------------------------------------------------------------------------------------------------
def prepare(case):
    circuit = build_circuit(case["circ"])
    u = np.array(circuit.compute_unitary(), dtype=complex)
    return circuit, u


def conv_dicts(ds, m):
    cur = {tuple([0] * m): 1.0}
    for d in ds:
        nxt = {}
        for a, p in cur.items():
            for b, q in d.items():
                k = tuple(x + y for x, y in zip(a, b))
                nxt[k] = nxt.get(k, 0.0) + p * q
        cur = nxt
    return cur


def eval_case(chk, case, rep=None, prepared=None):
    """-> list of (kind, signature, what, detail)"""
    import perceval as pcvl
    kind = case["kind"]
    m = case["m"]
    circuit, u = prepared or prepare(case)
    if rep is None:
        if kind == "session":
            rep = [chk.lean.ask(r) for r in lean_requests(case, u)]
        else:
            rep = chk.lean.ask(lean_request(case, u))
    fails = []

    def record(sig, what, spec_agrees, prop_fails, detail=None):
        """classification: the property evaluated on the real code fails, or the implementation differs from the
        specification evaluated independently in numpy (which agrees with Lean) -> violation; else broken"""
        k = "violation" if (prop_fails or spec_agrees) else "broken"
        fails.append((k, sig, what, dict(detail or {}, case=case)))

    # ---------------- malformed stream
    if kind == "bad-modes":
        st = case["members"][0]["terms"][0]["state"]
        chk.branch("rejected")
        try:
            make_sim(case["engine"], circuit, 0).probs(build_bs(st))
            real = "accepted"
        except (AssertionError, ValueError, RuntimeError, TypeError, IndexError) as e:
            real = core.exc_class(e)
        if ("err" in rep) != (real != "accepted"):
            record("rejection-mismatch", f"state with {len(st)} modes on a {m}-mode circuit: code {real}, model {rep}",
                   False, False)
        return fails
    if kind == "dm-tagged":
        chk.branch("rejected")
        try:
            pcvl.DensityMatrix.from_svd(build_svd(case["members"]))
            real = "accepted"
        except (AssertionError, ValueError, RuntimeError, TypeError) as e:
            real = core.exc_class(e)
        if ("err" in rep) != (real != "accepted"):
            record("rejection-mismatch", f"tagged density matrix: code {real}, model {rep}", False, False)
        return fails

    prec = 0 if case["prec"] == "0" else None
    sim = make_sim(case["engine"], circuit, prec)
    if kind == "session":
        return judge_session(chk, case, rep, sim, circuit, u)
    return judge_one(chk, case, rep, sim, circuit, u)


JUDGES = {}


def judge_one(chk, case, rep, sim, circuit, u):
    """one request answered by `sim` (a new simulator, or the long-lived one of a session) -> list of failures"""
    kind = case["kind"]
    fails = []
    if "err" in rep:
        raise core.LeanError(f"model rejected a well-formed case: {rep['err']}")
    # outside the property: two basis states of the input that exqalibur's (asymmetric) equality identifies in one
    # direction - what the native StateVector / SVDistribution then holds depends on the order of insertion
    sts = [t["state"] for mb in case.get("members", []) for t in mb.get("terms", [])]
    if any(is_mixed(x) for x in sts):
        for i, x in enumerate(sts):
            if native_clash(x, [y for y in sts[:i] if y != x]):
                chk.count("skipped", "native-equality-asymmetric")
                return fails

    def record(sig, what, spec_agrees, prop_fails, detail=None):
        k = "violation" if (prop_fails or spec_agrees) else "broken"
        fails.append((k, sig, what, dict(detail or {}, case=case)))

    try:
        JUDGES[kind](chk, case, rep, sim, circuit, u, record)
    except core.LeanError:
        raise
    except Bad as b:
        record(b.sig, b.what, False, False, b.detail)
    except Exception as e:  # the real code raised on a legal input
        import traceback
        tb = traceback.extract_tb(e.__traceback__)
        inside = any("/perceval/" in fr.filename or "exqalibur" in fr.filename for fr in tb)
        if not inside:
            raise
        fails.append(("violation", f"{kind}-raises-{type(e).__name__}",
                      f"{type(e).__name__}: {str(e)[:160]} on a legal {kind} input", {"case": case}))
    return fails


def step_case(case, step):
    return {"kind": step["kind"], "m": case["m"], "engine": case["engine"], "prec": case["prec"], "circ": case["circ"],
            "members": step["members"], "outs": step.get("outs", [])}


def describe_step(step):
    mbs = step["members"]
    if step["kind"] == "bs":
        return f"probs/evolve of {build_bs(mbs[0]['terms'][0]['state'])}"
    if step["kind"] == "sv":
        return f"probs/evolve of {build_sv(mbs[0]['terms'])}"
    body = ", ".join(f"{build_sv(mb['terms'])}: {mb['w']}" for mb in mbs)
    return ("density matrix of {" if step["kind"] == "dm" else "probs_svd of {") + body + "}"


def judge_session(chk, case, reps, sim, circuit, u):
    """the property does not depend on what the Simulator object answered before: every request of the sequence is
    judged on the SAME long-lived simulator exactly as a lone request is on a new one; a failure that a new simulator
    does not show for the same input is a dependence on the history (a confirmed violation: the answer for this input
    differs from the exact value, and the same code on the same input gives the exact value)"""
    fails = []
    steps = case["steps"]
    chk.branch("session")
    if len({st["kind"] for st in steps}) >= 2:
        chk.branch("session-mixed-kinds")
    seen_dm = {}                                  # n_max -> basis states populated by the earlier density matrices
    for i, (step, rep) in enumerate(zip(steps, reps)):
        sub = step_case(case, step)
        if step["kind"] == "dm":
            sts = {tuple(occ(t["state"])) for mb in step["members"] for t in mb["terms"]}
            nmax = max(sum(x) for x in sts)
            if nmax in seen_dm:
                chk.branch("session-dm-same-basis")
                if sts - seen_dm[nmax]:
                    chk.branch("session-dm-new-support")
                if sts < seen_dm[nmax]:
                    chk.branch("session-dm-sub-support")
            seen_dm[nmax] = seen_dm.get(nmax, set()) | sts
        f1 = judge_one(chk, sub, rep, sim, circuit, u)
        if not f1:
            continue
        sigs2 = set()
        if i > 0:
            fresh = make_sim(case["engine"], circuit, 0 if case["prec"] == "0" else None)
            sigs2 = {f[1] for f in judge_one(Rec(chk.thorough), sub, rep, fresh, circuit, u)}
        hist = [f for f in f1 if f[1] not in sigs2] if i > 0 else []
        for k, sig, what, detail in f1:
            if i == 0 or sig in sigs2:
                fails.append((k, sig, what, dict(detail, case=case, step=i)))
        if hist:
            k, sig, what, detail = hist[0]
            before = "; ".join(describe_step(st) for st in steps[:i])
            fails.append(("violation", "history-" + step["kind"],
                          f"request {i + 1} on one long-lived Simulator (same circuit; before: {before}): {what} — a new "
                          f"Simulator answers this very input correctly ({sig})", dict(detail, case=case, step=i)))
            break                                 # the simulator's state is no longer the one a correct history leaves
    return fails


def judge_bs(chk, case, rep, sim, circuit, u, record):
    import perceval as pcvl
    m = case["m"]
    st = case["members"][0]["terms"][0]["state"]
    bs = build_bs(st)
    n = bs.n
    tags = rep["tags"]
    groups = rep["groups"]
    # model-internal: code-shaped merge = specification convolution = reversed merge order
    if not same_exact(rep["probs"], rep["conv"]) or not same_exact(rep["conv"], rep["conv_rev"]) \
            or not rep["evolve_is_spec"]:
        raise Bad("model-internal", "the model's code-shaped evaluation differs from its own specification")
    if len(tags) >= 2:
        chk.branch("multi-tag")
    if any(len(set(mode)) >= 2 for mode in st):
        chk.branch("two-tags-in-one-mode")
    if n == 0:
        chk.branch("vacuum")
    # separate_state (native) is the modelled split
    sep = sorted(tuple(x) for x in bs.separate_state(keep_annotations=False))
    if sep != sorted(tuple(g) for g in groups):
        raise Bad("separate-state", f"separate_state gives {sep}, model groups {groups}")
    # the annotation of every group (`_annot_state_mapping`: native separate_state(keep_annotations=True) and
    # get_photon_annotation(0)) is the modelled one; for a state mixing annotated and un-annotated photons this is the
    # native rule of Model/C03Mixed.lean (`native`, theorem separate_native_groups)
    from perceval.simulators._simulator_utils import _annot_state_mapping
    real_map = sorted((0 if str(a) == "" else int(str(a).split(":")[1]) + 1, tuple(g))
                      for a, g in _annot_state_mapping(build_bs(st)).items())
    if real_map != sorted((t, tuple(g)) for t, g in rep["annot"]):
        raise Bad("annot-state-mapping", f"_annot_state_mapping({bs}) gives {real_map}, model {rep['annot']}")
    if [sorted(x) for x in rep["native"]] != [sorted(x) for x in eff(st)] \
            or sorted(map(tuple, rep["mixedGroups"])) != sorted(tuple(g) for g in groups):
        raise Bad("model-internal", "the relabelled state / the written-out groups differ inside the model or from the "
                  "harness's own evaluation of the rule")
    if is_mixed(st):
        chk.branch("mixed-bs")
        if len(tags) >= 2:
            chk.branch("mixed-multi-group")
        elif tags == [0]:
            chk.branch("mixed-one-group-unlabelled")
        else:
            chk.branch("mixed-one-group-labelled")
    exact = exact_dist(rep["probs"])
    spec = py_probs(py_term_amps(u, m, st), m)
    spec_ok = cmp_dist(spec, exact, 1e-7) is None

    def prop_conv():
        """the property on the real code: probs(tagged) = convolution of probs(group)"""
        s2 = make_sim(case["engine"], circuit, 0)
        ds = [bsd_to_dict(s2.probs(pcvl.BasicState(list(g)))) for g in groups]
        whole = bsd_to_dict(make_sim(case["engine"], circuit, 0).probs(build_bs(st)))
        return cmp_float_dist(conv_dicts(ds, m), whole) is not None

    # probs
    obs = bsd_to_dict(sim.probs(build_bs(st)))
    d = cmp_dist(obs, exact)
    if d:
        record("tagged-probs", f"Simulator.probs({bs})[{d[0]}] = {d[1]!r}, convolution of the groups gives {d[2]!r}",
               spec_ok, prop_conv())
    # evolve
    ev = sv_to_dict(sim.evolve(build_bs(st)))
    ex_amp = lean_amps(rep["evolve"], tags, float(Fraction(rep["norm2"])))
    loss, _, slack = loss_profile(u, m, case["members"][0]["terms"])
    if loss:
        chk.branch("native-amplitude-cutoff")
    d = cmp_amps(ev, ex_amp, extra=loss, slack=slack)
    if d:
        sp = py_term_amps(u, m, st)
        record("tagged-evolve", f"Simulator.evolve({bs}) amplitude of {d[0]} = {d[1]:.9g}, product of group "
               f"amplitudes {d[2]:.9g}", cmp_amps(sp, ex_amp, 1e-7) is None, False)
    # the same at the DEFAULT precision: no threshold applies to probs / evolve of one Fock state
    simd = make_sim(case["engine"], circuit, None)
    d = cmp_dist(bsd_to_dict(simd.probs(build_bs(st))), exact, DEFAULT_PREC)
    if d:
        record("tagged-probs-default-precision", f"default precision: Simulator.probs({bs})[{d[0]}] = {d[1]!r}, "
               f"convolution of the groups gives {d[2]!r} (differs by more than the precision)", spec_ok, prop_conv())
    d = cmp_amps(sv_to_dict(simd.evolve(build_bs(st))), ex_amp, DEFAULT_PREC, extra=loss, slack=slack)
    if d:
        record("tagged-evolve-default-precision", f"default precision: Simulator.evolve({bs}) amplitude of {d[0]} = "
               f"{d[1]:.9g}, product of group amplitudes {d[2]:.9g} (differs by more than the precision)",
               cmp_amps(py_term_amps(u, m, st), ex_amp, 1e-7) is None, False)
    # probability for ALL outputs
    for t, p in rep["probability"]:
        o = float(sim.probability(build_bs(st), pcvl.BasicState(t)))
        if n > 0 and not core.close(float(Fraction(p)), float(exact.get(tuple(t), Fraction(0))), 1e-12):
            raise Bad("model-internal", "probabilityBS differs from the convolution inside the model")
        if not core.close(o, float(Fraction(p))):
            record("tagged-probability", f"Simulator.probability({bs}, {t}) = {o!r}, expected {float(Fraction(p))!r}",
                   spec_ok, prop_conv())
            break
    # prob_amplitude on annotated outputs
    for out, (num, fp) in zip(case["outs"], rep["pa"]):
        ob = build_bs(out)
        if is_mixed(out):
            chk.branch("mixed-out")
        o = complex(sim.prob_amplitude(build_bs(st), ob))
        e = core.uncx(num) / math.sqrt(fp)
        chk.branch("pa-zero" if e == 0 else "pa-nonzero")
        if not core.close(o, e):
            sp = py_term_amps(u, m, st).get(canon_key(out), 0j) if tags_of(out) and sorted(tags_of(out)) == sorted(tags_of(st)) else None
            record("prob-amplitude", f"Simulator.prob_amplitude({bs}, {ob}) = {o:.9g}, expected {e:.9g}",
                   sp is not None and core.close(sp, e, 1e-7), False, {"out": out})
            break
    # one-member mixture: fast path of probs_svd
    r = sim.probs_svd(pcvl.SVDistribution(build_bs(st)))
    d = cmp_dist(bsd_to_dict(r["results"]), exact)
    if d:
        record("svd-fast-single", f"probs_svd({{{bs}: 1}})[{d[0]}] = {d[1]!r}, expected {d[2]!r}", spec_ok, prop_conv())
    # merge order: relabel the tags by a permutation (groups are merged in another order)
    if len(tags) >= 2:
        perm = dict(zip(tags, tags[1:] + tags[:1]))
        st2 = [sorted(perm[t] for t in mode) for mode in eff(st)]
        obs2 = bsd_to_dict(make_sim(case["engine"], circuit, 0).probs(build_bs(st2)))
        d = cmp_dist(obs2, exact)
        if d:
            record("merge-order", f"relabelled tags: probs[{d[0]}] = {d[1]!r}, expected {d[2]!r}", spec_ok, True)


def judge_sv(chk, case, rep, sim, circuit, u, record):
    import perceval as pcvl
    m = case["m"]
    terms = case["members"][0]["terms"]
    tags = rep["tags"]
    if not rep["evolve_is_spec"] or not same_exact(rep["probs"], rep["spec"]):
        raise Bad("model-internal", "the model's code-shaped evaluation differs from its own specification")
    ns = sorted(set(sum(len(x) for x in t["state"]) for t in terms))
    chk.branch("sv-unequal-n" if len(ns) > 1 else "sv-equal-n")
    if any(tags_of(t["state"]) not in ([], [0]) for t in terms):
        chk.branch("sv-tagged")
    if any(is_mixed(t["state"]) for t in terms):
        chk.branch("mixed-sv")
    wk = weak_info(case["members"])
    if "weak-term" in wk:
        chk.branch("sv-weak-term")
    if "weak-coherent" in wk:
        chk.branch("sv-weak-coherent-term")
    norm2 = float(Fraction(rep["norm2"]))
    ex_amp = lean_amps(rep["evolve"], tags, norm2)
    spec_amp = py_sv_amps(u, m, terms)
    spec_ok = cmp_amps(spec_amp, ex_amp, 1e-7) is None
    exact = exact_dist(rep["probs"])

    def prop_linear(prec=0, tol=1e-7):
        """the property on the real code: evolve(∑ c_k s_k) = ∑ c_k evolve(s_k)"""
        s2 = make_sim(case["engine"], circuit, prec)
        cs = [cq(t["coef"]) * math.sqrt(term_scale(t["state"])) for t in terms]
        nrm = math.sqrt(sum(abs(c) ** 2 for c in cs))
        acc = {}
        for c, t in zip(cs, terms):
            for k, a in sv_to_dict(s2.evolve(build_bs(t["state"]))).items():
                acc[k] = acc.get(k, 0j) + c / nrm * a
        whole = sv_to_dict(make_sim(case["engine"], circuit, prec).evolve(build_sv(terms)))
        lo, _, sl = loss_profile(u, m, terms)
        return cmp_amps(whole, acc, tol, extra=lo, slack=sl) is not None

    sv = build_sv(terms)
    if len(sv) != len(terms):
        raise Bad("harness", "generated terms are not distinct basis states")
    loss, ploc, slack = loss_profile(u, m, terms)
    if loss:
        chk.branch("native-amplitude-cutoff")
    # the vector `evolve` returns, amplitude by amplitude, against the model's exact amplitudes; what the native cut may
    # change is bounded by the model (`lossAt`, theorem evolve_cut_bound), not by the Python profile; a unitary circuit
    # preserves the norm (theorem evolve_preserves_norm): the model's output norm must be the input's
    if abs(float(Fraction(rep["outNorm2"]) / Fraction(rep["norm2"])) - 1.0) > 1e-9:
        raise Bad("model-internal", "the evolved vector of the model does not have the norm of the input")
    mloss = model_loss(rep["loss"], tags, ex_amp)
    if rep["loss"]:
        chk.branch("evolve-cut-model-loss")
    ev = sv_to_dict(sim.evolve(build_sv(terms)))
    d = cmp_amps(ev, ex_amp, extra=mloss, slack=slack)
    if d:
        record("evolve-linear", f"Simulator.evolve({sv}) amplitude of {d[0]} = {d[1]:.9g}, the superposition of the "
               f"evolved terms has {d[2]:.9g}", spec_ok, prop_linear())
    obs = bsd_to_dict(sim.probs(build_sv(terms)))
    d = cmp_dist(obs, exact, extra=ploc, slack=slack)
    if d:
        record("sv-probs", f"Simulator.probs({sv})[{d[0]}] = {d[1]!r}, expected {d[2]!r}", spec_ok, prop_linear())
    for t in [list(k) for k in exact][:12]:
        o = float(sim.probability(build_sv(terms), pcvl.BasicState(t)))
        e = float(exact[tuple(t)])
        if abs(o - e) > core.TOL * (1 + abs(e)) + ploc.get(tuple(t), 0.0) + 2 * slack:
            record("sv-probability", f"Simulator.probability({sv}, {t}) = {o!r}, expected {e!r}", spec_ok, prop_linear())
            break
    # the entry points that only dispatch (Model/C03Entry.lean, Props/C03 section 17): `probs(StateVector)` with its
    # one-component branch against `probsSVentry`, `probability(StateVector, BasicState)` against `probabilitySV` for
    # the requested occupations (possible, impossible, another photon number; plain and annotated output objects)
    # (exactly the specification for an exactly unitary matrix — theorem probsSVentry_eq_spec; the reported matrix is
    # unitary up to rounding, and both branches divide by the OUTPUT mass: agreement to 1e-9)
    ent, spc = exact_dist(rep["entry"]), exact_dist(rep["spec"])
    if not rep["entry_is_spec"] and any(abs(float(ent.get(k, 0) - spc.get(k, 0))) > 1e-9 for k in set(ent) | set(spc)):
        raise Bad("model-internal", "probsSVentry differs from the specification probsSV")
    if (rep["entryBranch"] == "single") != (len(sv) == 1):
        raise Bad("harness", "the model and the native container count the components differently")
    chk.branch("sv-one-component" if len(sv) == 1 else "sv-several-components")
    if len(sv) == 1 and len(tags_of(terms[0]["state"])) >= 2:
        chk.branch("sv-one-component-multi-tag")

    def prop_entry(t=None):
        """on the real code, without the model: probs(ψ) = the numpy specification's distribution, probability(ψ, t) =
        probs(ψ)[t], and a one-component ψ = c·|s⟩ gives what the basis state |s⟩ gives"""
        s2 = make_sim(case["engine"], circuit, 0)
        ref = py_probs(spec_amp, m)
        whole = bsd_to_dict(s2.probs(build_sv(terms)))
        tol = 1e-7 + 2 * slack
        keys = set(ref) | set(whole)
        if any(abs(whole.get(k, 0.0) - ref.get(k, 0.0)) > tol + ploc.get(k, 0.0) for k in keys):
            return True
        if len(terms) == 1:
            asbs = bsd_to_dict(make_sim(case["engine"], circuit, 0).probs(build_bs(terms[0]["state"])))
            if any(abs(whole.get(k, 0.0) - asbs.get(k, 0.0)) > tol for k in set(whole) | set(asbs)):
                return True
        if t is not None:
            pt = float(make_sim(case["engine"], circuit, 0).probability(build_sv(terms), pcvl.BasicState(t)))
            if abs(pt - ref.get(tuple(t), 0.0)) > tol + ploc.get(tuple(t), 0.0):
                return True
        return False

    d = cmp_dist(obs, exact_dist(rep["entry"]), extra=ploc, slack=slack)
    if d:
        record("sv-probs-entry", f"Simulator.probs({sv})[{d[0]}] = {d[1]!r}, expected {d[2]!r} "
               f"({rep['entryBranch']} branch)", spec_ok, prop_entry())
    for t, p in rep["probabilitySV"]:
        e = float(Fraction(p))
        tol = core.TOL * (1 + abs(e)) + ploc.get(tuple(t), 0.0) + 2 * slack
        o = float(sim.probability(build_sv(terms), pcvl.BasicState(t)))
        # an annotated output object: the code clears its annotations, the requested occupation is what counts
        o2 = float(sim.probability(build_sv(terms), build_bs([[9] * k for k in t]))) if sum(t) else o
        chk.branch("sv-probability-zero-outcome" if e == 0 else "sv-probability-nonzero-outcome")
        if sum(t) not in ns:
            chk.branch("sv-probability-other-photon-number")
        if abs(o - e) > tol or abs(o2 - e) > tol:
            which = "" if abs(o - e) > tol else " (annotated output object)"
            record("sv-probability-entry", f"Simulator.probability({sv}, {t}){which} = {(o if not which else o2)!r}, "
                   f"expected {e!r}", spec_ok, prop_entry(t), {"pout": t})
            break
    for out, (num, tf) in zip(case["outs"], rep["pa"]):
        ob = build_bs(out)
        o = complex(sim.prob_amplitude(build_sv(terms), ob))
        e = core.uncx(num) / math.sqrt(tf * norm2)
        chk.branch("pa-zero" if e == 0 else "pa-nonzero")
        if not core.close(o, e):
            sp = spec_amp.get(canon_key(out), 0j)
            record("sv-prob-amplitude", f"Simulator.prob_amplitude({sv}, {ob}) = {o:.9g}, expected {e:.9g}",
                   core.close(sp, e, 1e-7), False, {"out": out})
            break
    # generic path of probs_svd on the one-member mixture (with the split by photon number)
    r = sim.probs_svd(pcvl.SVDistribution(build_sv(terms)))
    d = cmp_dist(bsd_to_dict(r["results"]), exact, extra=ploc, slack=slack)
    if d:
        record("svd-generic-single", f"probs_svd({{{sv}: 1}})[{d[0]}] = {d[1]!r}, expected {d[2]!r}", spec_ok,
               prop_linear())
    # the same requests at the DEFAULT precision (1e-6): evolve / probs of one state vector apply no threshold in the
    # code, and "up to the configured precision" permits 1e-6 at most — in particular a term may not be neglected
    # because its squared coefficient is small (its contribution to an amplitude is c·a, not |c|²)
    chk.branch("sv-default-precision")
    simd = make_sim(case["engine"], circuit, None)
    evd = sv_to_dict(simd.evolve(build_sv(terms)))
    d = cmp_amps(evd, ex_amp, DEFAULT_PREC, extra=mloss, slack=slack)
    if d:
        record("evolve-linear-default-precision", f"default precision: Simulator.evolve({sv}) amplitude of {d[0]} = "
               f"{d[1]:.9g}, the superposition of the evolved terms has {d[2]:.9g} (differs by more than the precision)",
               spec_ok, prop_linear(None, DEFAULT_PREC))
    obsd = bsd_to_dict(simd.probs(build_sv(terms)))
    d = cmp_dist(obsd, exact, DEFAULT_PREC, extra=ploc, slack=slack)
    if d:
        record("sv-probs-default-precision", f"default precision: Simulator.probs({sv})[{d[0]}] = {d[1]!r}, expected "
               f"{d[2]!r} (differs by more than the precision)", spec_ok, prop_linear(None, DEFAULT_PREC))
    # one long-lived simulator: other coefficients on the same basis states, then the first input again — the answers
    # must be those of a fresh simulator (the cache of evolved groups is shared between the calls)
    alt = []
    for k, t in enumerate(terms):
        re, im = (Fraction(x) for x in terms[(k + 1) % len(terms)]["coef"])
        z = [(re, im), (-im, re), (-re, -im), (im, -re)][k % 4]
        alt.append({"coef": [core.rat(z[0] * (k + 2)), core.rat(z[1] * (k + 2))], "state": t["state"]})
    chk.branch("sv-history")
    for name, tt in (("other coefficients", alt), ("the first input again", terms)):
        fresh = make_sim(case["engine"], circuit, 0)
        a, b = sv_to_dict(sim.evolve(build_sv(tt))), sv_to_dict(fresh.evolve(build_sv(tt)))
        d = cmp_amps(a, b, 1e-9)
        if d is None:
            pa, pb = bsd_to_dict(sim.probs(build_sv(tt))), bsd_to_dict(fresh.probs(build_sv(tt)))
            dd = cmp_float_dist(pa, pb, 1e-9)
            d = dd and (dd[0], dd[1], dd[2])
        if d:
            record("sv-history", f"after evolving {sv} on the same Simulator, {name}: {build_sv(tt)} gives {d[1]:.9g} at "
                   f"{d[0]}, a fresh Simulator gives {d[2]:.9g}", False, True)
            break


def judge_evolve_svd(chk, case, rep, sim, circuit, u, record, spec_ok):
    """`Simulator.evolve_svd` = the mixture of the members' `evolve`s (Props/C03 `evolveSvd_is_mixture`): every vector of
    the result is, amplitude by amplitude, the model's exact evolved member (up to the native cut, bounded by the model),
    with that member's share of the weight; measured, the result gives the exact mixture"""
    import perceval as pcvl
    ev = rep.get("ev")
    if not ev:
        return
    m = case["m"]
    members = case["members"]
    tags = ev["tags"]
    chk.branch("evolve-svd")
    if any(len(mb["terms"]) > 1 for mb in members):
        chk.branch("evolve-svd-superposed")
    if any(tags_of(t["state"]) not in ([], [0]) for mb in members for t in mb["terms"]):
        chk.branch("evolve-svd-tagged")
    tot = sum(Fraction(mb["w"]) for mb in members)
    expect = []
    for mb, mrep in zip(members, ev["members"]):
        if not mrep["evolve_is_spec"]:
            raise Bad("model-internal", "evolveSvd member differs from the specification inside the model")
        n2 = Fraction(mrep["norm2"])
        if abs(float(Fraction(mrep["outNorm2"]) / n2) - 1.0) > 1e-9:
            raise Bad("model-internal", "an evolved member of the model does not have the norm of its input")
        amps = lean_amps(mrep["evolve"], tags, float(n2))
        if mrep["loss"]:
            chk.branch("evolve-cut-model-loss")
        # (the vector is normalised AFTER the cut: what the cut takes from the norm rescales every amplitude — the
        # member's own probability slack of `loss_profile`, zero when nothing is below the cut)
        expect.append((amps, float(Fraction(mb["w"]) / tot), model_loss(mrep["loss"], tags, amps),
                       loss_profile(u, m, mb["terms"])[2] if mrep["loss"] else 0.0))
    if cmp_dist({k: float(v) for k, v in exact_dist(ev["probs"]).items()}, exact_dist(rep["spec"]), 1e-9) is not None:
        raise Bad("model-internal", "measuring the model's evolve_svd does not give the specification mixture")
    ploc, slack = mix_profile(u, m, members)

    def prop_mixture():
        """the property on the real code: evolve_svd(mixture) = {evolve(member_i): w_i}"""
        s2 = make_sim(case["engine"], circuit, 0)
        ref = [(sv_to_dict(s2.evolve(build_sv(mb["terms"]))), float(Fraction(mb["w"]) / tot)) for mb in members]
        got = make_sim(case["engine"], circuit, 0).evolve_svd(build_svd(members))["results"]
        got = [(sv_to_dict(sv), float(p)) for sv, p in got.items()]
        acc = [0.0] * len(got)
        for amps, w in ref:
            js = [j for j, (a, _) in enumerate(got) if cmp_amps(a, amps, 1e-8) is None]
            if not js:
                return True
            acc[js[0]] += w
        return any(abs(a - p) > 1e-8 for a, (_, p) in zip(acc, got))

    r = sim.evolve_svd(build_svd(members))
    got = [(sv_to_dict(sv), float(p)) for sv, p in r["results"].items()]
    acc = [0.0] * len(got)
    for i, (amps, w, loss, msl) in enumerate(expect):
        js = [j for j, (a, _) in enumerate(got) if cmp_amps(a, amps, extra=loss, slack=msl) is None]
        if not js:
            # name the closest vector of the result
            best = None
            for a, _ in got:
                d = cmp_amps(a, amps, extra=loss, slack=msl)
                dev = abs(d[1] - d[2])
                if best is None or dev < best[0]:
                    best = (dev, d)
            d = best[1] if best else ((), 0j, 0j)
            record("evolve-svd-member", f"evolve_svd: no vector of the result is the evolved member {i} "
                   f"({build_sv(members[i]['terms'])}): closest has amplitude {d[1]:.9g} at {d[0]}, evolving the member "
                   f"gives {d[2]:.9g}", spec_ok, prop_mixture())
            return
        acc[js[0]] += w
    for j, (a, (_, p)) in enumerate(zip(acc, got)):
        if abs(a - p) > core.TOL + core.TOL * abs(a):
            record("evolve-svd-weight", f"evolve_svd: vector {j} of the result has weight {p!r}, the members evolving to it "
                   f"weigh {a!r}", spec_ok, prop_mixture())
            return
    if not core.close(float(r["physical_perf"]), float(tot)) or abs(float(r["logical_perf"]) - 1.0) > 2 * core.TOL + 2 * slack:
        record("evolve-svd-perf", f"evolve_svd: perf ({r['physical_perf']}, {r['logical_perf']}) without any selection "
               f"(total weight {float(tot)})", False, True)
        return
    # measured: ∑_j p_j |amplitude_j(k)|², annotations cleared, against the exact mixture
    meas = {}
    for a, p in got:
        for k, z in a.items():
            o = key_occ(k, m)
            meas[o] = meas.get(o, 0.0) + p * abs(z) ** 2
    d = cmp_dist(meas, exact_dist(rep["spec"]), extra=ploc, slack=slack)
    if d:
        record("evolve-svd-mixture", f"measuring evolve_svd's result gives {d[1]!r} at {d[0]}, the weighted sum of the "
               f"members gives {d[2]!r}", spec_ok, prop_mixture())


def trim_bound(case, rep, m):
    """declared error bound at the default precision: input mass removed by `_preprocess_svd`
    (`trim_error_bound`, evaluated by the model) plus the slack of the internal product thresholds"""
    theta = float(Fraction(rep["theta"]))
    tot = float(Fraction(rep["totalW"]))
    cut = float(Fraction(rep["cutMass"])) / tot
    nodes = 0
    for mb in case["members"]:
        for t in mb["terms"]:
            sizes = [math.comb(sum(group_of(g, t["state"])) + m - 1, m - 1) for g in tags_of(t["state"])] or [1]
            acc = 1
            for s in sizes:
                acc *= s
                nodes += acc
    if rep["superposed"]:
        # amplitude threshold sqrt(θ/(10 |c|² w)): dropped amplitude per output ≤ nodes·sqrt(θ/(10 w)); loose
        delta = nodes * math.sqrt(theta / 10 / max(min(float(Fraction(mb["w"])) for mb in case["members"]), theta))
        inner = min(1.0, 2 * delta + delta * delta)
    else:
        inner = nodes * theta / 10 / tot
    return cut, inner


def judge_svd(chk, case, rep, sim, circuit, u, record):
    import perceval as pcvl
    m = case["m"]
    members = case["members"]
    default = case["prec"] == "default"
    chk.branch("svd-generic" if rep["superposed"] else "svd-fast")
    if any(is_mixed(t["state"]) for mb in members for t in mb["terms"]):
        chk.branch(("mixed-svd-generic" if rep["superposed"] else "mixed-svd-fast") + ("-default-precision" if default else ""))
    if any(len(set(sum(len(x) for x in t["state"]) for t in mb["terms"])) > 1 for mb in members):
        chk.branch("svd-split")
    ov = overlap_info(members)
    if "shared" in ov:
        chk.branch("svd-shared-basis-states")
    if "member+sector" in ov:
        chk.branch("svd-sector-is-member")
    if "sector+sector" in ov:
        chk.branch("svd-sector-twice")
    if default and ov & {"member+sector", "sector+sector"}:
        chk.branch("svd-key-accumulates-default-precision")
    wk = weak_info(members)
    if "weak-term" in wk:
        chk.branch("svd-weak-term")
        if default:
            chk.branch("svd-weak-term-default-precision")
    tot = sum(Fraction(mb["w"]) for mb in members)
    if tot != 1:
        chk.branch("svd-unnormalised-weights")
    if not default and not same_exact(rep["probs"], rep["spec"]):
        raise Bad("model-internal", "probsSvd at precision 0 differs from the mixture specification inside the model")
    spec = py_svd(u, m, members)
    exact_full = exact_dist(rep["spec"])
    spec_ok = cmp_dist(spec, exact_full, 1e-7) is None

    def prop_convex():
        """the property on the real code: probs_svd(mixture) = ∑ w_i probs(member_i)"""
        s2 = make_sim(case["engine"], circuit, 0)
        acc = {}
        for mb in members:
            w = float(Fraction(mb["w"]) / tot)
            inp = build_sv(mb["terms"]) if len(mb["terms"]) > 1 else build_bs(mb["terms"][0]["state"])
            for k, p in bsd_to_dict(s2.probs(inp)).items():
                acc[k] = acc.get(k, 0.0) + w * p
        whole = bsd_to_dict(make_sim(case["engine"], circuit, 0).probs_svd(build_svd(members))["results"])
        return cmp_float_dist(acc, whole) is not None

    judge_evolve_svd(chk, case, rep, make_sim(case["engine"], circuit, None if default else 0), circuit, u, record, spec_ok)
    r = sim.probs_svd(build_svd(members))
    obs = bsd_to_dict(r["results"])
    ploc, slack = mix_profile(u, m, members) if rep["superposed"] else ({}, 0.0)
    if ploc:
        chk.branch("native-amplitude-cutoff")
    if not default:
        d = cmp_dist(obs, exact_full, extra=ploc, slack=slack)
        if d:
            record("mixture-convex-" + ("generic" if rep["superposed"] else "fast"),
                   f"probs_svd({{{', '.join(str(build_sv(mb['terms'])) + ': ' + mb['w'] for mb in members[:6])}"
                   f"{', …' if len(members) > 6 else ''}}})[{d[0]}] = {d[1]!r}, the weighted sum of the members gives "
                   f"{d[2]!r}", spec_ok, prop_convex())
        # (the generic path sums the squared moduli of the recombined vector before any normalisation: what the native
        # container discarded of a weak term — `slack`, zero in general — shows in logical_perf as it does in the results)
        if tot == 1 and (not core.close(float(r["physical_perf"]), 1.0) or
                         abs(float(r["logical_perf"]) - 1.0) > 2 * core.TOL + 2 * slack):
            record("mixture-perf", f"perf ({r['physical_perf']}, {r['logical_perf']}) without any selection", False, True)
        return
    # default precision: members below the threshold are trimmed
    if Fraction(rep["cutMass"]) > 0:
        chk.branch("trim-fires")
    # the proved bound (Props/C03 section 10, `probsSvd_precision_bound`): the driver evaluates its right-hand side
    # exactly for this input — errNorm[t] = (errAt t + P(t)·errTot) / mass per outcome, tv2 = 2·errTot / mass in total —
    # and whether the hypotheses of the theorem hold; the model's own result must obey it (else the driver does not
    # compute what the theorem is about), and the implementation must obey it up to the float tolerance and the
    # native amplitude cut-off
    err_norm = exact_dist(rep["errNorm"])
    err_tot = Fraction(rep["errTot"])
    tv2 = float(Fraction(rep["tv2"]))
    if not rep["hyps"]:
        raise Bad("model-internal", "the hypotheses of probsSvd_precision_bound do not hold for a generated mixture")
    model_probs = exact_dist(rep["probs"])
    for k in set(model_probs) | set(exact_full):
        if abs(model_probs.get(k, 0) - exact_full.get(k, 0)) > err_norm.get(k, 0):
            raise Bad("model-internal", f"probsSvd_precision_bound is contradicted by the driver's own values at {list(k)}")
    if sum(abs(model_probs.get(k, 0) - exact_full.get(k, 0)) for k in set(model_probs) | set(exact_full)) > \
            Fraction(rep["tv2"]):
        raise Bad("model-internal", "the total-variation bound of probsSvd_precision_bound is contradicted by the driver")
    if err_tot > 0:
        chk.branch("prec-theorem-applies")
        if rep["superposed"] and err_tot > Fraction(rep["trimMass"]):
            chk.branch("prec-theorem-coherent-loss")
        if not rep["superposed"] and err_tot > Fraction(rep["trimMass"]):
            chk.branch("prec-theorem-product-loss")
        if rep["dropped"]:
            chk.branch("prec-theorem-trimmed-member")
    chk.count("proved_bound", f"1e{int(math.floor(math.log10(float(err_tot) + 1e-300)))}")
    keys = set(obs) | set(exact_full)
    over = None
    for k in keys:
        allowed = float(err_norm.get(k, 0)) + ploc.get(k, 0.0) + 2 * slack + core.TOL + core.TOL * float(exact_full.get(k, 0))
        dev = abs(obs.get(k, 0.0) - float(exact_full.get(k, 0)))
        if dev > allowed and (over is None or dev - allowed > over[4]):
            over = (list(k), obs.get(k, 0.0), float(exact_full.get(k, 0)), allowed, dev - allowed)
    tv_obs = sum(abs(obs.get(k, 0.0) - float(exact_full.get(k, 0))) for k in keys)
    tv_allowed = tv2 + 2 * slack + sum(ploc.values()) + core.TOL * (len(keys) + 1)
    # the property itself at the configured precision, evaluated without the Lean model: the result may differ from the
    # weighted sum of the members only by what the precision permits to neglect (`precision_budget`)
    bd, big_d, info = precision_budget(u, m, members)
    if info["trimmed"]:
        chk.branch("budget-trims-member")
    if info["multi_group_superposed"]:
        chk.branch("default-precision-superposed-multigroup")
    if info["window"] and big_d < 1e-3:
        chk.branch("budget-discriminating")
    chk.count("precision_budget", f"1e{int(math.floor(math.log10(big_d + 1e-300)))}")
    why = None
    b1 = beyond_budget(obs, spec, bd, big_d) if spec_ok else None
    if b1:
        why = (f"default precision: probs_svd[{b1[0]}] = {b1[1]!r}, the weighted sum of the members (from the circuit's "
               f"matrix) is {b1[2]!r}; the precision {DEFAULT_PREC:g} accounts for at most {b1[3]:.3g}")
    nloc, nslack = mix_profile(u, m, members)
    acc = {}
    s2 = make_sim(case["engine"], circuit, 0)
    for mb in members:
        w = float(Fraction(mb["w"]) / tot)
        inp = build_sv(mb["terms"]) if len(mb["terms"]) > 1 else build_bs(mb["terms"][0]["state"])
        for k, p in bsd_to_dict(s2.probs(inp)).items():
            acc[k] = acc.get(k, 0.0) + w * p
    b2 = beyond_budget(obs, acc, bd, big_d, extra=nloc, extra_slack=nslack, floor=1e-7)
    if b2 and why is None:
        why = (f"default precision: probs_svd[{b2[0]}] = {b2[1]!r}, but ∑ wᵢ·probs(memberᵢ) = {b2[2]!r} on the same "
               f"simulator class; the precision {DEFAULT_PREC:g} accounts for at most {b2[3]:.3g}")
    if why:
        record("precision-exceeded", why, bool(b1), bool(b2))
    elif over:
        # beyond the proved bound of the modelled algorithm but within what the precision permits (direct oracle):
        # model and implementation disagree
        record("precision-bound", f"default precision: probs_svd[{over[0]}] = {over[1]!r}, the exact mixture gives "
               f"{over[2]!r}; the bound proved for the model (probsSvd_precision_bound) allows {over[3]:.3g}",
               False, False)
    elif tv_obs > tv_allowed:
        record("precision-bound-tv", f"default precision: ∑|probs_svd − exact mixture| = {tv_obs:.3g} exceeds the proved "
               f"total bound 2·errTot/mass = {tv_allowed:.3g}", False, False)
    # the model of the trimming itself: input trimming, product thresholds of the fast path and amplitude
    # thresholds of `_merge_sv` on the generic path, emulated exactly
    model = exact_dist(rep["probs"])
    if not same_exact(rep["probs"], rep["keptExact"]):
        chk.branch("threshold-bites-" + ("generic" if rep["superposed"] else "fast"))
    d = cmp_dist(obs, model, core.TOL, extra=ploc, slack=slack)
    if d:
        record("trim-model", f"default precision: probs_svd[{d[0]}] = {d[1]!r}, model of _preprocess_svd gives {d[2]!r}",
               False, False)


def judge_dm(chk, case, rep, sim, circuit, u, record):
    import perceval as pcvl
    m = case["m"]
    members = case["members"]
    if not rep["dm_eq_svd"]:
        raise Bad("model-internal", "diag(VρV†) differs from ∑ wᵢ|Vψᵢ|² inside the model")
    if any(len(mb["terms"]) > 1 for mb in members):
        chk.branch("dm-coherences")
    # populations far below DensityMatrix.precision / the simulator's precision whose amplitudes are not negligible
    wk = weak_info(members)
    for shape in ("weak-term", "weak-coherent", "weak-member"):
        if shape in wk:
            chk.branch({"weak-term": "dm-weak-term", "weak-coherent": "dm-weak-coherent-term",
                        "weak-member": "dm-weak-member"}[shape])
    svd = build_svd(members)
    dm = pcvl.DensityMatrix.from_svd(svd)
    basis = [tuple(b) for b in rep["basis"]]
    idx = [basis.index(tuple(s)) for s in dm.inverse_index]
    if sorted(idx) != list(range(len(basis))):
        raise Bad("dm-basis", "FockBasis differs from the model's basis")
    # expected matrix from the mixture route: ∑ wᵢ aᵢ aᵢ†
    fac = [math.sqrt(fact_prod(b)) for b in basis]
    exp = np.zeros((len(basis), len(basis)), dtype=complex)
    for mbr in rep["members"]:
        a = np.array([core.uncx(z) / f for z, f in zip(mbr["amps"], fac)]) / math.sqrt(float(Fraction(mbr["norm2"])))
        exp += float(Fraction(mbr["w"])) * np.outer(a, a.conj())
    # and its diagonal from the density-matrix route
    for (t, num, tf), i in zip(rep["diag"], range(len(basis))):
        if not core.close(exp[i, i], core.uncx(num) / tf, 1e-12):
            raise Bad("model-internal", "dm route and mixture route differ")
    def relabel(mx):
        r = np.zeros((len(basis), len(basis)), dtype=complex)
        for a, i in enumerate(idx):
            for b, j in enumerate(idx):
                r[i, j] = mx[a, b]
        return r

    # the density matrix handed to the simulator IS the mixed state of the SVDistribution: ρ = ∑ wᵢ |ψᵢ⟩⟨ψᵢ|, from the
    # coefficients of the input alone (no circuit, no model)
    rho_exp = np.zeros((len(basis), len(basis)), dtype=complex)
    nonreal = False
    for mb in members:
        cs = [cq(t["coef"]) * math.sqrt(term_scale(t["state"])) for t in mb["terms"]]
        nrm = math.sqrt(sum(abs(c) ** 2 for c in cs))
        psi = np.zeros(len(basis), dtype=complex)
        for c, t in zip(cs, mb["terms"]):
            psi[basis.index(tuple(occ(t["state"])))] += c / nrm
        rho_exp += float(Fraction(mb["w"])) * np.outer(psi, psi.conj())
        for (c1, t1), (c2, t2) in itertools.combinations(zip(cs, mb["terms"]), 2):
            if sum(occ(t1["state"])) == sum(occ(t2["state"])) and abs((c1 * c2.conjugate()).imag) > 1e-9:
                nonreal = True
    if nonreal:
        chk.branch("dm-nonreal-phase")
    rho_in = relabel(dm.mat.toarray())
    e_in = np.abs(rho_in - rho_exp)
    if e_in.max() > 1e-9:
        i, j = np.unravel_index(e_in.argmax(), e_in.shape)
        record("dm-from-svd", f"DensityMatrix.from_svd: entry ({list(basis[i])},{list(basis[j])}) = {rho_in[i, j]:.9g}, but "
               f"∑ wᵢ|ψᵢ⟩⟨ψᵢ| has {rho_exp[i, j]:.9g}: the density matrix is not the mixed state of the distribution",
               False, True)
    out = sim.evolve_density_matrix(dm)
    got = relabel(out.mat.toarray())
    spec = py_svd(u, m, members)
    tot = float(sum(Fraction(mb["w"]) for mb in members))
    exact_svd = exact_dist(rep["svd"])
    spec_ok = cmp_dist(spec, exact_svd, 1e-7) is None

    def prop_dm_svd():
        """the property on the real code: density-matrix input and SVDistribution input agree"""
        a = bsd_to_dict(make_sim(case["engine"], circuit, 0).probs_svd(build_svd(members))["results"])
        s2 = make_sim(case["engine"], circuit, 0)
        b = bsd_to_dict(s2.probs_density_matrix(pcvl.DensityMatrix.from_svd(build_svd(members)))["results"])
        return cmp_float_dist(a, b) is not None

    # columns of the evolution operator come from evolve(): entries of modulus < 1e-6 may be missing
    vmat = np.array([[py_amp(u, list(sb), list(tb)) for sb in basis] for tb in basis])
    dlt = np.where(np.abs(vmat) < DROP, np.abs(vmat), 0.0)
    rho = np.abs(dm.mat.toarray())
    rho_l = np.zeros_like(rho)
    for a, i in enumerate(idx):
        for b, j in enumerate(idx):
            rho_l[i, j] = rho[a, b]
    av = np.abs(vmat)
    etol = (dlt @ rho_l @ av.T + av @ rho_l @ dlt.T + dlt @ rho_l @ dlt.T) * 1.001
    if dlt.any():
        chk.branch("native-amplitude-cutoff")
    ploc = {basis[i]: float(etol[i, i]) / tot for i in range(len(basis)) if etol[i, i]}
    slack = float(np.trace(etol)) / tot
    def prop_dm_mixture():
        """the property on the real code, whole matrix: evolving the density matrix of a mixture gives the mixture of the
        evolved members, ∑ wᵢ |evolve(ψᵢ)⟩⟨evolve(ψᵢ)| (a coherence is observable behind any further circuit)"""
        s2 = make_sim(case["engine"], circuit, 0)
        ref = np.zeros((len(basis), len(basis)), dtype=complex)
        rtol = np.zeros((len(basis), len(basis)))
        for mb in members:
            inp = build_sv(mb["terms"]) if len(mb["terms"]) > 1 else build_bs(mb["terms"][0]["state"])
            psi = np.zeros(len(basis), dtype=complex)
            for s_out, a in s2.evolve(inp):
                psi[basis.index(tuple(s_out))] += complex(a)
            w = float(Fraction(mb["w"]))
            ref += w * np.outer(psi, psi.conj())
            # what the native container may have discarded of this member's evolved vector (contributions of modulus
            # < 1e-6 of a weak term): the reference is uncertain by exactly that much
            loss, _, _ = loss_profile(u, m, mb["terms"])
            if loss:
                lv = np.zeros(len(basis))
                for k, l in loss.items():
                    lv[basis.index(key_occ(k, m))] += l
                ap = np.abs(psi) + lv
                rtol += w * (np.outer(ap, lv) + np.outer(lv, ap))
        return bool((np.abs(got - ref) - 2 * etol - rtol).max() > 1e-8)

    err = np.abs(got - exp) - etol
    if err.max() > core.TOL:
        i, j = np.unravel_index(err.argmax(), err.shape)
        record("dm-evolve", f"evolve_density_matrix: entry ({list(basis[i])},{list(basis[j])}) = {got[i, j]:.9g}, "
               f"VρV† = {exp[i, j]:.9g}", spec_ok if i == j and core.close(spec.get(basis[i], 0.0) * tot, exp[i, i].real, 1e-7)
               else False, prop_dm_svd() or prop_dm_mixture())
    r = sim.probs_density_matrix(dm)
    obs = bsd_to_dict(r["results"])
    d = cmp_dist(obs, exact_dist(rep["probs"]), extra=ploc, slack=slack)
    if d:
        record("dm-probs", f"probs_density_matrix[{d[0]}] = {d[1]!r}, expected {d[2]!r}", spec_ok, prop_dm_svd())
    # the same mixed state as an SVDistribution
    r2 = make_sim(case["engine"], circuit, 0).probs_svd(build_svd(members))
    mloc, mslack = mix_profile(u, m, members)
    d = cmp_dist(bsd_to_dict(r2["results"]), exact_svd, extra=mloc, slack=mslack)
    if d:
        record("dm-vs-svd", f"probs_svd of the same mixed state [{d[0]}] = {d[1]!r}, expected {d[2]!r}", spec_ok,
               prop_dm_svd())


# ------------------------------------------------------------------------------------------------
# the weights of a mixture: SVDistribution as a dict keyed by normalised vectors (Model/C03Keys.lean, Props section 13)
# ------------------------------------------------------------------------------------------------
KEY_SCALES = [None, 1.0, 2.0, 4.0, 0.5, 0.25]     # None: normalised before use; the others: un-normalised, scaled by a
                                                  # power of two (the native normalisation then gives bit-identical keys)


def key_vector(case, op):
    sv = build_sv(case["members"][op["c"]]["terms"])
    f = KEY_SCALES[op["s"]]
    if f is None:
        sv.normalize()
        return sv
    return f * sv


def gen_keys_case(rng, chk):
    m = rng.choice([2, 3])
    case = {"kind": "keys", "m": m, "engine": rng.choice(ENGINES), "prec": "0",
            "circ": gen_circuit_spec(rng, m, rng.randint(2, 4))}
    used, members = set(), []
    ntags = rng.choice([0, 0, 2])
    for _ in range(rng.randint(2, 3)):
        terms = gen_terms(rng, m, 2, ntags, rng.choice([1, 2, 2, 3]), True, used)
        if terms:
            members.append({"w": "1", "terms": terms})
    case["members"] = members
    ops = []
    for _ in range(rng.randint(3, 7)):
        c = rng.randrange(len(members))
        k = rng.choice(["set", "iadd", "iadd", "iadd", "read"])
        op = {"k": k, "c": c, "s": rng.randrange(len(KEY_SCALES))}
        if k != "read":
            op["w"] = core.rat(Fraction(rng.randint(1, 9), rng.choice([10, 20, 16])))
        ops.append(op)
    # every component ends with some weight
    for c in range(len(members)):
        if not any(o["c"] == c and o["k"] != "read" for o in ops):
            ops.append({"k": "iadd", "c": c, "s": rng.randrange(len(KEY_SCALES)), "w": core.rat(Fraction(rng.randint(1, 9), 10))})
    case["ops"] = ops
    return case


def judge_keys(chk, case, rep, sim, circuit, u, record):
    """`svd[ψ] = v`, `svd[ψ] += w` / `svd.add(ψ, w)`, `svd[ψ]` on a real SVDistribution with keys in several scalings:
    the stored weight of every component must be the intended one (assignments replace, += accumulates, a read changes
    nothing) — theorem svd_weights_fixed for the repaired container; then Simulator.probs_svd of the resulting mixture
    must be the weighted sum of the components' distributions with those weights"""
    import perceval as pcvl
    m = case["m"]
    members, ops = case["members"], case["ops"]
    chk.branch("keys")
    # the intended weights, computed here independently of Lean
    want = {}
    for op in ops:
        if op["k"] == "set":
            want[op["c"]] = Fraction(op["w"])
        elif op["k"] == "iadd":
            want[op["c"]] = want.get(op["c"], Fraction(0)) + Fraction(op["w"])
        else:
            want.setdefault(op["c"], Fraction(0))
    model = {c: Fraction(w) for c, w in rep["fixed"]}
    if model != want or {c: Fraction(w) for c, w in rep["intended"]} != want:
        raise Bad("model-internal", f"the model's repaired container stores {model}, intended {want}")
    svd = pcvl.SVDistribution()
    stored = set()
    for op in ops:
        k = key_vector(case, op)
        if op["s"] and op["c"] in stored:
            chk.branch("keys-unnormalised-existing-" + op["k"])
        if op["k"] == "set":
            svd[k] = float(Fraction(op["w"]))
        elif op["k"] == "iadd":
            if Fraction(op["w"]).denominator % 5 == 0:
                svd.add(k, float(Fraction(op["w"])))
            else:
                svd[k] += float(Fraction(op["w"]))
        else:
            _ = svd[k]
        stored.add(op["c"])
    refs = []
    for c in range(len(members)):
        r = build_sv(members[c]["terms"])
        r.normalize()
        refs.append(sv_to_dict(r))
    got = {}
    for key, w in svd.items():
        kd = sv_to_dict(key)
        owner = [c for c, r in enumerate(refs) if cmp_amps(kd, r, 1e-9) is None]
        if len(owner) != 1:
            raise Bad("harness", "a key of the SVDistribution is not one of the components")
        got[owner[0]] = got.get(owner[0], 0.0) + float(w)
    cur = {c: Fraction(w) for c, w in rep["current"]}
    for c, w in sorted(want.items()):
        if not core.close(got.get(c, 0.0), float(w)):
            as_pinned = all(core.close(got.get(c2, 0.0), float(cur.get(c2, 0))) for c2 in want)
            seq = "; ".join(("svd[%s·ψ%d]%s" % ("n" if KEY_SCALES[o["s"]] is None else KEY_SCALES[o["s"]], o["c"],
                             {"set": " = " + o.get("w", ""), "iadd": " += " + o.get("w", ""), "read": " read"}[o["k"]]))
                            for o in ops)
            record("svd-weight-unnormalised-key",
                   f"SVDistribution after [{seq}] (n·ψ: normalised vector, f·ψ: the same vector scaled by f) stores "
                   f"{got.get(c, 0.0)!r} for component ψ{c}, the operations add up to {float(w)!r}"
                   + (" — the weights are those of the model of the pinned __getitem__ (key looked up un-normalised)"
                      if as_pinned else ""), False, True)
            return
    # the mixture so built, simulated
    tot = sum(float(w) for w in want.values())
    if tot <= 0:
        return
    ref = {}
    for c, w in want.items():
        if w == 0:
            continue
        terms = members[c]["terms"]
        inp = build_sv(terms) if len(terms) > 1 else build_bs(terms[0]["state"])
        for o, p in bsd_to_dict(make_sim(case["engine"], circuit, 0).probs(inp)).items():
            ref[o] = ref.get(o, 0.0) + float(w) / tot * p
    obs = bsd_to_dict(sim.probs_svd(svd)["results"])
    d = cmp_float_dist(obs, ref, 1e-7)
    if d:
        record("svd-accumulated-mixture", f"probs_svd of the accumulated mixture [{d[0]}] = {d[1]!r}, the weighted sum of "
               f"the components gives {d[2]!r}", False, True)


JUDGES.update({"bs": judge_bs, "sv": judge_sv, "svd": judge_svd, "dm": judge_dm, "keys": judge_keys})


# ------------------------------------------------------------------------------------------------
# shrinking
# ------------------------------------------------------------------------------------------------
def shrink(chk, case, sig):
    def fails_with(c):
        try:
            return any(f[1] == sig for f in eval_case(chk, c))
        except Exception:
            return False

    cur = copy.deepcopy(case)
    if cur["kind"] == "session":
        def f0(steps):
            c = copy.deepcopy(cur)
            c["steps"] = steps
            c["members"] = [mb for st in steps for mb in st["members"]]
            return fails_with(c)
        cur["steps"] = gens.shrink_list(cur["steps"], f0, max_rounds=12)
        for i, st in enumerate(cur["steps"]):
            if len(st["members"]) > 1:
                def f4(ms, i=i):
                    c = copy.deepcopy(cur)
                    c["steps"][i]["members"] = ms
                    return fails_with(c)
                st["members"] = gens.shrink_list(st["members"], f4, max_rounds=8)
        cur["members"] = [mb for st in cur["steps"] for mb in st["members"]]
        comps = cur["circ"]["comps"]
        if len(comps) > 1:
            def f5(cs):
                c = copy.deepcopy(cur)
                c["circ"]["comps"] = cs
                return fails_with(c)
            cur["circ"]["comps"] = gens.shrink_list(comps, f5, max_rounds=12)
        return cur
    if cur["kind"] == "keys":
        def f6(ops):
            c = copy.deepcopy(cur)
            c["ops"] = ops
            return fails_with(c)
        cur["ops"] = gens.shrink_list(cur["ops"], f6, max_rounds=15)
        return cur
    comps = cur["circ"]["comps"]
    if len(comps) > 1:
        def f1(cs):
            c = copy.deepcopy(cur)
            c["circ"]["comps"] = cs
            return fails_with(c)
        cur["circ"]["comps"] = gens.shrink_list(comps, f1, max_rounds=25)
    if len(cur["members"]) > 1:
        def f2(ms):
            c = copy.deepcopy(cur)
            c["members"] = ms
            return fails_with(c)
        cur["members"] = gens.shrink_list(cur["members"], f2, max_rounds=15)
    for i, mb in enumerate(cur["members"]):
        if len(mb["terms"]) > 2:
            def f3(ts, i=i):
                if len(ts) < 2:
                    return False
                c = copy.deepcopy(cur)
                c["members"][i]["terms"] = ts
                return fails_with(c)
            mb["terms"] = gens.shrink_list(mb["terms"], f3, max_rounds=10)
    return cur


# ------------------------------------------------------------------------------------------------
class Rec:
    """what `eval_case` needs of a Check, picklable: branch / histogram counters (merged by the parent)"""

    def __init__(self, thorough, lean=None):
        self.thorough = thorough
        self.branches = {}
        self.hist = {}
        self.lean = lean

    def branch(self, name, n=1):
        self.branches[name] = self.branches.get(name, 0) + n

    def count(self, hist, key, n=1):
        h = self.hist.setdefault(hist, {})
        h[str(key)] = h.get(str(key), 0) + n


def _work(args):
    case, rep, thorough = args
    rec = Rec(thorough)
    try:
        fails = eval_case(rec, case, rep)
        return fails, rec.branches, rec.hist, None
    except core.LeanError as e:
        return [], rec.branches, rec.hist, "lean:" + str(e)
    except Exception:
        import traceback
        return [], rec.branches, rec.hist, traceback.format_exc()


def signature(case):
    return (case["kind"], case["m"], case["engine"], case["prec"],
            json.dumps(case.get("steps", case["members"]), sort_keys=True),
            json.dumps(case["circ"]["comps"], sort_keys=True)) + \
        ((json.dumps(case["ops"], sort_keys=True),) if case["kind"] == "keys" else ())


def nontrivial(case):
    k = case["kind"]
    if k == "bs":
        st = case["members"][0]["terms"][0]["state"]
        return len(tags_of(st)) >= 2 and len(case["circ"]["comps"]) >= 2
    if k == "keys":
        return len(case["ops"]) >= 3 and len(case["members"]) >= 2
    if k in ("sv", "svd", "dm"):
        return len(case["circ"]["comps"]) >= 2 and sum(len(mb["terms"]) for mb in case["members"]) >= 2
    if k == "session":
        return len(case["circ"]["comps"]) >= 2 and len(case["steps"]) >= 2
    return False


def handle(chk, case, rep=None, prepared=None, done=None):
    kind = case["kind"]
    chk.branch("kind:" + kind)
    chk.branch("engine:" + case["engine"])
    chk.count("kind", kind + ("/default-precision" if case["prec"] == "default" else ""))
    chk.count("m", case["m"])
    for mb in case["members"]:
        for t in mb["terms"]:
            chk.count("photons", sum(len(x) for x in t["state"]))
            chk.count("tags", len(tags_of(t["state"])))
    if done is not None:
        res, branches, hist, err = done
        if err is not None:
            if err.startswith("lean:"):
                raise core.LeanError(err[5:])
            raise RuntimeError("worker failed on a case:\n" + err)
        for k, v in branches.items():
            chk.branch(k, v)
        for h, d in hist.items():
            for k, v in d.items():
                chk.count(h, k, v)
    else:
        res = eval_case(chk, case, rep, prepared)
    chk.case(signature(case), nontrivial=nontrivial(case),
             sample={"kind": kind, "m": case["m"], "engine": case["engine"], "prec": case["prec"],
                     "steps": [st["kind"] for st in case.get("steps", [])],
                     "members": [[mb["w"], [(t["coef"], t["state"]) for t in mb["terms"]]] for mb in case["members"]][:3],
                     "comps": [(o, l["t"]) for o, l in case["circ"]["comps"]]})
    seen = set()
    for k, sig, what, detail in res:
        if sig in seen:
            continue
        seen.add(sig)
        small = case
        if k == "violation":
            try:
                small = shrink(chk, case, sig)
            except Exception:
                small = case
        if small is not case:
            # describe the minimised input, not the one it was found on
            try:
                for k2, sig2, what2, detail2 in eval_case(Rec(chk.thorough, chk.lean), small):
                    if sig2 == sig and k2 == k:
                        what, detail = what2, detail2
                        break
            except Exception:
                pass
        detail = dict(detail, case=small)
        chk.fail(k, sig, what, detail)


def load_corpus():
    out = []
    for p in sorted(glob.glob(os.path.join(core.VERIF, "corpus", "C03", "*.json"))):
        out.append(json.load(open(p))["case"])
    return out


def run(chk: core.Check):
    chk.rule = ("random circuits of BS (3 conventions, 5 unequal rational-trigonometric angles)/PS/PERM/Unitary (Cayley-"
                "rational and Haar) on m modes, engines SLOS and Naive; inputs: tagged Fock states (0–4 tags, several "
                "tags per mode), superpositions with rational rescaled coefficients (equal/unequal photon numbers, tagged "
                "or not), mixtures with rational weights (normalised or not; Fock members → fast path, superpositions → "
                "generic path; precision 0 and default precision with members below the threshold; members sharing basis "
                "states, a member that is a photon-number sector of another member, two members with a common sector), "
                "density matrices built from mixtures; widely unequal coefficients: a term scaled by 1/37 … 1/100003 "
                "(population down to 1e-10, amplitude ≥ 3e-6) in superpositions, in members of mixtures and of density "
                "matrices, density-matrix members of relative weight down to 1e-9; sessions: one long-lived Simulator answering 3–5 requests of "
                "different kinds, among them density matrices of one FockBasis populating different basis states; distinct = distinct (kind, m, engine, precision, members, circuit); non-trivial = "
                "circuit of ≥ 2 components and (≥ 2 tags | ≥ 2 basis states in the input); every default-precision mixture is also "
                "judged against the PROVED bound of Props/C03 section 10 evaluated exactly by the driver (errNormAt per outcome, "
                "2·errTot/mass in total, hypotheses of the theorem checked per case); every mixture is also run through "
                "Simulator.evolve_svd (each vector of the result = an evolved member amplitude by amplitude, weights, perf, the "
                "measured mixture); Simulator.evolve is judged with the model's bound on the native cut (lossAt); states mixing "
                "annotated and un-annotated photons (1-3 annotations, 35% un-annotated photons) through the kinds bs / sv / svd "
                "(precision 0 and default), mixed output states for prob_amplitude; kind keys: sequences of 3-8 set / += / add / "
                "read operations on a real SVDistribution with 2-3 components in six scalings; 25% of the sv cases are ONE component "
                "with a complex coefficient (probs(StateVector) dispatches it to probs(BasicState)); probability(StateVector, t) "
                "for 9 occupations per sv case (possible, impossible, another photon number), plain and annotated output object")
    chk.assumptions = [
        "the circuit's matrix is the one compute_unitary() reports (C01/C14); the backends return the boson-sampling "
        "amplitudes of one group of indistinguishable photons (C02)",
        "exqalibur's BasicState.separate_state / merge / partition / StateVector arithmetic are native: modelled and "
        "compared on every case, not verified",
        "states mixing annotated and un-annotated photons follow the native rule (un-annotated photons join the group of "
        "the first annotation; a single group is labelled by its first photon): modelled (`native`), compared on every "
        "case with separate_state / _annot_state_mapping of the real objects, not verified; two natively distinct basis "
        "states of one superposition that the rule maps to the same labelled groups (|{_:0},1> and |{_:0},{_:0}>) are "
        "not generated; no heralds, post-selection, detectors or photon filter (C04)",
        "members of a mixture are pairwise distinct state vectors (they may share basis states); two parts of a mixture "
        "(members, photon-number sectors) that are the same normalised vector are presented only when both are a "
        "single basis state with a real positive coefficient (one dict key, deterministically); positively "
        "proportional superpositions of several components, whose identity as dict keys is decided by a native "
        "floating-point hash, are not generated",
        "a session keeps the circuit, the precision and the (empty) selection fixed: caches across configurations are "
        "C05's subject",
        "the native StateVector discards components of modulus < 1e-6 (global_params['min_complex_component']): where "
        "the exact value has such a contribution the tolerance of evolve-based results is widened by exactly that "
        "contribution (counted in branch native-amplitude-cutoff), otherwise it is 1e-9",
        "coefficients of normalised modulus below 3e-6 are not generated: the native StateVector would discard the term "
        "itself when the input is built (weak terms keep 3e-6 ≤ |c| ≤ 3e-2 relative to the dominant ones)",
        "at the default precision the thresholds (input trimming, product threshold of the fast path, amplitude "
        "threshold of _merge_sv) are emulated by the model on exact rationals; a float comparison that falls within "
        "1e-15 relative of a threshold could flip (never observed)",
    ]
    chk.required_branches = ["kind:bs", "kind:sv", "kind:svd", "kind:dm", "engine:SLOS", "engine:Naive", "multi-tag",
                             "two-tags-in-one-mode", "vacuum", "sv-unequal-n", "sv-equal-n", "sv-tagged", "svd-fast",
                             "svd-generic", "svd-split", "svd-unnormalised-weights", "trim-fires", "threshold-bites-fast",
                             "threshold-bites-generic", "dm-coherences", "dm-nonreal-phase", "sv-history",
                             "budget-trims-member", "default-precision-superposed-multigroup", "budget-discriminating",
                             "gen:sv-history", "gen:dm-nonreal-phase", "gen:default-precision-superposed-multigroup",
                             "gen:budget-discriminating", "gen:budget-trims-member", "gen:threshold-bites-generic",
                             "svd-shared-basis-states", "svd-sector-is-member", "svd-sector-twice",
                             "svd-key-accumulates-default-precision", "session", "session-mixed-kinds",
                             "session-dm-same-basis", "session-dm-new-support",
                             "gen:svd-sector-is-member", "gen:svd-sector-twice", "gen:svd-shared-basis-states",
                             "gen:session-dm-new-support",
                             "sv-default-precision", "sv-weak-term", "svd-weak-term", "dm-weak-term", "dm-weak-coherent-term", "dm-weak-member",
                             "gen:sv-weak-term", "gen:svd-weak-term", "gen:dm-weak-coherent-term", "gen:dm-weak-member",
                             "pa-zero", "pa-nonzero", "rejected",
                             "prec-theorem-applies", "prec-theorem-coherent-loss", "prec-theorem-product-loss",
                             "prec-theorem-trimmed-member", "evolve-svd", "evolve-svd-superposed", "evolve-svd-tagged",
                             "evolve-cut-model-loss",
                             "mixed-bs", "mixed-multi-group", "mixed-one-group-unlabelled", "mixed-one-group-labelled",
                             "mixed-out", "mixed-sv", "mixed-svd-fast", "mixed-svd-generic",
                             "mixed-svd-fast-default-precision", "mixed-svd-generic-default-precision",
                             "keys", "keys-unnormalised-existing-iadd", "keys-unnormalised-existing-read",
                             "keys-unnormalised-existing-set",
                             "sv-one-component", "sv-several-components", "sv-one-component-multi-tag",
                             "sv-probability-zero-outcome", "sv-probability-nonzero-outcome",
                             "sv-probability-other-photon-number"]
    rng = chk.rng
    n_lean = chk.pick(4, 8)
    drivers = [core.LeanDriver("C03") for _ in range(n_lean)]
    chk.lean = drivers[0]
    try:
        for case in load_corpus():
            handle(chk, case)
        # shapes that the stored cases hit by construction must ALSO come out of the random generator
        gen_shapes = ["sv-history", "dm-nonreal-phase", "default-precision-superposed-multigroup", "budget-discriminating",
                      "budget-trims-member", "threshold-bites-generic", "svd-sector-is-member", "svd-sector-twice",
                      "svd-shared-basis-states", "session-dm-new-support", "sv-weak-term", "svd-weak-term",
                      "dm-weak-coherent-term", "dm-weak-member"]
        before = {b: chk.branches.get(b, 0) for b in gen_shapes}
        plan = chk.pick({"bs": 110, "sv": 90, "svd": 90, "svd-default": 70, "dm": 40, "session": 36, "bad": 30,
                         "bs+mixed": 40, "sv+mixed": 30, "svd+mixed": 30, "svd-default+mixed": 24, "keys": 40},
                        {"bs": 1500, "sv": 1300, "svd": 1400, "svd-default": 600, "dm": 600, "session": 400, "bad": 300,
                         "bs+mixed": 500, "sv+mixed": 400, "svd+mixed": 400, "svd-default+mixed": 200, "keys": 400})
        cases = []
        for name, cnt in plan.items():
            for _ in range(cnt):
                if name.endswith("+mixed"):
                    # states mixing annotated and un-annotated photons, through every entry point
                    k = name[:-6]
                    cases.append(gen_case(rng, chk, "svd" if k == "svd-default" else k,
                                          "default" if k == "svd-default" else "0", mixed=True))
                elif name == "keys":
                    cases.append(gen_keys_case(rng, chk))
                elif name == "bad":
                    cases.append(gen_malformed(rng))
                elif name == "svd-default":
                    cases.append(gen_case(rng, chk, "svd", "default"))
                elif name == "session":
                    cases.append(gen_session(rng, chk))
                else:
                    cases.append(gen_case(rng, chk, name, "0"))
        rng.shuffle(cases)
        cases = [c for c in cases if c["members"]]
        prepared = [prepare(c) for c in cases]
        reqs, owner = [], []
        for ci, (c, p) in enumerate(zip(cases, prepared)):
            for r in lean_requests(c, p[1]):
                reqs.append(r)
                owner.append(ci)
        flat = [None] * len(reqs)
        errs = []

        def worker(k):
            try:
                idx = list(range(k, len(reqs), n_lean))
                out = drivers[k].ask_many([reqs[i] for i in idx])
                for i, r in zip(idx, out):
                    flat[i] = r
            except Exception as e:  # noqa
                errs.append(e)

        ths = [threading.Thread(target=worker, args=(k,)) for k in range(n_lean)]
        for t in ths:
            t.start()
        for t in ths:
            t.join()
        if errs:
            raise errs[0]
        reps = [[] if c["kind"] == "session" else None for c in cases]
        for ci, r in zip(owner, flat):
            if cases[ci]["kind"] == "session":
                reps[ci].append(r)
            else:
                reps[ci] = r
        import multiprocessing as mp
        nproc = max(2, min(chk.pick(6, 12), (os.cpu_count() or 4) - 1))
        with mp.get_context("spawn").Pool(nproc) as pool:
            results = pool.map(_work, [(c, r, chk.thorough) for c, r in zip(cases, reps)], chunksize=8)
        for c, r, done in zip(cases, reps, results):
            handle(chk, c, r, None, done)
        for b in gen_shapes:
            if chk.branches.get(b, 0) > before[b]:
                chk.branch("gen:" + b, chk.branches.get(b, 0) - before[b])
        # one defect, one report: a disagreement that a direct oracle confirmed on some case is reported as that
        # confirmed violation (first), not additionally as an unconfirmed model/code difference of the same signature
        # (the exact emulation of the thresholds and the precision budget look at the same mechanism, so do the output
        # matrix, its diagonal and the input matrix of the density-matrix route)
        related = [{"trim-model", "trim-bound", "precision-exceeded"},
                   {"dm-evolve", "dm-probs", "dm-from-svd", "dm-vs-svd"}]
        confirmed = {f[1] for f in chk.failures if f[0] == "violation"}
        for grp in related:
            if grp & confirmed:
                confirmed |= grp
        chk.failures[:] = ([f for f in chk.failures if f[0] == "violation"] +
                           [f for f in chk.failures if f[0] != "violation" and f[1] not in confirmed])
    finally:
        for d in drivers[1:]:
            chk.lean.n += d.n
            d.close()


def replay(chk, data):
    chk.lean = core.LeanDriver("C03")
    chk.rule = "replay of one stored case"
    handle(chk, data["replay"]["case"])
