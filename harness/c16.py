"""C16 — the job sent to the cloud describes exactly the processor the user built.

One *scenario* = a platform (constraint set, command list), a processor built remotely or converted
from a local processor (circuit, heralds anywhere, ports, post-selection, noise, filter, input),
then a sequence of public-API calls (setters, `prepare_job_payload`, `Sampler`, iterations, job
creation, `execute_async`) on that one long-lived processor — including changes of its circuit between
two requests: a parameter value set in place (`P.set_value`), the circuit replaced through
`RemoteProcessor.set_circuit` or `rp.experiment.set_circuit`, a component appended with `add`.  The real code runs with the REAL `RPCHandler` over a scripted transport installed
under `requests` (`HTTPAdapter.send`): every HTTP request the client emits is seen with its method, URL, headers, body
bytes, time-out and proxies, and how often.  Every payload (returned by `prepare_job_payload` or POSTed by `create_job`)
is sent through JSON, deserialised with `perceval.serialization.deserialize` and compared

The transport plays the network and the platform: each execution (`execute_async`, `execute_sync`, `__call__`) has its
creation request answered 200 with a job id, delivered with the answer lost, not delivered, refused with an error status
(JSON error or not), accepted with a 2xx status or a body `create_job` cannot use — one execution must never create two
remote jobs, what is POSTed must be the job's request (canonical JSON), authenticated with the user's token, to the URL
the model computes (`Model/C16Rpc.lean`).  Iteration lists include scans and iterations
that must be refused (photon window, size, unknown parameter) next to every other key; what the executed job carries is
judged by the direct oracle.

* field by field with the record computed by the Lean model (`Model/C16.lean`, `Driver/C16.lean`),
  symbols resolved on the real objects (circuit by matrix, post-selection by evaluation on states);
* directly with the user's own objects (the oracle that decides "violation").

Extension (`Model/C16Mat.lean`, `Model/C16Heap.lean`):
* the circuit as a MATRIX — the four circuit-changing calls are sent to the driver with the structure of the user's
  object (elementary components with ids, offsets), together with the own matrix of every elementary component (fresh
  objects, current parameter values, exact dyadic rationals); the driver answers with the exact matrix of the model's
  component list after every payload generation / job creation and the circuit of the deserialised payload is compared
  with it (`matrix_differs`);
* a job's request and the objects it shares — jobs are created, the user then changes the photon filter / parameters /
  iterations, creates other jobs, and only then executes: the request received must be the one of creation time
  (`"aliased": false` = the repaired code; direct oracle `job-request-not-as-created`);
* an input state left behind by a later `add_herald` is generated on purpose and counted (`stale-input-*`).
"""
from __future__ import annotations

import copy
import glob
import itertools
import json
import os

import numpy as np

from . import core, gens

CATALOG = ["heralded cnot", "postprocessed cnot", "klm cnot", "heralded cz"]
METHODS = ["probs", "sample_count", "samples"]
FIELD_KEYS = ["command", "circuit", "input_state", "parameters", "postselect", "heralds", "noise"]
TOL = 1e-9
CIRCUIT_CHANGES = ("retune", "set-circuit", "exp-set-circuit", "add-comp")
REFUSALS = ("ValueError", "RuntimeError", "AssertionError", "TypeError")


# ------------------------------------------------------------------------------------------------
# the network under `requests`: the REAL `RPCHandler` runs, `requests.adapters.HTTPAdapter.send` is replaced, so every
# HTTP request the client emits (method, URL, headers, body bytes, time-out, proxies) is seen, and how often
# ------------------------------------------------------------------------------------------------
# what the transport does to ONE job-creation request (scripted per execution by the scenario) -> the model's `Wire`:
NETS = {
    # delivered, the platform answers 200 with the job id
    "ok": {"code": 200, "reply": {"job_id": "job", "error": None}},
    # delivered — the platform may hold the job — but the answer never comes back (read time-out)
    "lost": "read_timeout",
    # not delivered (name resolution / connection refused; connection time-out)
    "unreachable": "connection_error",
    "connect-timeout": "connect_timeout",
    # the platform answers with an error status: no job created
    "refused": {"code": 400, "reply": {"job_id": None, "error": "Bad request"}},
    "unauthorized": {"code": 401, "reply": {"job_id": None, "error": "Invalid token"}},
    "refused-noerr": {"code": 500, "reply": {"job_id": None, "error": None}},
    "refused-html": {"code": 502, "reply": "not_json"},
    "refused-list": {"code": 422, "reply": "list"},
    # the platform took the request (2xx) but `create_job` cannot use the answer: the call raises, the job exists
    "created-201": {"code": 201, "reply": {"job_id": "job", "error": None}},
    "ok-nojobid": {"code": 200, "reply": {"job_id": None, "error": None}},
    "ok-html": {"code": 200, "reply": "not_json"},
    "ok-list": {"code": 200, "reply": "list"},
}
NET_FAILURES = [k for k in NETS if k != "ok"]

HANDLER_NAMES = ["sim:verif", "sim:verif", "qpu:altair", "sim verif/2", "sim:çlifford+x", "a_b.c-d~e"]
HANDLER_URLS = ["https://verif.invalid", "https://verif.invalid", "https://verif.invalid/",
                "http://localhost:8080/base", "https://verif.invalid/some/prefix/"]
HANDLER_TOKENS = ["tok-abc", "_T_0123456789abcdef", "x", None, ""]
HANDLER_PROXIES = [None, None, {}, {"https": "http://proxy.invalid:3128"},
                   {"https": "http://proxy.invalid:3128", "http": "http://proxy.invalid:3129"}]
DEFAULT_HANDLER = {"name": "sim:verif", "url": "https://verif.invalid", "token": "none", "proxies": None,
                   "timeout": 10, "via": "object"}

_NET = [None]          # the transport of the session that is running (one at a time in this process)
_PATCHED = [False]


def _adapter_send(adapter, request, **kw):
    net = _NET[0]
    if net is None:
        import requests
        raise requests.exceptions.ConnectionError("no network in the verification harness")
    return net.send(request, kw)


def install_transport():
    if not _PATCHED[0]:
        import requests.adapters
        requests.adapters.HTTPAdapter.send = _adapter_send
        _PATCHED[0] = True


class FakeNet:
    """The transport under `requests`.  `traffic` = every HTTP request emitted, `posts` = the job-creation requests
    among them, `log` = the bodies of those the platform took (2xx) or may have taken (answer never read): every one
    of them is a remote job, whether or not the client got an id; `attempts` = number of job-creation POSTs."""

    def __init__(self, pf):
        cons = {}
        for k, name in (("max_modes", "max_mode_count"), ("min_modes", "min_mode_count"),
                        ("max_photons", "max_photon_count"), ("min_photons", "min_photon_count")):
            if pf.get(k) is not None:
                cons[name] = pf[k]
        specs = {"available_commands": list(pf["commands"])}
        if cons or pf.get("empty_constraints"):
            specs["constraints"] = cons
        if pf.get("threshold_only"):
            specs["detector"] = "threshold"
        self._details = {"specs": specs, "type": pf.get("type", "simulator"), "perfs": {}, "status": "available"}
        self.traffic = []
        self.posts = []
        self.log = []
        self.attempts = 0
        self.script = []          # behaviour of the next creation requests (names of NETS), then "ok"
        self.raised = []          # the exception objects the transport raised

    def _raise(self, exc):
        self.raised.append(exc)
        raise exc

    def _answer(self, request, code, body):
        import requests
        r = requests.Response()
        r.status_code = code
        r.url = request.url
        r.request = request
        r.encoding = "utf-8"
        r.reason = "scripted"
        r.headers["Content-Type"] = "application/json"
        r._content = body if isinstance(body, bytes) else json.dumps(body).encode()
        return r

    def send(self, request, kw):
        import requests
        from urllib.parse import urlsplit
        path = urlsplit(request.url).path
        body = request.body
        if isinstance(body, str):
            body = body.encode()
        rec = {"verb": request.method, "url": request.url, "headers": dict(request.headers), "body": body,
               "timeout": kw.get("timeout"), "proxies": dict(kw.get("proxies") or {}), "kind": "other"}
        self.traffic.append(rec)
        if request.method == "GET" and "/api/platform/" in path:
            rec["kind"] = "details"
            return self._answer(request, 200, self._details)
        if request.method == "POST" and path.rstrip("/").endswith("/api/job"):
            rec["kind"] = "create"
            self.attempts += 1
            self.posts.append(rec)
            name = self.script.pop(0) if self.script else "ok"
            wire = NETS[name]
            rec["net"] = name
            if wire == "connection_error":
                self._raise(requests.exceptions.ConnectionError("Name or service not known"))
            if wire == "connect_timeout":
                self._raise(requests.exceptions.ConnectTimeout("connect timeout=10"))
            accepted = wire == "read_timeout" or 200 <= wire["code"] < 300
            if accepted:
                try:
                    self.log.append(json.loads(body))      # from here on the job exists platform side
                except Exception:
                    self.log.append({"unreadable": repr(body)[:200]})
            if wire == "read_timeout":
                self._raise(requests.exceptions.ReadTimeout("read timeout=10"))
            rep = wire["reply"]
            if rep == "not_json":
                return self._answer(request, wire["code"], b"<html>Bad gateway</html>")
            if rep == "list":
                return self._answer(request, wire["code"], ["unexpected"])
            doc = {}
            if rep["job_id"] is not None:
                doc["job_id"] = f"{rep['job_id']}-{len(self.log)}"
            if rep["error"] is not None:
                doc["error"] = rep["error"]
            return self._answer(request, wire["code"], doc)
        if request.method == "GET" and "/api/job/status/" in path:
            rec["kind"] = "status"
            return self._answer(request, 200, {"status": "completed", "progress": 1., "progress_message": "",
                                               "status_message": "", "creation_datetime": 0., "start_time": 0.,
                                               "duration": 0})
        if request.method == "GET" and "/api/job/result/" in path:
            rec["kind"] = "result"
            return self._answer(request, 200, {"results": json.dumps(
                {"results": ":PCVL:BSDistribution:{|1,0>=1}", "physical_perf": 1})})
        return self._answer(request, 404, {"error": "no such endpoint"})


def lean_wire(name, n_log):
    """the model's `Wire` of a scripted behaviour (the job id the fake platform hands out is `<job_id>-<n>`)"""
    wire = NETS[name]
    if isinstance(wire, str):
        return wire
    rep = wire["reply"]
    if isinstance(rep, dict) and rep["job_id"] is not None:
        rep = dict(rep, job_id=f"{rep['job_id']}-{n_log + 1}")
    return {"code": wire["code"], "reply": rep}


_QUIET = False


def quiet():
    global _QUIET
    if _QUIET:
        return
    _QUIET = True
    try:
        from perceval.utils.logging import get_logger, channel, level
        for ch in (channel.user, channel.general, channel.resources):
            get_logger().set_level(level.off, ch)
    except Exception:
        pass


# ------------------------------------------------------------------------------------------------
# specs -> objects
# ------------------------------------------------------------------------------------------------
def build_circuit(spec, values=None, keep=None):
    """The circuit of a spec.  `values`: name -> value the user has set on a symbolic parameter (`P.set_value`);
    `keep`: dict receiving the `P` objects (the user's own handles on the parameters)."""
    import perceval as pcvl
    c = pcvl.Circuit(spec["m"])
    for off, leaf in spec["leaves"]:
        c.add(off, gens.build_leaf(leaf))
    for sym in spec.get("sym", []):
        off, name = sym[0], sym[1]
        par = pcvl.P(name)
        if values and name in values:
            par.set_value(values[name])
        if keep is not None:
            keep[name] = par
        if len(sym) > 2 and sym[2] == "BS":
            c.add(off, pcvl.BS(theta=par))
        else:
            c.add(off, pcvl.PS(par))
    return c


def sym_names(spec):
    return [sym[1] for sym in spec.get("sym", [])]


def test_value(name):
    """the value a variable parameter the user has not set gets on both sides of a matrix comparison"""
    return 0.37 + 0.11 * (sum(ord(ch) for ch in name) % 17)


def numeric_unitary(circ):
    """Matrix of a circuit; variable parameters (same names on both sides) get fixed test values."""
    params = circ.get_parameters()
    if params:
        circ = circ.copy()
        for p in circ.get_parameters():
            if p.is_variable and not p.defined:
                p.set_value(test_value(p.name))
    return np.array(circ.compute_unitary(), dtype=complex)


def sym_leaf_matrix(sym, values):
    """own matrix of one symbolic elementary component of a spec (`PS(P(name))` / `BS(theta=P(name))`) under the
    values the user has set so far (test value otherwise) — a fresh object"""
    import perceval as pcvl
    name = sym[1]
    v = values[name] if (values and name in values) else test_value(name)
    comp = pcvl.BS(theta=v) if (len(sym) > 2 and sym[2] == "BS") else pcvl.PS(v)
    return np.array(comp.compute_unitary(use_symbolic=False), dtype=complex)


def build_noise(spec):
    from perceval import NoiseModel
    return NoiseModel(**spec)


def build_post(spec):
    from perceval import PostSelect
    return PostSelect(spec)


def relabel(u, perm):
    if not perm:
        return u
    idx = np.array(perm)
    return u[np.ix_(idx, idx)]


def post_conds(ps):
    """the mode sets of the conditions of a PostSelect (its printed form lists them in brackets)"""
    import re
    return [[int(x) for x in grp.split(",") if x.strip()] for grp in re.findall(r"\[([\d,\s]*)\]", str(ps))]


def user_mapping(mp, w, ports):
    """What the user's mapping of `add(mapping, component)` means, from the documentation of `Processor.add`:
    {processor mode: component input} for an int offset, a list of processor modes or a dict (int keys or output
    port names, int / list values) -> dict, or None when the mapping is not a legal one (the real call must raise)."""
    if "offset" in mp:
        return {mp["offset"] + i: i for i in range(w)}
    if "list" in mp:
        keys = mp["list"]
        if len(keys) != w or len(set(keys)) != w:
            return None
        return {k: i for i, k in enumerate(keys)}
    out = {}
    for k, v in mp["dict"]:
        if isinstance(k, str):
            if k not in ports:
                return None
            ks = list(range(ports[k][0], ports[k][0] + ports[k][1]))
        else:
            ks = [k]
        vs = v if isinstance(v, list) else [v]
        if len(ks) != len(vs) or any(not isinstance(x, int) for x in vs):
            return None
        for a, b in zip(ks, vs):
            if a in out:
                return None
            out[a] = b
    if len(out) != w or sorted(out.values()) != list(range(w)):
        return None
    return out


def route_matrix(mapping, n):
    """permutation sending the light of processor mode k to mode min+v for every k: v of the mapping, the other modes
    between the smallest and the largest key behind the component's inputs in increasing order, all others fixed"""
    mn, mx = min(mapping), max(mapping)
    full = dict(mapping)
    nxt = max(full.values()) + 1
    for k in range(mn, mx + 1):
        if k not in full:
            full[k] = nxt
            nxt += 1
    pm = np.eye(n, dtype=complex)
    for k, v in full.items():
        pm[:, k] = 0
    for k, v in full.items():
        pm[mn + v, k] = 1
    return pm, mn, any(full[k] != k - mn for k in full)


def test_states(size, rng_seed=7):
    if 3 ** size <= 729:
        return [list(t) for t in itertools.product(range(3), repeat=size)]
    r = np.random.RandomState(rng_seed)
    return [list(map(int, r.randint(0, 3, size))) for _ in range(400)]


def post_equiv(ps_sent, ps_user, perm, size):
    """ps_sent on the new labelling == ps_user on the original labelling (perm[j] = original mode of j)."""
    from perceval import BasicState
    if perm:
        size = len(perm)
    for t in test_states(size):
        if perm:
            s = [0] * size
            for j, o in enumerate(perm):
                s[o] = t[j]
        else:
            s = t
        try:
            a = bool(ps_sent(BasicState(t)))
            b = bool(ps_user(BasicState(s)))
        except Exception:
            return False
        if a != b:
            return False
    return True


def pf_text(pf):
    return {k: pf.get(k) for k in ("max_modes", "min_modes", "max_photons", "min_photons")}


def pv_ok(x):
    return x is None or isinstance(x, (int, bool, str))


# ------------------------------------------------------------------------------------------------
# scenario generation
# ------------------------------------------------------------------------------------------------
def gen_pf(rng):
    r = rng.random()
    if r < 0.55:
        pf = {"max_modes": rng.choice([12, 20, 24]), "min_modes": rng.choice([None, 1]),
              "max_photons": rng.choice([6, 8, 10]), "min_photons": rng.choice([None, 1])}
    elif r < 0.65:
        pf = {"max_modes": None, "min_modes": None, "max_photons": None, "min_photons": None}
        if rng.random() < 0.5:
            pf["empty_constraints"] = True
    else:
        pf = {"max_modes": rng.choice([None, 3, 5, 6, 8, 12]), "min_modes": rng.choice([None, 1, 2, 4, 6]),
              "max_photons": rng.choice([None, 1, 2, 3, 4, 6]), "min_photons": rng.choice([None, 1, 2, 3])}
    r = rng.random()
    if r < 0.04:
        cmds = []
    elif r < 0.09:
        cmds = ["my_command"]
    else:
        k = rng.choice([1, 1, 2, 2, 3])
        cmds = rng.sample(METHODS, k)
        if rng.random() < 0.2:
            cmds.insert(rng.randint(0, len(cmds)), "my_command")
    pf["commands"] = cmds
    pf["type"] = "physical" if rng.random() < 0.2 else "simulator"
    if rng.random() < 0.2:
        pf["threshold_only"] = True
    return pf


def gen_circ(rng, m, allow_sym=True, prefix="phi", max_leaves=5, p_sym=0.5):
    leaves = []
    for _ in range(rng.randint(1, max_leaves)):
        leaf = gens.gen_leaf(rng, m, kinds=("BS", "PS", "PERM", "U", "UH"))
        w = gens.leaf_width(leaf)
        leaves.append([rng.randint(0, m - w), leaf])
    sym = []
    if allow_sym and rng.random() < p_sym:
        for i in range(rng.randint(1, 2)):
            if m >= 2 and rng.random() < 0.3:
                sym.append([rng.randint(0, m - 2), f"{prefix}{i}", "BS"])
            else:
                sym.append([rng.randint(0, m - 1), f"{prefix}{i}"])
    return {"m": m, "leaves": leaves, "sym": sym}


RETUNE_VALUES = [0.0, 0.3, 0.9, 1.2, 2.5, 3.0, 4.75]


def gen_noise(rng):
    spec = {}
    if rng.random() < 0.7:
        spec["brightness"] = rng.choice([0.5, 0.25, 0.875])
    if rng.random() < 0.5:
        spec["indistinguishability"] = rng.choice([0.75, 0.9375, 0.5])
    if rng.random() < 0.5:
        spec["g2"] = rng.choice([0.015625, 0.03125, 0.125])
    if rng.random() < 0.4:
        spec["transmittance"] = rng.choice([0.0625, 0.5, 0.75])
    if rng.random() < 0.25:
        spec["phase_imprecision"] = rng.choice([0.0078125, 0.125])
    if rng.random() < 0.15:
        spec["phase_error"] = 0.03125
    if rng.random() < 0.2:
        spec["g2_distinguishable"] = False
    return spec


def gen_post(rng, modes):
    """Post-selection string on (a subset of) `modes`; '' = empty PostSelect()."""
    modes = list(modes)
    if not modes or rng.random() < 0.06:
        return ""
    rng.shuffle(modes)
    conds = []
    i = 0
    for _ in range(rng.randint(1, 2)):
        if i >= len(modes):
            break
        k = 1 if (len(modes) - i < 2 or rng.random() < 0.5) else 2
        grp = sorted(modes[i:i + k])
        i += k
        op, val = rng.choice([("==", 1), ("==", 0), ("<", 2), (">", 0), ("==", 2)])
        conds.append("[" + ",".join(map(str, grp)) + "]" + op + str(val))
    return " & ".join(conds)


def gen_state(rng, m, max_n=None):
    cap = rng.choice([1, 1, 1, 2])
    s = [rng.randint(0, cap) if rng.random() < 0.55 else 0 for _ in range(m)]
    if m > 0 and sum(s) == 0 and rng.random() < 0.9:
        s[rng.randrange(m)] = 1
    if max_n is not None:
        while sum(s) > max_n:
            i = rng.choice([j for j, x in enumerate(s) if x > 0])
            s[i] -= 1
    return s


def gen_int_val(rng):
    return rng.choice([0, 1, 2, 3, 5, 50, 100, 500, 10000, 100000, -1])


def gen_start(rng, tr, max_m):
    """Start of a scenario; `tr` tracks what the generator believes about the processor."""
    if rng.random() < 0.42:
        m = rng.randint(1, max_m)
        tr.update(m=m, size=m, heralds=[], remote_built=True, sym=[], has_input=False, has_filter=False)
        circ = gen_circ(rng, m)
        tr["sym"] = sym_names(circ)
        return {"kind": "remote", "via_set": rng.random() < 0.4, "m": m, "circ": circ,
                "noise": gen_noise(rng) if rng.random() < 0.3 else None}
    # local processor, converted
    steps = []
    if rng.random() < 0.25:
        name = rng.choice(CATALOG)
        st = {"kind": "local", "base": "catalog", "name": name}
        m, ports = 4, set(range(4))
        nher = {"heralded cnot": 2, "postprocessed cnot": 2, "klm cnot": 4, "heralded cz": 2}[name]
        size = 4 + nher
        heralds = list(range(4, size))
        free = []
        tr["sym"] = []
    else:
        m = rng.randint(1, max_m)
        circ = gen_circ(rng, m)
        tr["sym"] = sym_names(circ)
        st = {"kind": "local", "base": "circuit", "m": m, "circ": circ, "catalog": []}
        size = m
        heralds = []
        ports = set()
        if m >= 4 and rng.random() < 0.3:
            names = [rng.choice(CATALOG) for _ in range(rng.randint(1, 2))]
            # a post-processed gate carries a post-selection nothing can be plugged behind: at most one, last
            if names.count("postprocessed cnot") > 1:
                names[0] = "heralded cnot"
            names.sort(key=lambda x: x == "postprocessed cnot")
            for name in names:
                st["catalog"].append([rng.randint(0, m - 4), name])
                nher = {"heralded cnot": 2, "postprocessed cnot": 2, "klm cnot": 4, "heralded cz": 2}[name]
                heralds += list(range(size, size + nher))
                size += nher
            ports = set(range(m))     # catalog gates bring ports on the modes they touch: leave those alone
        free = [k for k in range(m) if k not in ports]
    # heralds at any position among port-free modes of interest
    moi = [k for k in range(size) if k not in heralds]
    n_h = rng.choice([0, 0, 1, 1, 2, 3])
    input_before_heralds = rng.random() < 0.08
    if input_before_heralds and moi:
        steps.append({"op": "with_input", "s": gen_state(rng, len(moi), 4)})
    for _ in range(n_h):
        cand = [k for k in free if k in moi]
        if len(moi) <= 1 or not cand:
            break
        k = rng.choice(cand)
        steps.append({"op": "add_herald", "mode": k, "expected": rng.randint(0, 1)})
        moi.remove(k)
        free.remove(k)
        heralds.append(k)
    # ports
    if rng.random() < 0.3:
        cand = [k for k in free if k + 1 in free and k in moi and k + 1 in moi]
        if cand:
            k = rng.choice(cand)
            steps.append({"op": "port", "mode": k, "name": "q" + str(k)})
            free.remove(k)
            free.remove(k + 1)
    tail = []
    if rng.random() < 0.45 and st.get("base") != "catalog" and not st.get("catalog"):
        tail.append({"op": "post", "p": gen_post(rng, moi)})
    if rng.random() < 0.5:
        tail.append({"op": "noise", "n": gen_noise(rng)})
    if rng.random() < 0.6:
        tail.append({"op": "filter", "n": rng.choice([0, 0, 1, 2, 3])})
    if rng.random() < 0.6 and not input_before_heralds:
        tail.append({"op": "with_input", "s": gen_state(rng, len(moi), 4)})
    rng.shuffle(tail)
    st["steps"] = steps + tail
    tr.update(m=len(moi), size=size, heralds=list(heralds), remote_built=False,
              has_input=any(x["op"] == "with_input" for x in st["steps"]),
              has_filter=any(x["op"] == "filter" for x in st["steps"]))
    return st


def gen_ops(rng, tr, n_ops):
    """Configuration calls, then (mostly) a sampler phase: sampler, iterations, job creation, execution."""
    st = {"m": tr["m"], "size": tr["size"], "heralds": list(tr["heralds"]), "filt": tr["has_filter"], "sampler": False,
          "inp": tr["has_input"],
          "njobs": 0, "used": set(), "stale": set(), "nsym": 0}

    def stale_all():
        # jobs created before a change of processor._parameters or of the sampler's iterator list: executing one of
        # them afterwards is a case of its own (`changed_then_send`), also met by chance in `execute_op`
        st["stale"] = set(range(st["njobs"]))

    def config_op():
        r = rng.random()
        m, size, heralds = st["m"], st["size"], st["heralds"]
        moi = [k for k in range(size) if k not in heralds]
        if r < 0.24:
            if rng.random() < 0.1:
                s = gen_state(rng, max(0, m + rng.choice([-1, 1, 2])))
            else:
                s = gen_state(rng, m, rng.choice([None, 3, 6]))
                st["inp"] = True
            return {"op": "with_input", "s": s}
        if r < 0.42:
            n = rng.choice([None, 0, 0, 1, 1, 2, 3, 5]) if st["filt"] else rng.choice([0, 0, 1, 2, 3])
            st["filt"] = n is not None
            stale_all()
            return {"op": "filter", "n": n}
        if r < 0.52:
            return {"op": "post", "p": None if rng.random() < 0.25 else gen_post(rng, moi)}
        if r < 0.64:
            return {"op": "noise", "n": None if rng.random() < 0.25 else gen_noise(rng)}
        if r < 0.72:
            stale_all()
            k = rng.choice(["thresholded", "foo", "mitigation", "min_detected_photons", "bar"])
            return {"op": "param", "k": k, "v": rng.choice([None, 0, 1, 7, "on", "x"])}
        if r < 0.75:
            stale_all()
            return {"op": "clear_params"}
        if r < 0.87 and tr["remote_built"]:
            rr = rng.random()
            if rr < 0.12 and heralds:
                return {"op": "add_herald", "mode": rng.choice(heralds), "expected": rng.randint(0, 1)}
            if rr < 0.2 and m > 1:
                return {"op": "add_herald", "mode": rng.choice(moi), "expected": 2}
            if m > 1:
                k = rng.choice(moi)
                heralds.append(k)
                st["m"] -= 1
                return {"op": "add_herald", "mode": k, "expected": rng.randint(0, 1)}
        if 0.87 <= r < 0.915:
            return params_op()
        if 0.915 <= r < 0.95 and tr["remote_built"] and st["size"] >= 1:
            return port_op()
        return prepare_op()

    def herald_op():
        moi = [k for k in range(st["size"]) if k not in st["heralds"]]
        k = rng.choice(moi)
        st["heralds"].append(k)
        st["m"] -= 1
        return {"op": "add_herald", "mode": k, "expected": rng.randint(0, 1)}

    def circuit_op():
        """The circuit of the long-lived processor changes: a parameter value set in place, the whole circuit
        replaced (through the processor or through its experiment), a component appended."""
        r = rng.random()
        size = st["size"]
        heralds = st["heralds"] if tr["remote_built"] else list(range(st["m"], size))   # conversion moves them last
        st["nsym"] += 1
        if r < 0.38 and tr["sym"]:
            return {"op": "retune", "name": rng.choice(tr["sym"]), "v": rng.choice(RETUNE_VALUES),
                    "own": rng.random() < 0.5}
        if r < 0.62:
            m = size if rng.random() < 0.93 else max(1, size + rng.choice([-1, 1]))
            spec = gen_circ(rng, m, prefix=f"s{st['nsym']}q", p_sym=0.5)
            if m == size:
                tr["sym"] = sym_names(spec)
            return {"op": "set_circuit", "via": rng.choice(["rp", "exp"]), "circ": spec}
        free = [k for k in range(size) if k not in heralds]
        if r < 0.74 or not free:
            w = rng.choice([1, 2, 2])
            cand = [k for k in range(size - w + 1) if all(j not in heralds for j in range(k, k + w))]
            if not cand:
                w = 1
                cand = free or [0]
            k = rng.choice(cand)
            if rng.random() < 0.12:
                k = rng.randint(-1, size)            # anywhere: on a herald mode, beyond the end, negative
            spec = gen_circ(rng, w, prefix=f"a{st['nsym']}q", max_leaves=2, p_sym=0.3)
            tr["sym"] = tr["sym"] + sym_names(spec)
            return {"op": "add_comp", "k": k, "circ": spec}
        # a list / dict mapping (processor mode -> component input), possibly through an output port name
        ports = st.get("ports", [])
        form = rng.random()
        if form >= 0.5 and ports:
            name, start, psize = rng.choice(ports)
            w = psize
            vals = list(range(psize))
            rng.shuffle(vals)
            f2 = rng.random()
            if f2 < 0.08:
                name = "zz"                           # no such port
            elif f2 < 0.16:
                vals = vals[:-1] if len(vals) > 1 else vals + [1]      # imbalanced
            elif f2 < 0.24 and psize == 1:
                vals = 0                              # int value for a one-mode port
            elif f2 < 0.3 and psize > 1:
                vals = 0                              # int value for a two-mode port: refused
            mp = {"dict": [[name, vals]]}
        else:
            w = min(rng.choice([1, 2, 2, 3]), len(free))
            keys = rng.sample(free, w)
            around = [(a, b) for h in heralds for a in free if a < h for b in free if b > h]
            if around and rng.random() < 0.6:
                a, b = rng.choice(around)             # the span of the PERM contains a herald mode
                keys = rng.choice([[a, b], [b, a]])
                w = 2
            flaw = rng.random()
            if flaw < 0.07 and heralds:
                keys[rng.randrange(w)] = rng.choice(heralds)
            elif flaw < 0.11:
                keys[rng.randrange(w)] = rng.choice([-1, size, size + 1])
            elif flaw < 0.15 and w > 1:
                keys[1] = keys[0]
            elif flaw < 0.19:
                keys = keys[:-1] if (w > 1 and rng.random() < 0.5) else keys + [rng.choice(free)]
            if form < 0.5:
                mp = {"list": keys}
            else:
                vals = list(range(len(keys)))
                rng.shuffle(vals)
                f2 = rng.random()
                if f2 < 0.06:
                    vals[0] = len(keys)               # not an input of the component: PERM refuses the vector
                elif f2 < 0.1 and len(vals) > 1:
                    vals[1] = vals[0]
                elif f2 < 0.13:
                    vals[0] = "a"
                elif f2 < 0.2:
                    vals[0] = [vals[0]]               # a one-element list for an int key
                mp = {"dict": [[k, v] for k, v in zip(keys, vals)]}
        spec = gen_circ(rng, max(1, w), prefix=f"a{st['nsym']}q", max_leaves=2, p_sym=0.3)
        tr["sym"] = tr["sym"] + sym_names(spec)
        return {"op": "add_mapped", "map": mp, "circ": spec}

    def port_op():
        size, heralds = st["size"], st["heralds"]
        taken = set(heralds)
        for _, start, psize in st.get("ports", []):
            taken |= set(range(start, start + psize))
        psize = rng.choice([1, 2, 2])
        cand = [k for k in range(size - psize + 1) if all(j not in taken for j in range(k, k + psize))]
        if not cand or rng.random() < 0.12:
            k = rng.randrange(max(1, size - psize + 1))      # possibly over a herald / another port: refused
        else:
            k = rng.choice(cand)
            st.setdefault("ports", []).append(("q%d" % k, k, psize))
        return {"op": "add_port", "mode": k, "name": "q%d" % k, "size": psize}

    def params_op():
        r = rng.random()
        if r < 0.45:
            stale_all()
            d = [[rng.choice(["thresholded", "foo", "mitigation", "bar", "min_detected_photons"]),
                  rng.choice([None, 0, 1, 7, "on", True, False])] for _ in range(rng.randint(1, 3))]
            if rng.random() < 0.35:
                d.insert(rng.randint(0, len(d)), [None, 1])        # a key that is not a string
            return {"op": "set_params", "d": d}
        stale_all()
        # `False` is refused by a platform that can only do threshold detection
        return {"op": "thresholded", "v": rng.random() < (0.3 if tr.get("pf", {}).get("threshold_only") else 0.6)}

    def clear_ops():
        """`clear_input_and_circuit(new_m)`, then the user builds another circuit on the same processor (same
        noise, filter and parameters) and goes on"""
        out = []
        new_m = rng.choice([None, None, 1, 2, 3, 4, 0, -1])
        out.append({"op": "clear_all", "new_m": new_m})
        st.update(heralds=[], inp=False, ports=[])
        tr["remote_built"] = True
        tr["sym"] = []
        st["nsym"] += 1
        if new_m is not None and new_m >= 1:
            n = new_m
            if rng.random() < 0.5:
                spec = gen_circ(rng, n, prefix=f"c{st['nsym']}q", p_sym=0.4)
                out.append({"op": "set_circuit", "via": rng.choice(["rp", "exp"]), "circ": spec})
                tr["sym"] = sym_names(spec)
        else:
            if rng.random() < 0.15:
                out.append(dict(prepare_op(), circuitless=False))        # nothing to send: refused
            if rng.random() < 0.5:
                n = rng.randint(1, 5)
                spec = gen_circ(rng, n, prefix=f"c{st['nsym']}q", p_sym=0.4)
                out.append({"op": "set_circuit", "via": rng.choice(["rp", "exp"]), "circ": spec})
            else:
                w, k = rng.choice([1, 2, 2, 3]), rng.choice([0, 0, 1, 2])
                n = w + k
                spec = gen_circ(rng, w, prefix=f"c{st['nsym']}q", max_leaves=2, p_sym=0.4)
                if rng.random() < 0.3:
                    keys = rng.sample(range(n), w)
                    n = max(keys) + 1
                    out.append({"op": "add_mapped", "map": {"list": keys}, "circ": spec})
                else:
                    out.append({"op": "add_comp", "k": k, "circ": spec})
            tr["sym"] = sym_names(spec)
        st.update(m=n, size=n)
        if rng.random() < 0.8:
            out.append({"op": "with_input", "s": gen_state(rng, n, 3)})
            st["inp"] = True
        if st["filt"] and rng.random() < 0.6:
            out.append(prepare_op())
        return out

    def prepare_op():
        kw = []
        if rng.random() < 0.3:
            pool = ["foo", "max_shots", "max_samples", "circuit", "noise", "heralds", "input_state", "postselect",
                    "parameters", "job_context"]
            for k in rng.sample(pool, rng.randint(1, 2)):
                kw.append([k, rng.choice([None, 3, 100, "zz"])])
        cmds = ["probs", "samples", "sample_count", "my_command", "cmd:" + str(rng.randint(0, 9))]
        return {"op": "prepare", "cmd": rng.choice(cmds), "circuitless": rng.random() < 0.1,
                "inputless": rng.random() < 0.1, "kw": kw}

    def sampler_op():
        ms = rng.choice([None, 0, -3, 1, 10]) if rng.random() < 0.12 else rng.choice([10, 100, 1000, 5000, 100000])
        st["sampler"] = st["sampler"] or (ms is not None and ms > 0)
        if ms is not None and ms > 0:
            st["ms"] = ms
        return {"op": "sampler", "ms": ms}

    def breaking_state():
        """An input state the platform (or the processor) cannot accept: too many / too few photons for the
        platform's photon-count window, or not the size of the processor's modes of interest."""
        m, pf = st["m"], tr.get("pf", {})
        kinds = ["size"]
        if pf.get("max_photons") is not None:
            kinds += ["max", "max", "max"]
        if pf.get("min_photons"):
            kinds += ["min"]
        kind = rng.choice(kinds)
        if kind == "max" and m >= 1:
            s = [0] * m
            for _ in range(pf["max_photons"] + 1):
                s[rng.randrange(m)] += 1
            return s
        if kind == "min" and m >= 1:
            return [0] * m                 # breaks min_photon_count unless heralds bring the photons
        return gen_state(rng, max(1, m + rng.choice([-1, 1, 1, 2])), 3)

    def iters_op(probe=False):
        """Iterations for the sampler.  `probe`: one iteration of the list carries something that must be refused
        (an input state breaking a platform constraint, an unknown / non-numeric circuit parameter) next to any
        combination of other, legal keys in any order."""
        stale_all()
        m = st["m"]
        pf = tr.get("pf", {})
        its = []
        n_its = rng.randint(1, 3)
        # a scan: every iteration of the list has the same keys in the same order (the usual shape of a list)
        scan = rng.random() < 0.4
        if scan:
            n_its = rng.randint(2, 4)
        bad_at = rng.randrange(n_its) if probe else None
        if probe and scan and rng.random() < 0.7:
            bad_at = rng.randrange(1, n_its)          # … and the one to refuse is not the first
        scan_keys = None
        for idx in range(n_its):
            it = []
            keys = rng.sample(["circuit_params", "input_state", "min_detected_photons", "max_samples", "max_shots",
                               "noise"], rng.randint(1, 3))
            if scan and probe and scan_keys is None:
                k0 = "input_state" if (rng.random() < 0.5 or not tr["sym"]) else "circuit_params"
                if k0 not in keys:
                    keys.insert(rng.randint(0, len(keys)), k0)
                scan_what = k0
            if not tr["sym"] and "circuit_params" in keys and rng.random() < 0.8:
                keys.remove("circuit_params")
            both = False
            if tr["sym"] and not probe and rng.random() < 0.45:
                both = True
                # a scan of a circuit parameter together with the input state: the commonest kind of iteration
                for key in ("circuit_params", "input_state"):
                    if key not in keys:
                        keys.insert(rng.randint(0, len(keys)), key)
            what = None
            if scan:
                if scan_keys is None:
                    scan_keys = [k for k in keys if tr["sym"] or k != "circuit_params"] or ["max_shots"]
                keys = list(scan_keys)
                both = both or probe
                if idx == bad_at:
                    what = scan_what
            elif idx == bad_at:
                what = "input_state" if (rng.random() < 0.5 or not tr["sym"]) else "circuit_params"
                if what not in keys:
                    keys.insert(rng.randint(0, len(keys)), what)
                r = rng.random()
                other = "circuit_params" if what == "input_state" else "input_state"
                if r < 0.25:
                    keys = [what]                                   # alone
                elif r < 0.8 and other not in keys and (tr["sym"] or other == "input_state"):
                    keys.insert(rng.randint(0, len(keys)), other)   # next to the other processor-dependent key
            if rng.random() < 0.05 and not (scan and probe):
                keys.insert(rng.randint(0, len(keys)), "foo")
            for key in keys:
                bad = rng.random() < 0.04 and what is None and not (scan and probe)
                if key == "circuit_params":
                    names = tr["sym"] if (tr["sym"] and (both or rng.random() < 0.92)) else ["zeta"]
                    if what == key:
                        names = list(tr["sym"])
                    elif what is not None and tr["sym"]:
                        names = list(tr["sym"])                     # legal: the refusal must come from the other key
                    d = [[n, rng.choice([0, 1, 2, 3])] for n in names[:rng.randint(1, len(names))]]
                    if what == key:
                        if rng.random() < 0.5:
                            d.insert(rng.randint(0, len(d)), ["zeta", 1])     # no such parameter in the circuit
                        else:
                            d[rng.randrange(len(d))][1] = "one"
                    if bad:
                        d[0][1] = "one"
                    it.append([key, {"cparams": d}])
                elif key == "input_state":
                    if what == key:
                        it.append([key, {"state": breaking_state()}])
                    elif bad:
                        it.append([key, {"other": True}])
                    elif what is not None or both:
                        cap = pf.get("max_photons")
                        it.append([key, {"state": gen_state(rng, m, 3 if cap is None else min(3, cap))}])
                    else:
                        mm = m if rng.random() < 0.93 else m + 1
                        it.append([key, {"state": gen_state(rng, mm, rng.choice([None, 3]))}])
                elif key == "noise":
                    it.append([key, {"other": True} if bad else {"noise": gen_noise(rng)}])
                elif key == "foo":
                    it.append([key, {"int": 1}])
                else:
                    it.append([key, {"other": True} if bad else {"int": gen_int_val(rng)}])
            if it:
                its.append(it)
        return {"op": "add_iters", "its": its} if its else {"op": "clear_iters"}

    def job_op():
        st["njobs"] += 1
        return {"op": "job", "method": rng.choice(METHODS)}

    def gen_limit():
        # a sample limit; often right at the boundary of the sampler's max_shots_per_call (the clamp's edge)
        if st.get("ms") and rng.random() < 0.3:
            return st["ms"] + rng.choice([-1, 0, 1, 1])
        return gen_int_val(rng)

    def execute_op(job=None):
        cand = [j for j in range(st["njobs"]) if j not in st["used"] and (j not in st["stale"] or rng.random() < 0.3)]
        if job is not None:
            j = job
        elif st["used"] and rng.random() < 0.1:
            j = rng.choice(sorted(st["used"]))     # second execution of a job (refused, or dropped when it was sent)
        elif not cand:
            return job_op()
        else:
            j = cand[-1] if rng.random() < 0.8 else rng.choice(cand)
        st["used"].add(j)
        rr = rng.random()
        if rr < 0.6:
            args = [gen_limit()]
        elif rr < 0.76:
            args = []
        elif rr < 0.88:
            args = [gen_limit(), gen_int_val(rng)]
        elif rr < 0.93:
            args = [gen_int_val(rng), gen_int_val(rng), 7]
        else:
            args = [rng.choice([None, "7"])]
        kw = []
        rr = rng.random()
        if (not args and rr < 0.5) or rr < 0.06:
            kw.append(["max_samples", rng.choice([gen_limit(), gen_limit(), gen_int_val(rng), None])])
        elif rr < 0.10:
            kw.append(["max_shots", gen_int_val(rng)])
        elif rr < 0.14:
            kw.append(["foo", 1])
        if rng.random() < 0.03:
            kw.append(["job_context", 1])
        # what the network does to the creation request, and the entry point used for the execution
        net = "ok" if rng.random() < 0.67 else rng.choice(["lost", "lost"] + NET_FAILURES)
        how = "async" if rng.random() < 0.8 else rng.choice(["sync", "call"])
        return {"op": "execute", "job": j, "args": args, "kw": kw, "net": net, "how": how}

    def changed_then_send():
        """a job is created, the user then changes the processor's parameters (photon filter, set_parameter,
        clear_parameters) and / or the sampler's iterations (more iterations, clear_iterations), possibly creates
        another job, and only then executes the first one: the request sent must be the one of creation time"""
        out = []
        if rng.random() < 0.5:
            out.append(iters_op())            # the job to come has iterations of its own
        out.append(job_op())
        first = st["njobs"] - 1
        for _ in range(rng.choice([1, 1, 2])):
            r = rng.random()
            if r < 0.25:
                n = rng.choice([0, 1, 2, 3, 5])
                st["filt"] = True
                stale_all()
                out.append({"op": "filter", "n": n})
            elif r < 0.4:
                stale_all()
                out.append({"op": "param", "k": rng.choice(["thresholded", "foo", "mitigation", "bar"]),
                            "v": rng.choice([None, 0, 1, 7, "on", "x"])})
            elif r < 0.52:
                stale_all()
                out.append({"op": "clear_params"})
            elif r < 0.72:
                out.append(iters_op())
            else:
                stale_all()
                out.append({"op": "clear_iters"})
                if rng.random() < 0.5:
                    out.append(iters_op())
        if rng.random() < 0.4:
            out.append(job_op())
            if rng.random() < 0.5:
                out.extend(execute_ops())
        out.extend(execute_ops(first))
        return out

    def execute_ops(job=None):
        """an execution; when the network failed on its creation request, often a second execution of the same job
        (must be refused: a request whose answer was lost is never sent again)"""
        op = execute_op(job)
        out = [op]
        if op["op"] == "execute" and op["net"] != "ok" and rng.random() < 0.6:
            out.append(dict(op, net=rng.choice(["ok", "ok", "lost"]), how=rng.choice(["async", "async", "sync"])))
        return out

    ops = []
    n_cfg = rng.randint(1, max(1, n_ops // 2))
    if tr["remote_built"] and rng.random() < 0.8:
        st["filt"] = True
        ops.append({"op": "filter", "n": rng.choice([0, 0, 1, 2, 3])})
    if tr.get("pf", {}).get("threshold_only") and rng.random() < 0.5:
        # a platform that can only do threshold detection: `thresholded_output(False)` is refused
        ops.append({"op": "thresholded", "v": rng.random() < 0.4})
    if tr["remote_built"] and st["size"] >= 2 and rng.random() < 0.3:
        ops.append(port_op())
    for _ in range(n_cfg):
        ops.append(config_op() if rng.random() < 0.88 else circuit_op())
    if rng.random() < 0.08:
        ops.extend(clear_ops())
    if tr["remote_built"] and st["m"] >= 3 and rng.random() < 0.15:
        # a component plugged on two modes AROUND a herald mode: the PERM the code inserts spans the herald
        free = [k for k in range(st["size"]) if k not in st["heralds"]]
        inner = [h for h in free if any(a < h for a in free) and any(b > h for b in free)]
        if inner:
            h = rng.choice(inner)
            st["heralds"].append(h)
            st["m"] -= 1
            ops.append({"op": "add_herald", "mode": h, "expected": rng.randint(0, 1)})
            a = rng.choice([k for k in free if k < h])
            b = rng.choice([k for k in free if k > h])
            st["nsym"] += 1
            spec = gen_circ(rng, 2, prefix=f"h{st['nsym']}q", max_leaves=2, p_sym=0.3)
            tr["sym"] = tr["sym"] + sym_names(spec)
            ops.append({"op": "add_mapped", "map": {"list": rng.choice([[a, b], [b, a]])}, "circ": spec})
            if st["filt"]:
                ops.append(prepare_op())
    if tr["remote_built"] and st["size"] >= 2 and rng.random() < 0.1:
        # a port, then a component plugged on it by name
        op = port_op()
        ops.append(op)
        if st.get("ports") and st["ports"][-1][0] == op["name"]:
            st["nsym"] += 1
            psize = op["size"]
            spec = gen_circ(rng, psize, prefix=f"p{st['nsym']}q", max_leaves=2, p_sym=0.3)
            tr["sym"] = tr["sym"] + sym_names(spec)
            vals = list(range(psize))
            rng.shuffle(vals)
            ops.append({"op": "add_mapped", "map": {"dict": [[op["name"], vals]]}, "circ": spec})
            if st["filt"]:
                ops.append(prepare_op())
    if tr["remote_built"] and st["m"] > 1 and rng.random() < 0.12:
        # an input state, then a herald (expecting what the state has there, or not): the stored state lags behind
        # the heralds and is transmitted as it is; the photon window decides on n_user + n_heralds
        if not st["filt"]:
            st["filt"] = True
            ops.append({"op": "filter", "n": rng.choice([0, 1])})
        st["inp"] = True
        ops.append({"op": "with_input", "s": gen_state(rng, st["m"], rng.choice([2, 3]))})
        ops.append(herald_op())
        ops.append(dict(prepare_op(), inputless=False))
    if rng.random() < 0.2:
        ops.append(prepare_op())
    if rng.random() < 0.85:
        if not st["inp"] and rng.random() < 0.9:
            st["inp"] = True
            ops.append({"op": "with_input", "s": gen_state(rng, st["m"], rng.choice([3, 4]))})
        if not st["filt"] and rng.random() < 0.9:
            st["filt"] = True
            ops.append({"op": "filter", "n": rng.choice([0, 1, 2])})
        ops.append(sampler_op())
        left = max(2, n_ops - len(ops))
        while left > 0:
            r = rng.random()
            if r < 0.11:
                # something that must be refused inside an iteration list, then a job from that sampler is executed:
                # what the platform receives is looked at by the direct oracle
                ops.append(iters_op(probe=True))
                ops.append(job_op())
                ops.extend(execute_ops())
                left -= 2
            elif r < 0.18:
                ops.append(iters_op())
                if rng.random() < 0.5 and not st["njobs"]:
                    ops.extend(changed_then_send())
                    left -= 2
            elif r < 0.19:
                ops.append({"op": "clear_iters"})
            elif r < 0.28:
                ops.append(config_op())
            elif r < 0.36:
                if rng.random() < 0.12:
                    ops.extend(clear_ops())
                else:
                    ops.append(circuit_op())
            elif r < 0.40:
                ops.append(sampler_op())
            elif r < 0.52:
                ops.extend(changed_then_send())
                left -= 3
            else:
                ops.append(job_op())
                left -= 1
                if rng.random() < 0.1:
                    ops.append(config_op() if rng.random() < 0.6 else circuit_op())
                if rng.random() < 0.9:
                    ops.extend(execute_ops())
            left -= 1
        if st["njobs"] and rng.random() < 0.15:
            ops.extend(execute_ops())
    elif rng.random() < 0.5:
        ops.append(circuit_op())
        ops.append(prepare_op())
    if rng.random() < 0.35:
        # a scan on the same long-lived processor: request, change, request, change, request …
        if not st["sampler"] or rng.random() < 0.4:
            ops.append(prepare_op())
        for _ in range(rng.randint(1, 3)):
            if tr["remote_built"] and st["m"] > 1 and rng.random() < 0.2:
                ops.append(herald_op())
                if st["inp"]:
                    ops.append({"op": "with_input", "s": gen_state(rng, st["m"], rng.choice([3, 4]))})
            else:
                ops.append(circuit_op() if rng.random() < 0.75 else config_op())
            if st["sampler"] and rng.random() < 0.6:
                ops.append(job_op())
                ops.extend(execute_ops())
            else:
                ops.append(prepare_op())
    return ops


def gen_handler(rng):
    """the `RPCHandler` of the session: built by the user and injected (`via` = object), or built by
    `RemoteProcessor.__init__` from name / token / url / proxies (`via` = kwargs: needs a token and proxies)"""
    hs = {"name": rng.choice(HANDLER_NAMES), "url": rng.choice(HANDLER_URLS), "token": rng.choice(HANDLER_TOKENS),
          "proxies": copy.deepcopy(rng.choice(HANDLER_PROXIES)), "timeout": 10, "via": "object"}
    if hs["token"] and hs["proxies"] is not None and rng.random() < 0.5:
        hs["via"] = "kwargs"
    elif rng.random() < 0.15:
        hs["timeout"] = rng.choice([3, 30])
    return hs


def gen_scenario(rng, max_m, max_ops):
    pf = gen_pf(rng)
    tr = {"pf": pf}
    start = gen_start(rng, tr, max_m)
    ops = gen_ops(rng, tr, rng.randint(3, max_ops))
    # drawn last: the scenarios of a seed are the ones of the earlier rounds, each with a handler
    return {"pf": pf, "start": start, "ops": ops, "handler": gen_handler(rng)}


# ------------------------------------------------------------------------------------------------
# running the real code
# ------------------------------------------------------------------------------------------------
class Discard(Exception):
    """the scenario's local construction is outside the generator's valid domain"""


class Session:
    def __init__(self, scen):
        import perceval as pcvl
        quiet()
        self.pcvl = pcvl
        self.scen = scen
        install_transport()
        self.net = FakeNet(scen["pf"])
        _NET[0] = self.net
        self.hs = dict(DEFAULT_HANDLER, **scen.get("handler", {}))
        self.h = None              # the RPCHandler object (the user's, or the one RemoteProcessor builds)
        self.sizes = []            # circuit size of the processor after each op
        self.ports = {}            # name -> (first mode, size) of the ports the user put on the remote processor
        self.http = []             # per op: the platform-details / job-creation requests emitted while it ran
        self.n_traffic = 0
        self.noises = [pcvl.NoiseModel()]
        self.posts = []            # id -> PostSelect object given by the user
        self.circs = []            # id -> numeric matrix of the user's circuit / local processor
        self.rp = None
        self.local = None
        self.sampler = None
        self.jobs = []             # [job object, sent_ok]
        self.n_sent = 0
        self.epoch = 0             # bumped by every call that mutates processor._parameters or the iterator list
        self.lean_ops = []
        self.outs = []
        self.states = []
        self.oracle_failures = []  # (signature, what)
        self.flags = set()
        # the circuit the user built, as a recipe independent of the objects the code under test holds:
        # base spec (remote circuit / local processor), components appended later, parameter values set so far
        self.cs = None             # {"base": (kind, spec), "extra": [(k, spec)], "values": {name: v}, "direct": bool}
        self.conv_perm = None      # relabelling (new mode -> local mode) found right after the conversion
        self.user_P = {}           # name -> the user's own Parameter objects
        self.u_local0 = None
        self.circ_history = []     # circuits the processor held earlier in the session
        self.seen_payload = False  # a request has already been produced from this processor
        # structure of the user's circuits for the model's matrix semantics: elementary components (leaves) get ids;
        # what each denotes right now (fresh objects, current parameter values) is sent to the driver when it changes
        self.leaf_reg = []         # id -> {"k", "fixed": matrix json} | {"k", "sym": sym spec} | {"k", "local": True}
        self.env_sent = {}         # id -> last matrix sent (json text)
        self.mat_ctx = {}          # lean op index -> what kind of circuit history the compared matrix has
        self.pending = set()       # what the user changed since the last request
        # what the user configured (direct oracle)
        self.intent = {"filter": None, "noise": None, "post": None, "input": None, "input_fresh": False,
                       "heralds": {}, "circ": None, "converted": False, "local_heralds": {}, "max_shots": None,
                       "sampler_its": [], "sampler_its_bad": [], "params": {}}

    # -- the handler -----------------------------------------------------------------------------
    def handler_kwargs(self):
        """keyword arguments giving a RemoteProcessor its handler: the user's own `RPCHandler` object, or the four
        values `RemoteProcessor.__init__` builds one from"""
        hs = self.hs
        if hs["via"] == "kwargs":
            self.flags.add("handler-built-by-processor")
            return {"name": hs["name"], "token": hs["token"], "url": hs["url"], "proxies": copy.deepcopy(hs["proxies"])}
        from perceval.runtime.rpc_handler import RPCHandler
        h = RPCHandler(hs["name"], hs["url"], hs["token"], copy.deepcopy(hs["proxies"]))
        if hs["timeout"] != 10:
            h.request_timeout = hs["timeout"]
            self.flags.add("handler-timeout-set")
        self.flags.add("handler-injected")
        return {"rpc_handler": h}

    def lean_handler(self):
        hs = self.hs
        pid = None if hs["proxies"] is None else HANDLER_PROXIES.index(hs["proxies"]) if hs["proxies"] in HANDLER_PROXIES \
            else 99
        if hs["via"] == "kwargs" and pid is None:
            pid = 99
        return {"name": hs["name"], "url": hs["url"], "token": hs["token"], "proxies": pid, "timeout": hs["timeout"]}

    # -- ids -------------------------------------------------------------------------------------
    def noise_id(self, spec):
        if spec is None:
            return None
        self.noises.append(build_noise(spec))
        return len(self.noises) - 1

    def post_id(self, spec):
        if spec is None:
            return None
        self.posts.append(build_post(spec))
        return len(self.posts) - 1

    # -- structure of circuits for the model's matrix semantics ----------------------------------
    def reg_circuit(self, spec, symid):
        """UC record (Model/C16Mat.lean) of a circuit spec: its elementary components in the order `build_circuit`
        adds them, each registered as a leaf"""
        leaves = []
        for off, leaf in spec["leaves"]:
            k = gens.leaf_width(leaf)
            self.leaf_reg.append({"k": k, "fixed": gens.leaf_matrix_json(gens.build_leaf(leaf))})
            leaves.append([off, len(self.leaf_reg) - 1, k])
        for sym in spec.get("sym", []):
            k = 2 if (len(sym) > 2 and sym[2] == "BS") else 1
            self.leaf_reg.append({"k": k, "sym": sym})
            leaves.append([sym[0], len(self.leaf_reg) - 1, k])
        return {"m": spec["m"], "leaves": leaves, "sym": symid, "cparams": sym_names(spec)}

    def local_matrix(self, values):
        """matrix of the user's local processor under the parameter values set so far (fresh objects)"""
        spec = self.scen["start"]
        names = set(sym_names(spec["circ"])) if spec.get("base") == "circuit" else set()
        if names & set(values):
            saved = self.local_user_input
            try:
                return numeric_unitary(self.build_local(spec, values, None).experiment.unitary_circuit())
            finally:
                self.local_user_input = saved
        return self.u_local0

    def env_delta(self):
        """[[leaf id, exact matrix]] for every leaf whose matrix is new or has changed since it was last sent"""
        values = (self.cs or {}).get("values", {})
        out = []
        for i, ent in enumerate(self.leaf_reg):
            if "fixed" in ent:
                if i in self.env_sent:
                    continue
                js = ent["fixed"]
            elif "sym" in ent:
                js = core.mat(sym_leaf_matrix(ent["sym"], values).tolist())
            else:
                js = core.mat(np.array(self.local_matrix(values)).tolist())
            key = json.dumps(js)
            if self.env_sent.get(i) != key:
                self.env_sent[i] = key
                out.append([i, js])
        return out

    def want_matrix(self, lop):
        """ask the model for the exact matrix of the processor's component list after this op"""
        lop["env"] = self.env_delta()
        lop["want"] = True
        cs, it = self.cs or {}, self.intent
        ctx = set()
        if it["converted"] and not cs.get("direct"):
            ctx.add("converted")
            if "convert-heralds-inside" in self.flags:
                ctx.add("converted-perm")
        if cs.get("extra"):
            ctx.add("after-add")
            if it["converted"] and cs["base"][0] == "local":
                ctx.add("converted-then-add")
        if it["converted"] and cs.get("base", ("",))[0] == "remote":
            ctx.add("converted-then-set-circuit")
        if cs.get("base", ("",))[0] == "remote" and "set-circuit" in self.flags:
            ctx.add("after-set-circuit")
        if cs.get("values"):
            ctx.add("retuned")
        if it["heralds"]:
            ctx.add("remote-heralds")
        if any(route_matrix(mp, max(mp) + 1)[2] for mp, _ in cs.get("extra", [])):
            ctx.add("after-mapped-add-perm")
        if cs.get("base", ("",))[0] == "empty" or "base_m" in it:
            ctx.add("after-clear")
        self.mat_ctx[len(self.lean_ops)] = ctx

    # -- start -----------------------------------------------------------------------------------
    def start(self):
        pcvl = self.pcvl
        st = self.scen["start"]
        if st["kind"] == "remote":
            circ = build_circuit(st["circ"], keep=self.user_P)
            self.circs.append(numeric_unitary(circ))
            self.cs = {"base": ("remote", st["circ"]), "extra": [], "values": {}, "direct": True}
            nid = self.noise_id(st["noise"])
            lop = {"op": "new_remote", "via_set": st["via_set"], "c": self.reg_circuit(st["circ"], 0), "noise": nid}
            if st["via_set"]:
                self.flags.add("set-circuit")
            self.flags.add("remote-built")

            def do():
                rp = pcvl.RemoteProcessor(m=st["m"], noise=None if nid is None else self.noises[nid],
                                          **self.handler_kwargs())
                if st["via_set"]:
                    rp.set_circuit(circ)
                else:
                    rp.add(0, circ)
                self.rp = rp
                self.intent.update(noise=None if nid is None else self.noises[nid], circ=self.circs[0])
                return {"done": True}
            self.run_op(lop, do)
            return
        # local processor
        try:
            p = self.build_local(st)
        except Discard:
            raise
        except Exception as e:
            if os.environ.get("C16_DEBUG"):
                print("DISCARD", type(e).__name__, e, json.dumps(st)[:400])
            raise Discard(f"{type(e).__name__}: {e}")
        self.local = p
        inp = p.input_state
        u_local = numeric_unitary(p.experiment.unitary_circuit())
        self.circs.append(u_local)
        self.u_local0 = u_local
        self.cs = {"base": ("local", st), "extra": [], "values": {}, "direct": False}
        exp_noise = p.experiment.noise
        nid = None
        if exp_noise is not None:
            self.noises.append(exp_noise)
            nid = len(self.noises) - 1
        post = p.post_select_fn
        pid = None
        if post is not None:
            self.posts.append(copy.copy(post))
            pid = len(self.posts) - 1
        heralds = [[k, v] for k, v in p.heralds.items()]
        state = {"m": p.m, "size": p.circuit_size, "heralds": heralds,
                 "input": None if inp is None else [int(x) for x in inp], "post": pid, "noise": nid,
                 "filter": p.experiment.min_photons_filter, "circ": 0,
                 "cparams": list(p.get_circuit_parameters().keys())}
        self.leaf_reg.append({"k": p.circuit_size, "local": True})
        lop = {"op": "convert", "p": state, "pcomps": [["leaf", 0, len(self.leaf_reg) - 1, p.circuit_size]]}
        if post is not None:
            lop["conds"] = post_conds(post)
        self.flags.add("convert")
        if heralds:
            self.flags.add("convert-heralds")
            if sorted(h[0] for h in heralds) != list(range(p.m, p.circuit_size)):
                self.flags.add("convert-heralds-inside")
        if inp is not None:
            self.flags.add("input-before-convert")
            if heralds:
                self.flags.add("convert-heralds-input")
        if state["filter"] == 0:
            self.flags.add("filter-zero")
        self.intent.update(filter=state["filter"], noise=p.noise, post=None if pid is None else (self.posts[pid], "local"),
                           input=self.local_user_input, input_fresh=True, circ=u_local, converted=True,
                           local_heralds=dict(p.heralds))

        def do():
            self.rp = pcvl.RemoteProcessor.from_local_processor(p, **self.handler_kwargs())
            return {"done": True}
        self.run_op(lop, do)
        if self.rp is not None:
            try:
                self.conv_perm = self.find_relabelling(self.intent, numeric_unitary(self.rp.linear_circuit()),
                                                       {int(k): int(v) for k, v in self.rp.heralds.items()})
            except Exception:
                self.conv_perm = None
        if self.rp is not None:
            # direct oracle: the conversion preserves what the user configured on the local processor
            rp = self.rp
            try:
                got = {"m": rp.m, "circuit_size": rp.circuit_size, "heralds": sorted(rp.heralds.values()),
                       "filter": rp.experiment.min_photons_filter, "noise": rp.noise,
                       "input": None if rp.input_state is None else
                       [int(x) for x in rp.remove_heralded_modes(rp.input_state)]}
                want = {"m": p.m, "circuit_size": p.circuit_size, "heralds": sorted(p.heralds.values()),
                        "filter": p.experiment.min_photons_filter, "noise": p.noise,
                        "input": None if inp is None else [int(x) for x in p.remove_heralded_modes(inp)]}
                for key in want:
                    if not (got[key] == want[key]):
                        self.fail("from-local-" + key, f"from_local_processor changed {key}: local processor "
                                                       f"{want[key]!r}, remote processor {got[key]!r}")
            except Exception as e:
                self.fail("from-local-inspect", f"converted processor cannot be inspected: {type(e).__name__}: {e}")
        if self.rp is None and "err" in self.outs[-1]:
            # conversion of a processor built with the public API failed: direct oracle
            sig = "from-local-raises"
            if heralds and inp is not None:
                sig = "from-local-heralds-input"
            self.oracle_failures.append((sig, f"RemoteProcessor.from_local_processor raised {self.outs[-1]['err']} "
                                              f"({self.outs[-1].get('msg', '')}) on a local processor with heralds "
                                              f"{dict(p.heralds)} and input state {inp}"))

    def circuit_matrix(self, cs):
        """Matrix of the user's circuit described by the recipe `cs`, rebuilt from the specs (fresh objects): in the
        local processor's labelling when `cs['direct']` is false, in the remote processor's own labelling otherwise."""
        kind, spec = cs["base"]
        if kind == "empty":
            u = np.eye(cs["size"], dtype=complex)       # after clear_input_and_circuit: nothing but the modes
        elif kind == "remote":
            u = numeric_unitary(build_circuit(spec, cs["values"]))
        else:
            names = set(sym_names(spec["circ"])) if spec.get("base") == "circuit" else set()
            if names & set(cs["values"]):
                saved = self.local_user_input
                try:
                    u = numeric_unitary(self.build_local(spec, cs["values"], None).experiment.unitary_circuit())
                finally:
                    self.local_user_input = saved
            else:
                u = self.u_local0
            if cs["direct"]:
                u = relabel(u, self.conv_perm)
        for mapping, spec in cs["extra"]:
            # `mapping`: {processor mode: component input} — route, then the component on the first modes of the span
            pm, mn, _ = route_matrix(mapping, u.shape[0])
            w = spec["m"]
            e = np.eye(u.shape[0], dtype=complex)
            e[mn:mn + w, mn:mn + w] = numeric_unitary(build_circuit(spec, cs["values"]))
            u = e @ pm @ u
        return u

    def build_local(self, st, values=None, keep="user"):
        pcvl = self.pcvl
        from perceval.components import Port
        from perceval.utils import Encoding
        self.local_user_input = None
        if keep == "user":
            keep = self.user_P
        if st["base"] == "catalog":
            p = pcvl.catalog[st["name"]].build_processor()
        else:
            p = pcvl.Processor("SLOS", st["m"])
            p.add(0, build_circuit(st["circ"], values, keep))
            for off, name in st["catalog"]:
                p.add(off, pcvl.catalog[name].build_processor())
        for s in st["steps"]:
            k = s["op"]
            if k == "add_herald":
                p.add_herald(s["mode"], s["expected"])
                if self.local_user_input is not None:
                    # the user's state is now read on the remaining modes of interest
                    full = [int(x) for x in p.input_state]
                    self.local_user_input = [x for i, x in enumerate(full) if i not in p.heralds]
            elif k == "port":
                p.add_port(s["mode"], Port(Encoding.DUAL_RAIL, s["name"]))
            elif k == "post":
                p.set_postselection(build_post(s["p"]))
            elif k == "noise":
                p.noise = build_noise(s["n"])
            elif k == "filter":
                p.min_detected_photons_filter(s["n"])
            elif k == "with_input":
                if len(s["s"]) != p.m:
                    raise Discard("generator lost track of m")
                p.with_input(pcvl.BasicState(s["s"]))
                self.local_user_input = list(s["s"])
        return p

    # -- one op ----------------------------------------------------------------------------------
    def run_op(self, lop, do):
        try:
            out = do()
        except Exception as e:  # every exception class is compared with the model's
            out = {"err": type(e).__name__, "msg": str(e)[:160]}
        self.lean_ops.append(lop)
        self.outs.append(out)
        self.states.append(self.digest())
        self.sizes.append(None if self.rp is None else self.rp.circuit_size)
        # the HTTP requests this call made the client emit
        new = self.net.traffic[self.n_traffic:]
        self.n_traffic = len(self.net.traffic)
        self.http.append([r for r in new if r["kind"] in ("details", "create")])
        for r in new:
            if r["kind"] == "other" or (r["kind"] in ("status", "result") and lop["op"] != "execute"):
                self.oracle_failures.append(("unexpected-http-request", f"{lop['op']} made the client emit "
                                             f"{r['verb']} {r['url']}"))
            self.check_request(r)
        # direct oracle: nothing reaches the platform except through an execution
        if len(self.net.log) != self.n_sent:
            self.oracle_failures.append(("create-job-count", f"the platform received {len(self.net.log)} job-creation "
                                         f"requests after {self.n_sent} executions that emitted one (last op {lop['op']})"))
            self.n_sent = len(self.net.log)

    def check_request(self, r):
        """direct oracle on ONE emitted HTTP request, from the scenario's own handler values: it is authenticated
        with the user's token and a job creation is a JSON document naming the user's platform"""
        hs = self.hs
        if hs["token"] and r["headers"].get("Authorization") != f"Bearer {hs['token']}":
            self.fail("request-not-authenticated", f"{r['verb']} {r['url']} carries Authorization "
                                                   f"{r['headers'].get('Authorization')!r}, the user's token is "
                                                   f"{hs['token']!r}")
        for k, v in (hs["proxies"] or {}).items():
            if r["proxies"].get(k) != v:
                self.fail("request-proxies", f"{r['verb']} {r['url']} goes through proxies {r['proxies']!r}, the user "
                                             f"gave {hs['proxies']!r}")
        if r["kind"] != "create":
            return
        self.flags.add("post-checked")
        if not str(r["headers"].get("Content-Type", "")).startswith("application/json"):
            self.fail("post-not-json", f"job creation posted with Content-Type {r['headers'].get('Content-Type')!r}")
        try:
            doc = json.loads(r["body"])
        except Exception as e:
            return self.fail("post-not-json", f"the body of the job creation is not JSON: {type(e).__name__}: {e}")
        if not isinstance(doc, dict) or doc.get("platform_name") != hs["name"]:
            self.fail("post-wrong-platform", f"job creation names platform "
                                             f"{doc.get('platform_name') if isinstance(doc, dict) else doc!r}, the "
                                             f"user's handler is for {hs['name']!r}")
        try:
            from perceval.utils import PMetadata
            if doc.get("pcvl_version") != PMetadata.short_version():
                self.fail("post-wrong-version", f"pcvl_version {doc.get('pcvl_version')!r} != "
                                                f"{PMetadata.short_version()!r}")
        except ImportError:
            pass

    def digest(self):
        rp = self.rp
        if rp is None:
            return None
        from perceval import BasicState
        inp = rp.input_state
        noise = rp.noise
        nid = None
        if noise is not None:
            nid = next((i for i in range(len(self.noises) - 1, -1, -1) if self.noises[i] is noise), None)
            if nid is None:
                nid = next((i for i in range(len(self.noises) - 1, -1, -1) if self.noises[i] == noise), -1)
        return {"m": rp.m, "size": rp.circuit_size, "heralds": sorted([int(k), int(v)] for k, v in rp.heralds.items()),
                "input": [int(x) for x in inp] if isinstance(inp, BasicState) else (None if inp is None else "other"),
                "filter": rp.experiment.min_photons_filter, "params": dict(rp.parameters), "noise": nid,
                "has_post": rp.post_select_fn is not None}

    def wire(self, obj):
        from perceval.serialization import deserialize, serialize
        return deserialize(json.loads(json.dumps(serialize(obj))))

    def apply(self, op):
        """Execute one scenario op on the real objects. Returns False when the op is outside the modelled domain
        at run time (dropped on both sides)."""
        pcvl = self.pcvl
        rp = self.rp
        k = op["op"]
        it = self.intent
        if rp.circuit_size == 0 and (k in ("with_input", "add_herald", "sampler", "add_iters", "clear_iters", "job",
                                           "add_port", "retune") or (k == "prepare" and op["circuitless"])
                                     or (k == "add_mapped" and "dict" in op["map"])):
            return False           # a processor of 0 modes (after clear_input_and_circuit()): outside the model
        if k in ("filter", "param", "clear_params", "add_iters", "clear_iters"):
            # the calls that change processor._parameters or the sampler's iterator list: a job created before and
            # executed after one of them must still send the request it had when it was created
            self.epoch += 1
        if k == "with_input":
            def do():
                rp.with_input(pcvl.BasicState(op["s"]))
                it.update(input=list(op["s"]), input_fresh=True)
                self.pending.add("input")
                self.flags.add("input-after-convert" if it["converted"] else "input-remote")
                return {"done": True}
            self.run_op({"op": k, "s": op["s"]}, do)
        elif k == "add_herald":
            if op["mode"] >= rp.circuit_size or rp.m <= 1:
                return False

            def do():
                rp.add_herald(op["mode"], op["expected"])
                it["heralds"][op["mode"]] = op["expected"]
                if it["input"] is not None:
                    it["input_fresh"] = False
                self.flags.add("remote-herald")
                self.pending.add("herald")
                return {"done": True}
            self.run_op({"op": k, "mode": op["mode"], "expected": op["expected"]}, do)
        elif k == "filter":
            def do():
                before = dict(rp.parameters)
                rp.min_detected_photons_filter(op["n"])
                it["filter"] = op["n"]
                self.pending.add("filter")
                if dict(rp.parameters) != before:
                    self.touch_jobs("filter")
                if op["n"] == 0:
                    self.flags.add("filter-zero")
                return {"done": True}
            self.run_op({"op": k, "n": op["n"]}, do)
        elif k == "post":
            pid = self.post_id(op["p"])

            def do():
                if pid is None:
                    rp.clear_postselection()
                    it["post"] = None
                else:
                    rp.set_postselection(self.posts[pid])
                    it["post"] = (self.posts[pid], "remote")
                self.pending.add("post")
                return {"done": True}
            self.run_op({"op": k, "p": pid, "conds": [] if pid is None else post_conds(self.posts[pid])}, do)
        elif k == "noise":
            nid = self.noise_id(op["n"])

            def do():
                rp.noise = None if nid is None else self.noises[nid]
                it["noise"] = None if nid is None else self.noises[nid]
                self.pending.add("noise")
                if it["converted"]:
                    self.flags.add("noise-after-convert")
                return {"done": True}
            self.run_op({"op": k, "n": nid}, do)
        elif k == "param":
            def do():
                before = dict(rp.parameters)
                rp.set_parameter(op["k"], op["v"])
                it["params"] = dict(it["params"], **{op["k"]: op["v"]})
                if dict(rp.parameters) != before:
                    self.touch_jobs("param")
                return {"done": True}
            self.run_op({"op": k, "k": op["k"], "v": op["v"]}, do)
        elif k == "clear_params":
            def do():
                rp.clear_parameters()
                it["params"] = {}
                self.touch_jobs("clear_params")
                return {"done": True}
            self.run_op({"op": k}, do)
        elif k in ("retune", "set_circuit", "add_comp", "add_mapped"):
            if self.cs is None or (it["converted"] and self.conv_perm is None):
                return False
            cs = self.cs
            keep = {}
            empty = rp.circuit_size == 0
            if k == "retune":
                params = rp.get_circuit_parameters()
                if op["name"] not in params:
                    return False
                cand = dict(cs, values=dict(cs["values"], **{op["name"]: op["v"]}))
                lop = {"op": k}
                kind = "retune"

                def real():
                    par = self.user_P.get(op["name"]) if op["own"] else None
                    if par is None or par is not params[op["name"]]:
                        par = params[op["name"]]      # the handle the processor gives on its own parameter
                    else:
                        self.flags.add("retune-own-handle")
                    par.set_value(op["v"])
            elif k == "set_circuit":
                spec = op["circ"]
                circ = build_circuit(spec, keep=keep)
                cand = {"base": ("remote", spec), "extra": [], "values": dict(cs["values"]), "direct": True}
                lop = {"op": k, "checked": op["via"] == "rp", "c": self.reg_circuit(spec, None)}
                kind = "set-circuit" if op["via"] == "rp" else "exp-set-circuit"

                def real():
                    if op["via"] == "rp":
                        rp.set_circuit(circ)
                    else:
                        rp.experiment.set_circuit(circ)
            else:
                spec = op["circ"]
                w = spec["m"]
                mp = {"offset": op["k"]} if k == "add_comp" else op["map"]
                if "dict" in mp:
                    # a Python dict literal: a repeated key keeps its first position and its last value
                    dd = {}
                    for a2, b2 in mp["dict"]:
                        dd[a2] = b2
                    mp = {"dict": [[a2, b2] for a2, b2 in dd.items()]}
                circ = build_circuit(spec, keep=keep)
                # what the mapping means (documentation of `add`), from the user's own values
                mapping = user_mapping(mp, w, self.ports)
                size = rp.circuit_size
                if empty and mapping is not None and min(mapping) >= 0:
                    size = max(mapping) + 1           # a processor of 0 modes: the first component decides
                legal = mapping is not None and all(0 <= kk < size and kk not in rp.heralds for kk in mapping)
                if legal:
                    cand = dict(cs, extra=cs["extra"] + [(mapping, spec)], direct=True)
                    if empty:
                        cand["size"] = size
                else:
                    cand = None
                if "dict" in mp:
                    real_map = {}
                    for a2, b2 in mp["dict"]:
                        real_map[a2] = b2
                    lmap = {"dict": [[a2, b2] for a2, b2 in mp["dict"]]}
                elif "list" in mp:
                    real_map, lmap = list(mp["list"]), {"list": list(mp["list"])}
                else:
                    real_map, lmap = mp["offset"], {"offset": mp["offset"]}
                lop = {"op": "add_mapped", "map": lmap, "c": self.reg_circuit(spec, None)}
                kind = "add-comp" if k == "add_comp" else "add-mapped"

                def real():
                    rp.add(real_map, circ)
            if k == "set_circuit" and spec["m"] != rp.circuit_size:
                u = numeric_unitary(circ)           # refused by the size check: only the symbol's number matters
            elif cand is None:
                u = numeric_unitary(circ)           # the call must raise: only the symbol's number matters
            else:
                u = self.circuit_matrix(cand)
            self.circs.append(u)
            if "c" in lop:
                lop["c"]["sym"] = len(self.circs) - 1
            else:
                lop["circ"] = len(self.circs) - 1
            had_post = rp.post_select_fn is not None

            def do():
                real()
                if cand is None:
                    # direct oracle: a mapping that names a herald mode, a mode outside the circuit, the same mode
                    # twice, a port that does not exist … must be refused
                    self.fail("add-illegal-mapping-accepted",
                              f"add({real_map!r}, <{spec['m']}-mode circuit>) was accepted on a processor of "
                              f"{rp.circuit_size} modes with heralds {dict(rp.heralds)} and ports {self.ports}")
                    return {"done": True}
                self.cs = cand
                self.user_P.update(keep)
                self.circ_history.append((it["circ"], it.get("circ_direct", False)))
                it.update(circ=u, circ_direct=cand["direct"])
                self.pending.add(kind)
                if kind in ("set-circuit", "exp-set-circuit"):
                    self.flags.add("set-circuit")
                    if empty:
                        it["base_m"] = spec["m"]
                        self.flags.add("cleared-then-set-circuit")
                if kind in ("add-comp", "add-mapped"):
                    _, _, moved = route_matrix(mapping, u.shape[0])
                    self.flags.add("mapped-add" + ("-perm" if moved else ""))
                    if "dict" in mp:
                        self.flags.add("mapped-add:dict" + (":port" if any(isinstance(a2, str) for a2, _ in mp["dict"])
                                                            else ""))
                    elif "list" in mp:
                        self.flags.add("mapped-add:list")
                    if had_post:
                        self.flags.add("add-next-to-postselection")
                    if empty:
                        it["base_m"] = u.shape[0]
                        self.flags.add("cleared-then-add")
                    if any(mn_ < h_ < mx_ for h_ in rp.heralds for mn_, mx_ in [(min(mapping), max(mapping))]):
                        self.flags.add("mapped-add-spans-herald")
                if it["converted"]:
                    self.flags.add("circuit-change-on-converted")
                return {"done": True}
            self.run_op(lop, do)
            if k in ("add_comp", "add_mapped") and "err" in self.outs[-1]:
                err = self.outs[-1]["err"]
                self.flags.add("add-refused:" + err)
                if had_post and err == "AssertionError":
                    self.flags.add("add-refused-by-postselection")
                if cand is not None and err in ("UnavailableModeException", "InvalidMappingException"):
                    # direct oracle: a legal mapping on free modes must not be refused as unavailable / invalid
                    self.fail("add-legal-mapping-refused",
                              f"add({real_map!r}, <{spec['m']}-mode circuit>) raised {err} on a processor of "
                              f"{rp.circuit_size} modes with heralds {dict(rp.heralds)} and ports {self.ports}")
        elif k == "add_port":
            from perceval.components import Port
            from perceval.utils import Encoding
            if op["mode"] + op["size"] > rp.circuit_size or it["converted"]:
                return False

            def do():
                enc = Encoding.DUAL_RAIL if op["size"] == 2 else Encoding.RAW
                rp.add_port(op["mode"], Port(enc, op["name"]))
                self.ports[op["name"]] = (op["mode"], op["size"])
                self.flags.add("port-added")
                return {"done": True}
            self.run_op({"op": k, "mode": op["mode"], "name": op["name"], "size": op["size"]}, do)
        elif k == "set_params":
            def do():
                before = dict(rp.parameters)
                # what the user has set once the call is over: every entry before the first key that is no string
                wanted = dict(it["params"])
                for a2, b2 in d.items():
                    if a2 is None:
                        break
                    wanted[a2] = b2
                it["params"] = wanted
                try:
                    rp.set_parameters({(3 if a2 is None else a2): b2 for a2, b2 in op["d"]})
                finally:
                    if dict(rp.parameters) != before:
                        self.touch_jobs("param")
                self.flags.add("set-parameters")
                return {"done": True}
            # a Python dict: a repeated key keeps its first position and its last value
            d = {}
            for a2, b2 in op["d"]:
                d[a2] = b2
            self.epoch += 1
            self.run_op({"op": k, "d": [[a2, b2] for a2, b2 in d.items()]}, do)
            if "err" in self.outs[-1]:
                self.flags.add("set-parameters-refused")
        elif k == "thresholded":
            def do():
                before = dict(rp.parameters)
                import warnings
                with warnings.catch_warnings():
                    warnings.simplefilter("ignore")
                    rp.thresholded_output(op["v"])
                it["params"] = dict(it["params"], thresholded=op["v"])
                if dict(rp.parameters) != before:
                    self.touch_jobs("param")
                self.flags.add("thresholded-set")
                return {"done": True}
            self.epoch += 1
            self.run_op({"op": k, "v": op["v"]}, do)
            if "err" in self.outs[-1]:
                self.flags.add("thresholded-refused")
        elif k == "clear_all":
            self.circs.append(np.zeros((0, 0), dtype=complex))
            sym = len(self.circs) - 1

            def do():
                try:
                    if op["new_m"] is None:
                        rp.clear_input_and_circuit()
                    else:
                        rp.clear_input_and_circuit(op["new_m"])
                finally:
                    # the reset happens before the `m` setter may refuse the new size
                    n = rp.circuit_size
                    self.cs = {"base": ("empty", None), "extra": [], "values": {}, "direct": True, "size": n}
                    self.conv_perm = list(range(n))
                    self.ports = {}
                    self.user_P = {}
                    self.circ_history = []
                    u0 = np.eye(n, dtype=complex)
                    self.circs[sym] = u0
                    it.update(converted=False, heralds={}, local_heralds={}, input=None, input_fresh=False, post=None,
                              circ=u0, circ_direct=True, base_m=n)
                    self.pending.add("clear")
                    self.flags.add("cleared" + ("" if n else ":no-modes"))
                return {"done": True}
            self.run_op({"op": k, "new_m": op["new_m"], "sym": sym}, do)
            if "err" in self.outs[-1]:
                self.flags.add("clear-refused-size")
        elif k == "prepare":
            kw = {a: b for a, b in op["kw"]}

            def do():
                data = rp.prepare_job_payload(op["cmd"], circuitless=op["circuitless"], inputless=op["inputless"], **kw)
                pl = self.wire(data["payload"])
                self.check_payload(pl, op["cmd"], set(kw), op["circuitless"], op["inputless"], None)
                for kind in self.request_made():
                    if not (op["circuitless"] and kind in CIRCUIT_CHANGES) and not (op["inputless"] and kind == "input"):
                        self.flags.add(kind + "-between-payloads")
                return {"payload": pl}
            lop = {"op": k, "cmd": op["cmd"], "circuitless": op["circuitless"], "inputless": op["inputless"],
                   "kw": [[a, b] for a, b in kw.items()]}
            if not op["circuitless"]:
                self.want_matrix(lop)
            self.run_op(lop, do)
            if "err" in self.outs[-1]:
                self.check_rejection(op)
                if self.outs[-1]["err"] not in REFUSALS:
                    # not one of the documented refusals (filter unset, platform constraints, size assertions,
                    # duplicate keyword): the code under test crashed on a legal call
                    self.fail("payload-crash", f"prepare_job_payload({op['cmd']!r}) raised {self.outs[-1]['err']}: "
                                               f"{self.outs[-1].get('msg', '')}")
        elif k == "sampler":
            def do():
                self.sampler = pcvl.algorithm.Sampler(rp, max_shots_per_call=op["ms"])
                it["max_shots"] = op["ms"]
                it["sampler_its"] = []
                it["sampler_its_bad"] = []
                return {"done": True}
            self.run_op({"op": k, "ms": op["ms"]}, do)
        elif k == "add_iters":
            if self.sampler is None:
                return False
            lean_its = []
            real_its = []
            for spec in op["its"]:
                li, ri = [], {}
                for key, v in spec:
                    if key in ri:
                        continue
                    if "cparams" in v:
                        li.append([key, {"cparams": [list(x) for x in v["cparams"]]}])
                        ri[key] = {a: b for a, b in v["cparams"]}
                    elif "state" in v:
                        li.append([key, {"state": v["state"]}])
                        ri[key] = pcvl.BasicState(v["state"])
                    elif "int" in v:
                        li.append([key, {"int": v["int"]}])
                        ri[key] = v["int"]
                    elif "noise" in v:
                        nid = self.noise_id(v["noise"])
                        li.append([key, {"noise": nid}])
                        ri[key] = self.noises[nid]
                    else:
                        li.append([key, {"other": True}])
                        ri[key] = [1, 2] if key != "circuit_params" else "nope"
                lean_its.append(li)
                real_its.append(ri)
            n0 = self.sampler.n_iterations
            # direct oracle, evaluated now on the user's own objects: why an iteration must not be accepted
            verdicts = [self.iteration_illegal(ri) for ri in real_its]

            def do():
                try:
                    if len(real_its) == 1:
                        self.sampler.add_iteration(**real_its[0])
                    else:
                        self.sampler.add_iteration_list(real_its)
                finally:
                    n_acc = self.sampler.n_iterations - n0
                    it["sampler_its"] = it["sampler_its"] + real_its[:n_acc]
                    it["sampler_its_bad"] = it["sampler_its_bad"] + verdicts[:n_acc]
                return {"done": True}
            self.run_op({"op": k, "its": lean_its}, do)
            n_acc = self.sampler.n_iterations - n0
            if n_acc > 0:
                self.touch_jobs("add_iters")
            for ri, v in zip(real_its[:n_acc], verdicts[:n_acc]):
                if v is None and "input_state" in ri and "circuit_params" in ri:
                    self.flags.add("iter-accepted:input+cparams")
            if "err" in self.outs[-1] and 0 <= n_acc < len(real_its) and verdicts[n_acc] is not None:
                ri, (what, _) = real_its[n_acc], verdicts[n_acc]
                keys = list(ri)
                other = "circuit_params" if what.startswith("input") else "input_state"
                mine = "input_state" if what.startswith("input") else "circuit_params"
                shape = "alone" if len(keys) == 1 else ("with-" + ("cparams" if other == "circuit_params" else "input")
                                                        if other in keys else "with-other")
                self.flags.add(f"iter-refused:{what}")
                if n_acc >= 1 and list(real_its[0]) == keys:
                    self.flags.add("iter-refused:later-iteration-of-a-scan")     # same keys as the first, accepted, one
                self.flags.add(f"iter-refused:{mine}:{shape}")
                if other in keys:
                    self.flags.add(f"iter-refused:{mine}:{'before' if keys.index(mine) < keys.index(other) else 'after'}-"
                                   f"{'cparams' if other == 'circuit_params' else 'input'}")
        elif k == "clear_iters":
            if self.sampler is None:
                return False

            def do():
                if self.sampler.n_iterations:
                    self.touch_jobs("clear_iters")
                self.sampler.clear_iterations()
                it["sampler_its"] = []
                it["sampler_its_bad"] = []
                return {"done": True}
            self.run_op({"op": k}, do)
        elif k == "job":
            if self.sampler is None:
                return False

            lop = {"op": k, "method": op["method"]}
            self.want_matrix(lop)

            def do():
                job = getattr(self.sampler, op["method"])
                # [10] index of this op (the model's matrix of the circuit serialised now), [11] what the user did to
                # the processor's parameters / the sampler's iterations since, [12] both as they are right now
                self.jobs.append([job, False, op["method"], list(it["sampler_its"]), it["max_shots"], self.snapshot(),
                                  self.epoch, self.request_made(), list(it["sampler_its_bad"]), False,
                                  len(self.lean_ops), set(), copy.deepcopy(dict(rp.parameters)), self.sampler, [0]])
                return {"done": True}
            self.run_op(lop, do)
        elif k == "execute":
            # the model's job index counts successfully created jobs
            if op["job"] >= len(self.jobs) or self.jobs[op["job"]][1]:
                return False
            rec = self.jobs[op["job"]]
            kw = {a: b for a, b in op["kw"]}
            net = op.get("net", "ok")
            how = op.get("how", "async")
            h = self.net
            wire = lean_wire(net, len(h.log))

            def do():
                from perceval.serialization import deserialize, serialize
                n0, a0 = len(h.log), h.attempts
                p0 = len(h.posts)
                h.script = [net]      # what happens to the creation request; anything the client emits after it is answered
                err = None
                try:
                    if how == "sync":
                        rec[0].execute_sync(*op["args"], **kw)
                    elif how == "call":
                        rec[0](*op["args"], **kw)
                    else:
                        rec[0].execute_async(*op["args"], **kw)
                except Exception as e:
                    err = e
                finally:
                    h.script = []
                got = h.log[n0:]
                posted = h.posts[p0:]
                n_att = h.attempts - a0
                self.n_sent = len(h.log)
                # direct oracle: ONE execution creates at most one remote job, exactly one when it returns normally
                if len(got) > 1:
                    self.fail("create-job-count",
                              f"ONE execution ({how}, network: {net}) made the platform receive {len(got)} job-creation "
                              f"requests ({n_att} emitted): {len(got)} remote jobs exist for one execution"
                              + ("" if err is None else f"; the call raised {type(err).__name__}"))
                elif err is None and len(got) != 1:
                    self.fail("create-job-count", f"the execution ({how}) returned normally but the platform received "
                                                  f"{len(got)} job-creation requests")
                # direct oracle: ONE job object never makes the platform hold two remote jobs (a creation request whose
                # answer was lost or unusable is not emitted again by a later execution of the same job)
                rec[14][0] += len(got)
                if rec[14][0] > 1 and len(got) == 1:
                    self.fail("job-created-twice",
                              f"the platform took a creation request of this job in an earlier execution (the call had "
                              f"raised); executing the job again ({how}, network: {net}) made it take another one: "
                              f"{rec[14][0]} remote jobs exist for one job")
                # direct oracle: what is POSTed is the job's own request, byte for byte after canonical JSON
                req_data = getattr(rec[0], "_request_data", None)
                for r in posted:
                    if req_data is None:
                        self.flags.add("request-data-unavailable")
                        break
                    try:
                        # through JSON once first: integer dictionary keys (heralds) become strings before sorting
                        want = json.dumps(json.loads(json.dumps(serialize(req_data))), sort_keys=True)
                        have = json.dumps(json.loads(r["body"]), sort_keys=True)
                    except Exception:
                        continue                      # not JSON: reported by check_request
                    if want != have:
                        self.fail("post-body-not-the-request",
                                  f"the JSON document POSTed to {r['url']} is not the job's request: posted "
                                  f"{have[:300]} …, the job holds {want[:300]} …")
                    else:
                        self.flags.add("post-body-compared")
                sents = []
                for i, r in enumerate(posted):
                    try:
                        sent = deserialize(json.loads(r["body"]))
                        sent["payload"]
                    except Exception:
                        continue
                    sents.append(sent)
                    self.check_payload(sent["payload"], None, set(), False, False, rec)
                    if i == 0:
                        self.check_limit(sent["payload"], op["args"], kw)
                    if sent.get("job_name") != rec[2]:
                        self.oracle_failures.append(("job-name", f"job_name {sent.get('job_name')} != {rec[2]}"))
                if got:
                    self.flags.add("execute-sent")
                    for kind in rec[11]:
                        self.flags.add("sent-after:" + kind)
                    if rec[6] != self.epoch:
                        self.flags.add("sent-after-change")
                    for kind in rec[7]:
                        self.flags.add(kind + "-between-payloads")
                        self.flags.add(kind + "-between-jobs")
                out_sent = None if not sents else {"job_name": sents[0].get("job_name"), "payload": sents[0]["payload"]}
                if err is None:
                    rec[1] = True
                    if how != "async":
                        self.flags.add("execute-sync")
                    return {"sent": out_sent, "attempts": n_att, "id": rec[0].id}
                if rec[9] and type(err).__name__ == "AssertionError":
                    self.flags.add("execute-refused-after-failed-transport")
                out = {"err": type(err).__name__, "msg": str(err)[:160], "attempts": n_att}
                if posted:
                    # `create_job` emitted its request and raised: the exception reaches the user as it is
                    rec[9] = True
                    self.flags.add("net:" + net)
                    self.flags.add("execute-answer-lost" if got else "execute-not-delivered")
                    if any(err is x for x in h.raised):
                        self.flags.add("transport-exception-reaches-user")
                    out["posted"] = out_sent
                    if got:
                        out["received"] = out_sent
                return out
            self.run_op({"op": k, "job": op["job"], "args": op["args"], "kw": [[a, b] for a, b in kw.items()],
                         "wire": wire}, do)
        else:
            raise ValueError(k)
        return True

    def user_layout(self):
        """(modes of interest, photons brought by the heralds) of the processor the user built — from the scenario
        and the calls that succeeded, not from the remote processor under test"""
        it = self.intent
        if it["converted"]:
            return self.local.m, sum(it["local_heralds"].values())
        base_m = it["base_m"] if "base_m" in it else self.scen["start"]["m"]
        return base_m - len(it["heralds"]), sum(it["heralds"].values())

    def user_param_names(self):
        """names of the variable parameters of the user's circuit (from the scenario's specs)"""
        cs = self.cs
        if cs is None:
            return set()
        kind, spec = cs["base"]
        if kind == "empty":
            names = set()
        elif kind == "remote":
            names = set(sym_names(spec))
        else:
            names = set(sym_names(spec["circ"])) if spec.get("base") == "circuit" else set()
        for _, sp in cs["extra"]:
            names |= set(sym_names(sp))
        return names

    def iteration_illegal(self, ri):
        """Direct oracle for one iteration dictionary, at the time it is added: None, or (kind, why) when the platform
        constraints / the user's processor do not allow it — whatever the other keys of the iteration are."""
        from numbers import Number
        from perceval import BasicState
        pf = self.scen["pf"]
        s = ri.get("input_state")
        if isinstance(s, BasicState):
            m_user, n_her = self.user_layout()
            if s.m != m_user:
                return ("input-size", f"iterated input state {s} has {s.m} modes, the processor has {m_user} modes of "
                                      f"interest")
            n = s.n + n_her
            if pf["max_photons"] is not None and n > pf["max_photons"]:
                return ("input-photons", f"iterated input state {s} (+{n_her} herald photons) has {n} photons, the "
                                         f"platform accepts at most {pf['max_photons']}")
            if pf["min_photons"] is not None and n < pf["min_photons"]:
                return ("input-photons", f"iterated input state {s} (+{n_her} herald photons) has {n} photons, the "
                                         f"platform needs at least {pf['min_photons']}")
        cp = ri.get("circuit_params")
        if isinstance(cp, dict):
            names = self.user_param_names()
            for name, v in cp.items():
                if not isinstance(v, Number):
                    return ("cparams-value", f"iterated circuit parameter {name} = {v!r} is not a number")
                if name not in names:
                    return ("cparams-name", f"iterated circuit parameter {name} does not exist in the user's circuit "
                                            f"(parameters: {sorted(names)})")
        return None

    def touch_jobs(self, kind):
        """the user has just changed the processor's parameters / the sampler's iterations (`kind`): remembered for
        every job created before and not yet sent"""
        for rec in self.jobs:
            if not rec[1] and (kind in ("filter", "param", "clear_params") or rec[13] is self.sampler):
                rec[11].add(kind)

    def request_made(self):
        """A request (payload) has just been built from the processor: what the user changed since the previous one."""
        changed = sorted(self.pending) if self.seen_payload else []
        self.pending = set()
        self.seen_payload = True
        return changed

    # -- direct oracle ---------------------------------------------------------------------------
    def fail(self, sig, what):
        self.oracle_failures.append((sig, what))

    def find_relabelling(self, it, u_sent, sent_heralds):
        """perm (new mode -> original mode) mapping modes of interest in order and heralds onto heralds of equal
        expected value such that u_sent is the user's matrix relabelled; None if there is none."""
        u = it["circ"]
        n = u.shape[0]
        if u_sent.shape != u.shape:
            return None
        if not it["converted"]:
            return list(range(n)) if np.allclose(u_sent, u, atol=TOL, rtol=0) else None
        if it.get("circ_direct"):
            # the user has since replaced / extended the circuit of the converted processor: `u` is expressed in the
            # remote processor's own labelling; post-selections given on the local processor keep the conversion's
            return list(self.conv_perm) if np.allclose(u_sent, u, atol=TOL, rtol=0) else None
        lh = it["local_heralds"]
        moi_l = [k for k in range(n) if k not in lh]
        moi_s = [k for k in range(n) if k not in sent_heralds]
        if len(moi_l) != len(moi_s):
            return None
        hs = sorted(sent_heralds)
        hl = sorted(lh)
        for cand in itertools.permutations(hl):
            if any(lh[o] != sent_heralds[s] for s, o in zip(hs, cand)):
                continue
            perm = [0] * n
            for s, o in zip(moi_s, moi_l):
                perm[s] = o
            for s, o in zip(hs, cand):
                perm[s] = o
            if np.allclose(u_sent, relabel(u, perm), atol=TOL, rtol=0):
                return perm
        return None

    def snapshot(self):
        """What the user has configured right now (a job describes the processor as it is when the job is created)."""
        it = dict(self.intent)
        it["heralds"] = dict(it["heralds"])
        inp = self.rp.input_state
        it["rp_input"] = None if inp is None else [int(x) for x in inp]
        it["size"] = self.rp.circuit_size
        return it

    def check_payload(self, pl, cmd, kw_keys, circuitless, inputless, jobrec):
        """The property, evaluated on one deserialised payload against the user's objects."""
        from perceval import BasicState, NoiseModel, PostSelect
        from perceval.components import ACircuit
        it = self.snapshot() if jobrec is None else jobrec[5]
        rp = self.rp
        self.flags.add("payload")
        sent_heralds = {}
        if isinstance(pl.get("heralds"), dict) or ("heralds" in pl and "heralds" not in kw_keys):
            try:
                sent_heralds = {int(k): int(v) for k, v in pl["heralds"].items()}
            except Exception:
                return self.fail("payload-heralds", f"heralds field is {pl['heralds']!r}")
        if cmd is not None and pl.get("command") != cmd:
            self.fail("payload-command", f"command {pl.get('command')!r} != {cmd!r}")
        # heralds
        if it["converted"]:
            if sorted(sent_heralds.values()) != sorted(it["local_heralds"].values()):
                self.fail("payload-heralds", f"heralds sent {sent_heralds} vs local processor {it['local_heralds']}")
        else:
            if sent_heralds != it["heralds"]:
                self.fail("payload-heralds", f"heralds sent {sent_heralds} vs configured {it['heralds']}")
        # circuit
        perm = None
        if not circuitless:
            c = pl.get("circuit")
            if not isinstance(c, ACircuit):
                self.fail("payload-circuit", f"circuit field is {type(c).__name__}")
            else:
                u_sent = numeric_unitary(c)
                perm = self.find_relabelling(it, u_sent, sent_heralds)
                if perm is None:
                    stale = any(self.find_relabelling(dict(it, circ=old, circ_direct=d), u_sent, sent_heralds) is not None
                                for old, d in self.circ_history)
                    if stale:
                        self.fail("payload-circuit-stale",
                                  "the circuit sent is not the circuit of the user's processor at the time of the request "
                                  "but an earlier one (a parameter value was set / the circuit was replaced or extended "
                                  "since, on the same RemoteProcessor)")
                    else:
                        self.fail("payload-circuit", "the circuit sent is not the user's circuit (no relabelling of "
                                                     "herald modes makes the matrices equal)")
        # input
        want_input = it["input"] is not None and not inputless
        if want_input:
            s = pl.get("input_state")
            if not isinstance(s, BasicState):
                self.fail("payload-input", f"input configured ({it['input']}) but field is {s!r}")
            else:
                full = [int(x) for x in s]
                if full != it["rp_input"]:
                    self.fail("payload-input", f"input sent {full} != processor input {it['rp_input']}")
                if not it["input_fresh"]:
                    # an input state left behind by a later add_herald: transmitted as stored (checked just above);
                    # the photon window was enforced on n_user + n_heralds (model vs code: accepted / refused)
                    self.flags.add("stale-input-sent")
                    if any(i >= len(full) or full[i] != v for i, v in sent_heralds.items()):
                        self.flags.add("stale-input-mismatch")
                if it["input_fresh"]:
                    moi = [x for i, x in enumerate(full) if i not in sent_heralds]
                    if moi != it["input"]:
                        self.fail("payload-input", f"user input {it['input']} sent as {full} with heralds {sent_heralds}")
                    if any(i >= len(full) or full[i] != v for i, v in sent_heralds.items()):
                        self.fail("payload-input-heralds", f"input sent {full} lacks the herald photons {sent_heralds}")
        elif "input_state" in pl and "input_state" not in kw_keys:
            self.fail("payload-input", f"no input configured but input_state sent: {pl['input_state']!r}")
        # filter
        prm = pl.get("parameters")
        reshaped = False
        if jobrec is not None and jobrec[11] and isinstance(prm, dict) and prm != jobrec[12]:
            # the request of a job must be the one built when the job was created: here its `parameters` are what the
            # processor holds NOW, next to the circuit / input / noise / post-selection of creation time
            reshaped = True
            self.fail("job-request-not-as-created",
                      f"a job was created when the processor's parameters were {jobrec[12]!r}; the user then called "
                      f"{sorted(jobrec[11])} and executed the job: the request received carries parameters {prm!r} "
                      f"(send-time values) with the circuit and input state of creation time")
        if reshaped:
            pass
        elif "parameters" not in kw_keys or isinstance(prm, dict):
            if not isinstance(prm, dict) or "min_detected_photons" not in prm or \
                    prm["min_detected_photons"] != it["filter"] or it["filter"] is None:
                self.fail("payload-filter", f"filter configured {it['filter']!r}, parameters sent {prm!r}")
        # the parameters the user set (set_parameter / set_parameters / thresholded_output, minus clear_parameters)
        if not reshaped and isinstance(prm, dict) and "parameters" not in kw_keys:
            mine = {a: b for a, b in it["params"].items() if a != "min_detected_photons"}
            got_p = {a: b for a, b in prm.items() if a != "min_detected_photons"}
            if got_p != mine or any(type(got_p[a]) is not type(mine[a]) for a in mine):
                self.fail("payload-parameters", f"parameters set by the user {mine!r}, sent {got_p!r}")
            elif mine:
                self.flags.add("payload-parameters-compared")
        # noise
        nz = pl.get("noise")
        if it["noise"] is not None:
            if not isinstance(nz, NoiseModel) or not (nz == it["noise"]):
                self.fail("payload-noise", f"noise configured {it['noise']!r}, sent {nz!r}")
        elif "noise" in pl and "noise" not in kw_keys:
            self.fail("payload-noise", f"no noise configured, sent {nz!r}")
        # post-selection
        ps = pl.get("postselect")
        if it["post"] is not None:
            obj, space = it["post"]
            if not isinstance(ps, PostSelect):
                self.fail("payload-postselect", f"post-selection configured {obj}, sent {ps!r}")
            else:
                n = it["size"]
                p2 = perm if (space == "local" and perm is not None) else []
                if space == "local" and perm is None and it["local_heralds"]:
                    pass  # circuit absent or already reported: relabelling unknown
                elif not post_equiv(ps, obj, p2, n):
                    self.fail("payload-postselect", f"post-selection configured {obj} sent as {ps} (relabelling {p2})")
        elif "postselect" in pl and "postselect" not in kw_keys:
            self.fail("payload-postselect", f"no post-selection configured, sent {ps!r}")
        # limits
        if jobrec is not None:
            if pl.get("max_shots") != jobrec[4]:
                self.fail("payload-max-shots", f"max_shots {pl.get('max_shots')!r} != sampler's {jobrec[4]!r}")
            ms = pl.get("max_samples")
            if isinstance(ms, int) and isinstance(pl.get("max_shots"), int) and ms > pl["max_shots"]:
                self.fail("clamp", f"max_samples {ms} > max_shots {pl['max_shots']} in a sent payload")
            its = jobrec[3]
            got = pl.get("iterator")
            touched = bool(jobrec[11] & {"add_iters", "clear_iters"})
            if its:
                if not isinstance(got, list) or len(got) != len(its) or any(not self.iter_equal(a, b) for a, b in zip(got, its)):
                    if touched:
                        self.fail("job-request-not-as-created",
                                  f"a job was created with {len(its)} iteration(s); the user then called "
                                  f"{sorted(jobrec[11])} and executed the job: the request received carries "
                                  f"{len(got) if isinstance(got, list) else got!r} iteration(s)")
                    else:
                        self.fail("payload-iterator", f"iterator sent {got!r} != configured {its!r}")
                else:
                    self.flags.add("iterator-sent")
                    if any("input_state" in a and "circuit_params" in a for a in its):
                        self.flags.add("iterator-sent:input+cparams")
                # constraints / validity of what is iterated, as judged when each iteration was added
                for a, v in zip(its, jobrec[8]):
                    if v is not None:
                        kind, why = v
                        self.fail("constraints-iterated-input" if kind.startswith("input") else "iterator-invalid-sent",
                                  f"a job was sent to the platform (constraints {pf_text(self.scen['pf'])}) with an "
                                  f"iteration {sorted(a)} that must have been refused: {why}")
            elif "iterator" in pl:
                self.fail("payload-iterator", f"no iteration configured, sent {got!r}")
        # constraints
        pf = self.scen["pf"]
        n = it["size"]
        if not circuitless:
            if (pf["max_modes"] is not None and n > pf["max_modes"]) or (pf["min_modes"] is not None and n < pf["min_modes"]):
                self.fail("constraints-modes", f"payload produced for {n} modes, constraints {pf}")
        if want_input and isinstance(pl.get("input_state"), BasicState):
            nph = pl["input_state"].n
            if it["input_fresh"] or it["converted"]:
                if (pf["max_photons"] is not None and nph > pf["max_photons"]) or \
                        (pf["min_photons"] is not None and nph < pf["min_photons"]):
                    self.fail("constraints-photons", f"payload produced for {nph} photons, constraints {pf}")

    def check_limit(self, pl, args, kw):
        """The sample limit the user asked for (first positional int, else max_samples=) is what is sent: as the
        command's max_samples (lowered to max_shots at most) or as the result conversion's max_samples."""
        asked = args[0] if args else kw.get("max_samples")
        if not (isinstance(asked, int) and not isinstance(asked, bool)):
            return
        shots = pl.get("max_shots")
        ctx = pl.get("job_context") or {}
        ctx_ms = (ctx.get("mapping_delta_parameters") or {}).get("max_samples") if isinstance(ctx, dict) else None
        ok = ctx_ms == asked
        if isinstance(shots, int) and pl.get("max_samples") == min(asked, shots):
            ok = True
        if not ok:
            self.fail("limit-not-sent", f"execute_async asked for {asked} samples; payload has max_samples="
                                        f"{pl.get('max_samples')!r}, max_shots={shots!r}, job_context={ctx!r}")

    def iter_equal(self, got, want):
        from perceval import BasicState, NoiseModel
        if not isinstance(got, dict) or set(got) != set(want):
            return False
        for k, v in want.items():
            g = got[k]
            if isinstance(v, BasicState):
                if not isinstance(g, BasicState) or list(g) != list(v):
                    return False
            elif isinstance(v, NoiseModel):
                if not isinstance(g, NoiseModel) or not (g == v):
                    return False
            elif g != v:
                return False
        return True

    def check_rejection(self, op):
        """`prepare_job_payload` raised: count which guard (for the branch counters only)."""
        err = self.outs[-1]["err"]
        if err == "ValueError" and self.intent["filter"] is None:
            self.flags.add("filter-unset-rejected")
        elif err == "RuntimeError":
            self.flags.add("prepare-rejected-constraints")

    # -- whole scenario --------------------------------------------------------------------------
    def run(self):
        self.start()
        dropped = 0
        if self.rp is not None:
            for op in self.scen["ops"]:
                if not self.apply(op):
                    dropped += 1
        self.dropped = dropped
        return self

    def lean_request(self):
        pf = self.scen["pf"]
        return {"pf": {k: pf.get(k) for k in ("max_modes", "min_modes", "max_photons", "min_photons")} | {
            "commands": pf["commands"]}, "aliased": False, "handler": self.lean_handler(), "thr_only": bool(pf.get("threshold_only")),
            "ops": self.lean_ops}


# ------------------------------------------------------------------------------------------------
# model vs implementation
# ------------------------------------------------------------------------------------------------
def match_value(ses: Session, real, mv, model_iter=None):
    from perceval import BasicState, NoiseModel, PostSelect
    from perceval.components import ACircuit
    if "pv" in mv:
        return pv_ok(real) and real == mv["pv"] and type(real) is type(mv["pv"])
    if "circ" in mv:
        c = mv["circ"]
        if not isinstance(real, ACircuit) or real.m != c["size"]:
            return False
        want = relabel(ses.circs[c["id"]], c["perm"])
        return want.shape == (real.m, real.m) and np.allclose(numeric_unitary(real), want, atol=TOL, rtol=0)
    if "state" in mv:
        return isinstance(real, BasicState) and [int(x) for x in real] == mv["state"]
    if "heralds" in mv:
        try:
            return isinstance(real, dict) and sorted([int(k), int(v)] for k, v in real.items()) == sorted(mv["heralds"])
        except Exception:
            return False
    if "post" in mv:
        p = mv["post"]
        return isinstance(real, PostSelect) and post_equiv(real, ses.posts[p["id"]], p["perm"],
                                                           getattr(ses, "cur_size", None) or ses.rp.circuit_size)
    if "noise" in mv:
        return isinstance(real, NoiseModel) and real == ses.noises[mv["noise"]]
    if "params" in mv:
        return isinstance(real, dict) and real == {k: v for k, v in mv["params"]}
    if "ctx" in mv:
        c = mv["ctx"]
        if not isinstance(real, dict):
            return False
        want = {}
        if c["result_mapping"] is not None:
            want["result_mapping"] = ["perceval.utils", c["result_mapping"]]
        if c["mapping"] is not None:
            want["mapping_delta_parameters"] = {k: v for k, v in c["mapping"]}
        return real == want
    if "iter" in mv:
        if not isinstance(real, list) or len(real) != mv["iter"] or model_iter is None or len(model_iter) != len(real):
            return False
        for got, want in zip(real, model_iter):
            if not isinstance(got, dict) or len(want) != len(got):
                return False
            for key, iv in want:
                if key not in got:
                    return False
                g = got[key]
                if "cparams" in iv:
                    ok = isinstance(g, dict) and g == {k: v for k, v in iv["cparams"]}
                elif "state" in iv:
                    ok = isinstance(g, BasicState) and [int(x) for x in g] == iv["state"]
                elif "int" in iv:
                    ok = g == iv["int"] and isinstance(g, int)
                elif "noise" in iv:
                    ok = isinstance(g, NoiseModel) and g == ses.noises[iv["noise"]]
                else:
                    ok = False
                if not ok:
                    return False
        return True
    return False


def diff_payload(ses, real_pl, model_pairs, model_iter=None):
    """Keys on which the real payload and the model's record differ."""
    bad = []
    model = {k: v for k, v in model_pairs}
    # the size of the processor when this payload was made (the session's processor may have been cleared since)
    c = real_pl.get("circuit")
    ses.cur_size = c.m if hasattr(c, "m") and not isinstance(c, (str, int)) else next(
        (v["circ"]["size"] for v in model.values() if isinstance(v, dict) and "circ" in v),
        getattr(ses, "op_size", None))
    for k in sorted(set(real_pl) | set(model)):
        if k not in real_pl or k not in model:
            bad.append(k)
        elif not match_value(ses, real_pl[k], model[k], model_iter):
            bad.append(k)
    return bad


def diff_state(real, model):
    if real is None or model is None:
        return [] if real is None and model is None else ["processor"]
    bad = []
    if not model.get("wf", False):
        bad.append("wf")
    for k in ("m", "size", "input", "filter"):
        if real[k] != model[k]:
            bad.append(k)
    if real["heralds"] != sorted(model["heralds"]):
        bad.append("heralds")
    if real["params"] != {k: v for k, v in model["params"]}:
        bad.append("params")
    if real["noise"] != model["noise"]:
        # two equal NoiseModel objects may carry different ids
        bad.append("noise") if (real["noise"] is None) != (model["noise"] is None) else None
    if real["has_post"] != (model["post"] is not None):
        bad.append("post")
    return bad


def matrix_differs(ses: Session, rep, at, pl, where):
    """The circuit of a deserialised payload against the EXACT matrix of the model's component list after op `at`
    (the op that serialised the circuit: the payload generation, or the creation of the job).  -> None or text"""
    from perceval.components import ACircuit
    mats = rep.get("mats") or []
    m = mats[at] if at < len(mats) else None
    c = pl.get("circuit")
    if m is None or not isinstance(c, ACircuit):
        return f"{where}: no matrix to compare (model {'none' if m is None else 'ok'}, payload {type(c).__name__})"
    want = np.array(core.unmat(m), dtype=complex)
    got = numeric_unitary(c)
    if want.shape != got.shape:
        return f"{where}: the circuit sent has {got.shape[0]} modes, the model's {want.shape[0]}"
    d = float(np.max(np.abs(want - got))) if want.size else 0.0
    if d > TOL:
        return f"{where}: the matrix of the circuit sent differs from the model's exact matrix by {d:.3g}"
    ses.flags.add("matrix-compared")
    for c in ses.mat_ctx.get(at, ()):
        ses.flags.add("matrix:" + c)
    return None


def http_differs(ses: Session, i, model):
    """the platform-details / job-creation requests op `i` made the client emit against the model's (`Model/C16Rpc`):
    number, verb, URL, Authorization header, time-out, proxies, platform named by a posted document -> None or
    (field, text)"""
    real = ses.http[i] if i < len(ses.http) else []
    if model is None:
        return ("missing", "the model's reply has no HTTP requests for this op")
    if ses.lean_ops[i]["op"] not in ("new_remote", "convert", "execute") and not real and not model:
        return None
    if len(real) != len(model):
        return ("count", f"the client emitted {[(r['verb'], r['url']) for r in real]}, model "
                         f"{[(m['verb'], m['url']) for m in model]}")
    pid = ses.lean_handler()["proxies"]
    for r, m in zip(real, model):
        if r["verb"] != m["verb"]:
            return ("verb", f"{r['verb']} {r['url']} emitted, model {m['verb']}")
        if r["url"] != m["url"]:
            return ("url", f"{r['verb']} {r['url']} emitted, model {m['url']}")
        if r["headers"].get("Authorization") != m["auth"]:
            return ("auth", f"Authorization {r['headers'].get('Authorization')!r}, model {m['auth']!r}")
        if r["timeout"] != m["timeout"]:
            return ("timeout", f"time-out {r['timeout']!r}, model {m['timeout']!r}")
        if m["proxies"] != pid:
            return ("proxies", f"model proxies {m['proxies']!r} for handler proxies {pid!r}")
        if m["verb"] == "POST":
            try:
                name = json.loads(r["body"]).get("platform_name")
            except Exception:
                name = None
            if name != m["platform"]:
                return ("platform", f"posted platform_name {name!r}, model {m['platform']!r}")
            ses.flags.add("http:post")
        else:
            ses.flags.add("http:get")
            if r["url"] != r["url"].strip() or " " in r["url"]:
                return ("url", f"platform name not quoted in {r['url']!r}")
            if any(ord(ch) > 127 or ch in " /" for ch in ses.hs["name"]):
                ses.flags.add("http:get-quoted-name")
        if r["url"].count("//") > 1:
            ses.flags.add("http:double-slash")
    return None


def compare(ses: Session, rep):
    """-> list of (kind, signature, what). Direct-oracle failures come first."""
    res = [("violation", sig, what) for sig, what in ses.oracle_failures]
    if "err" in rep:
        res.append(("broken", "lean-driver-rejects", f"driver refused the request: {rep['err']}"))
        return res
    outs, states = rep["outs"], rep["states"]

    def matrix_check(at, pl, where, kind):
        why = matrix_differs(ses, rep, at, pl, where)
        if why is not None:
            if not any(k == "violation" for k, *_ in res):
                res.append(("broken", "model-vs-code:circuit-matrix", why))
            return False
        ses.flags.add("matrix:" + kind)
        return True
    for i, (lop, ro, rs) in enumerate(zip(ses.lean_ops, ses.outs, ses.states)):
        mo, ms = outs[i], states[i]
        where = f"op {i} {lop['op']}"
        ses.op_size = ses.jobs[lop["job"]][5]["size"] if (lop["op"] == "execute" and lop["job"] < len(ses.jobs)) \
            else (ses.sizes[i] if i < len(ses.sizes) else None)
        if lop["op"] == "execute" and "attempts" in ro:
            # the model emits ONE job-creation POST per execution that passes the client-side checks, never another
            want = 1 if ("sent" in mo or "posted" in mo) else 0
            if ro["attempts"] != want:
                if not any(k == "violation" for k, *_ in res):
                    res.append(("broken", "model-vs-code:execute:attempts",
                                f"{where}: implementation emitted {ro['attempts']} job-creation requests for one "
                                f"execution (transport: {lop['wire']}), model {want}"))
                return res
        # the HTTP requests the call emitted: platform-details GETs and job-creation POSTs, field by field
        why = http_differs(ses, i, (rep.get("http") or [])[i] if i < len(rep.get("http") or []) else None)
        if why is not None:
            if not any(k == "violation" for k, *_ in res):
                res.append(("broken", "model-vs-code:http:" + why[0], f"{where}: {why[1]}"))
            return res
        if "err" in ro or "err" in mo:
            if ro.get("err") != mo.get("err"):
                known = any(k == "violation" for k, *_ in res)
                if not known:
                    res.append(("broken", f"model-vs-code:{lop['op']}:outcome",
                                f"{where}: implementation {ro.get('err', 'ok')} ({ro.get('msg', '')}) vs model "
                                f"{mo.get('err', 'ok')}"))
                return res
            if mo.get("msg") is not None and ro.get("msg") != mo["msg"][:160]:
                if not any(k == "violation" for k, *_ in res):
                    res.append(("broken", "model-vs-code:execute:message",
                                f"{where}: {ro['err']} raised with message {ro.get('msg')!r}, model {mo['msg']!r}"))
                return res
            if ("posted" in ro) != ("posted" in mo) or ("received" in ro) != bool(mo.get("accepted")):
                if not any(k == "violation" for k, *_ in res):
                    res.append(("broken", "model-vs-code:execute:received",
                                f"{where}: a request was emitted / taken by the platform: implementation "
                                f"{'posted' in ro} / {'received' in ro}, model {'posted' in mo} / "
                                f"{bool(mo.get('accepted'))}"))
                return res
            if "posted" in ro:
                if ro["posted"] is None:
                    if not any(k == "violation" for k, *_ in res):
                        res.append(("broken", "model-vs-code:execute:unreadable", f"{where}: the request emitted "
                                                                                  f"cannot be deserialised"))
                    return res
                ses.flags.add("posted-compared" + ("" if "received" in ro else ":not-taken"))
                r = mo["posted"]
                if not matrix_check(ses.jobs[lop["job"]][10], ro["posted"]["payload"], where, "job"):
                    return res
                bad = diff_payload(ses, ro["posted"]["payload"], r["payload"], r["iterator"])
                if ro["posted"]["job_name"] != r["job_name"]:
                    bad.append("job_name")
                if bad:
                    if not any(k == "violation" for k, *_ in res):
                        res.append(("broken", "model-vs-code:execute:" + ",".join(bad),
                                    f"{where}: received fields differ: {bad}"))
                    return res
        elif "payload" in ro:
            if not lop["circuitless"] and not matrix_check(i, ro["payload"], where, "prepare"):
                return res
            bad = diff_payload(ses, ro["payload"], mo.get("payload", []))
            if bad:
                if not any(k == "violation" for k, *_ in res):   # else: the direct oracle already explains it
                    res.append(("broken", "model-vs-code:prepare:" + ",".join(bad),
                                f"{where}: payload fields differ: {bad}"))
                return res
        elif "sent" in ro:
            s = mo.get("sent")
            if s is None or ro["sent"] is None:
                if not (ro["sent"] is None and any(k == "violation" for k, *_ in res)):
                    res.append(("broken", "model-vs-code:execute:outcome", f"{where}: model sent "
                                f"{'nothing' if s is None else 'a request'}, implementation "
                                f"{'nothing' if ro['sent'] is None else 'a request'}"))
                return res
            if not matrix_check(ses.jobs[lop["job"]][10], ro["sent"]["payload"], where, "job"):
                return res
            bad = diff_payload(ses, ro["sent"]["payload"], s["payload"], s["iterator"])
            if ro["sent"]["job_name"] != s["job_name"]:
                bad.append("job_name")
            if ro.get("id") != mo.get("id"):
                bad.append("job_id")
            if bad:
                if not any(k == "violation" for k, *_ in res):
                    res.append(("broken", "model-vs-code:execute:" + ",".join(bad),
                                f"{where}: sent fields differ: {bad}"))
                return res
        bad = diff_state(rs, ms)
        if bad:
            if not any(k == "violation" for k, *_ in res):
                res.append(("broken", "model-vs-code:state:" + ",".join(bad),
                            f"{where}: processor state differs on {bad}: implementation {rs} vs model {ms}"))
            return res
    if rep["log"] != len(ses.net.log):
        res.append(("broken", "model-vs-code:log", f"platform log {len(ses.net.log)} vs model {rep['log']}"))
    if rep.get("posts") != len(ses.net.posts):
        res.append(("broken", "model-vs-code:posts", f"job-creation requests emitted {len(ses.net.posts)} vs model "
                                                     f"{rep.get('posts')}"))
    return res


# ------------------------------------------------------------------------------------------------
def judge(chk, scen):
    """-> (session, model reply, failures)"""
    ses = Session(scen).run()
    rep = chk.lean.ask(ses.lean_request())
    return ses, rep, compare(ses, rep)


def sig_of(scen, ses):
    st = scen["start"]
    pf = scen["pf"]
    return (st["kind"], st.get("base"), st.get("m"), tuple(tuple(h) for h in (ses.states[0] or {}).get("heralds", [])),
            tuple(pf.get(k) for k in ("max_modes", "min_modes", "max_photons", "min_photons")), tuple(pf["commands"]),
            tuple((o["op"], o.get("method"), len(o.get("args", [])), o.get("n"), tuple(o.get("s", [])), json.dumps(o.get("wire")))
                  for o in ses.lean_ops))


def account(chk, scen, ses, rep, corpus=False):
    st = scen["start"]
    chk.count("start", st["kind"] + (":" + st["base"] if "base" in st else ""))
    chk.count("n_ops", len(ses.lean_ops))
    s0 = ses.states[0]
    if s0 is not None:
        chk.count("heralds", len(s0["heralds"]))
        chk.count("circuit_size", s0["size"])
    chk.count("commands", ",".join(scen["pf"]["commands"]) or "(none)")
    for f in ses.flags:
        # stored cases do not count for the generator's coverage obligations (`required_branches`)
        chk.branch("corpus/" + f if corpus else f)
    if ses.dropped:
        chk.branch("ops-dropped", ses.dropped)
    n_payload = 0
    if "outs" in rep:
        for lop, ro, mo in zip(ses.lean_ops, ses.outs, rep["outs"]):
            chk.count("op", lop["op"])
            if "err" in ro:
                chk.count("error", lop["op"] + ":" + ro["err"])
                if lop["op"] == "execute":
                    if ro["err"] in ("RuntimeError", "IndexError"):
                        chk.branch("handle-params-rejected")
                    elif ro["err"] == "TypeError" and "posted" not in ro:
                        chk.branch("execute-typeerror")
                    if "posted" in ro:
                        n_payload += 1
                if lop["op"] == "job" and ro["err"] == "RuntimeError":
                    chk.branch("primitive-none-or-constraints")
                if lop["op"] == "add_iters":
                    chk.branch("iteration-rejected")
            elif "payload" in ro:
                n_payload += 1
                if lop["kw"] and any(k in FIELD_KEYS for k, _ in lop["kw"]):
                    chk.branch("kw-collision")
            elif "sent" in ro and ro["sent"] is not None:
                n_payload += 1
                pl = ro["sent"]["payload"]
                jc = pl.get("job_context")
                if isinstance(jc, dict) and "result_mapping" in jc:
                    chk.branch("primitive-converted")
                if isinstance(jc, dict) and "mapping_delta_parameters" in jc:
                    chk.branch("mapping-delta")
                arg = (lop["args"] or [None])[0]
                kwm = dict(lop["kw"]).get("max_samples")
                asked = arg if isinstance(arg, int) else kwm
                if isinstance(asked, int) and isinstance(pl.get("max_samples"), int) and pl["max_samples"] < asked:
                    chk.branch("clamp-lowered")
                    if asked == pl.get("max_shots", 0) + 1:
                        chk.branch("clamp-lowered-by-one")
                if pl.get("max_samples") == pl.get("max_shots") and "max_samples" in pl and asked is None:
                    chk.branch("clamp-lowered")
    nontrivial = n_payload > 0 and s0 is not None
    chk.case(sig_of(scen, ses), nontrivial=nontrivial,
             sample={"start": st["kind"] + ":" + str(st.get("base", "")), "heralds": (s0 or {}).get("heralds"),
                     "ops": [o["op"] for o in ses.lean_ops][:14], "payloads": n_payload})


def shrink(chk, scen, sig):
    def fails(ops):
        s2 = dict(scen, ops=ops)
        try:
            _, _, fl = judge(chk, s2)
        except Discard:
            return False
        return any(f[1] == sig for f in fl)

    cur = copy.deepcopy(scen)
    if not cur["ops"]:
        pass
    elif fails([]):
        cur["ops"] = []
    else:
        cur["ops"] = gens.shrink_list(cur["ops"], fails, max_rounds=60)
    # local steps
    st = cur["start"]
    if st["kind"] == "local" and st.get("steps"):
        def fails_steps(steps):
            s2 = copy.deepcopy(cur)
            s2["start"]["steps"] = steps
            try:
                _, _, fl = judge(chk, s2)
            except Discard:
                return False
            return any(f[1] == sig for f in fl)
        try:
            st["steps"] = gens.shrink_list(st["steps"], fails_steps, max_rounds=40) if not fails_steps([]) else []
        except Exception:
            pass
    return cur


def handle(chk, scen, rep=None, ses=None, do_shrink=True, corpus=False):
    try:
        if ses is None:
            ses, rep, fl = judge(chk, scen)
        else:
            fl = compare(ses, rep)
    except Discard:
        chk.branch("discarded")
        return
    account(chk, scen, ses, rep if "outs" in rep else {"outs": [{}] * len(ses.lean_ops)}, corpus)
    seen = set()
    for kind, sig, what in fl:
        if (kind, sig) in seen:
            continue
        seen.add((kind, sig))
        small = shrink(chk, scen, sig) if do_shrink and sum(1 for f in chk.failures if f[1] == sig) == 0 else scen
        chk.fail(kind, sig, what, {"scenario": small})


# ------------------------------------------------------------------------------------------------
# part "ps": the post-selection as a PREDICATE (`Model/C16PS.lean`) — a local processor with heralds anywhere and a
# post-selection tree (conditions on 1..3 modes with every comparison, negation, n-ary & | ^, nested) is converted by
# `from_local_processor`; the post-selection the remote processor holds AND the one its payload carries (through
# JSON and `deserialize`) are evaluated on every output state (<= 2 photons per mode) after relabelling and compared
# with the user's own object on the local state (direct oracle) and with the model (`convertPost`, `Sym.denote`)
# ------------------------------------------------------------------------------------------------
PS_CMPS = ["==", "!=", "<", "<=", ">", ">="]
PS_REQUIRED = ["ps:converted", "ps:heralds-inside", "ps:identity-relabelling", "ps:negation", "ps:xor", "ps:or",
               "ps:nested", "ps:cond-on-herald-mode", "ps:empty", "ps:payload-compared", "ps:accepts-some",
               "ps:rejects-some", "ps:mode-order-changed", "ps:malformed-refused"]


def ps_gen_expr(rng, modes, depth):
    if depth == 0 or rng.random() < 0.4:
        k = min(rng.choice([1, 1, 2, 2, 3]), len(modes))
        return ["c", sorted(rng.sample(modes, k)), rng.choice(PS_CMPS), rng.choice([0, 1, 1, 2, 3])]
    if rng.random() < 0.25:
        return ["not", ps_gen_expr(rng, modes, depth - 1)]
    op = rng.choice(["and", "and", "or", "xor"])
    return [op, [ps_gen_expr(rng, modes, depth - 1) for _ in range(rng.randint(2, 3))]]


def ps_text(e):
    if e is None:
        return ""
    if e[0] == "c":
        return "[" + ",".join(map(str, e[1])) + "]" + e[2] + str(e[3])
    if e[0] == "not":
        return "(!" + ps_text(e[1]) + ")"
    return "(" + {"and": " & ", "or": " | ", "xor": " ^ "}[e[0]].join(ps_text(x) for x in e[1]) + ")"


def ps_walk(e):
    if e is None:
        return
    yield e
    if e[0] == "not":
        yield from ps_walk(e[1])
    elif e[0] != "c":
        for x in e[1]:
            yield from ps_walk(x)


def ps_gen_case(rng, max_size):
    size = rng.randint(2, max_size)
    nh = rng.choice([0, 1, 1, 2, 2, 3])
    nh = min(nh, size - 1)
    hm = rng.sample(range(size), nh)
    if rng.random() < 0.2:
        hm = sorted(hm)
    heralds = [[k, rng.randint(0, 1)] for k in hm]
    # conditions read existing modes only: on a mode beyond the state the native PostSelect answers neither "0
    # photons" nor an error (observed: `[6]==0` is False on |0,0,0,0,0>) — outside the modelled domain
    modes = list(range(size))
    expr = None if rng.random() < 0.08 else ps_gen_expr(rng, modes, rng.choice([0, 1, 1, 2, 2, 3]))
    bs = [[rng.randrange(size - 1), rng.choice([0.3, 0.7, 1.1, 1.9])] for _ in range(rng.randint(1, 3))]
    case = {"size": size, "heralds": heralds, "expr": expr, "bs": bs}
    if rng.random() < 0.1 and heralds:
        case["heralds"] = heralds + [[heralds[0][0], 1]]      # malformed: a herald twice on the same mode
    return case


def ps_states(size):
    sts = test_states(size)
    if len(sts) > 250:
        r = np.random.RandomState(11)
        sts = [sts[i] for i in sorted(r.choice(len(sts), 250, replace=False))]
    return sts


def ps_handler():
    from perceval.runtime.rpc_handler import RPCHandler
    quiet()
    install_transport()
    _NET[0] = FakeNet({"commands": list(METHODS)})
    return RPCHandler("sim:verif", "https://verif.invalid", "none", None)


def ps_real(case):
    """-> dict: what the real code does with the case (no Lean involved)"""
    import perceval as pcvl
    from perceval import BasicState, PostSelect
    from perceval.serialization import deserialize
    size = case["size"]
    text = ps_text(case["expr"])
    out = {"flags": set(), "oracle": []}
    try:
        p = pcvl.Processor("SLOS", size)
        for k, th in case["bs"]:
            p.add(k, pcvl.BS(theta=th))
        for k, v in case["heralds"]:
            p.add_herald(k, v)
        user = PostSelect(text)
        p.set_postselection(PostSelect(text))
        p.min_detected_photons_filter(0)
    except Exception as e:
        out["build_err"] = type(e).__name__
        return out
    hm = [k for k, _ in case["heralds"]]
    sigma = [k for k in range(size) if k not in hm] + hm          # remote mode j carries local mode sigma[j]
    out["sigma"] = sigma
    try:
        rp = pcvl.RemoteProcessor.from_local_processor(p, rpc_handler=ps_handler())
        held = rp.post_select_fn
        pl = rp.prepare_job_payload("probs")["payload"]
        sent = deserialize(json.loads(json.dumps(pl["postselect"]))) if "postselect" in pl else None
        u_rp = numeric_unitary(rp.linear_circuit())
        heralds_rp = {int(k): int(v) for k, v in rp.heralds.items()}
    except Exception as e:
        out["convert_err"] = f"{type(e).__name__}: {e}"
        return out
    u_loc = numeric_unitary(p.experiment.unitary_circuit())
    out["relabelling_confirmed"] = bool(np.allclose(u_rp, relabel(u_loc, sigma), atol=TOL)) and \
        heralds_rp == {p.m + i: v for i, (_, v) in enumerate(case["heralds"])}
    out["user_text"] = str(user)
    out["held_text"] = str(held)
    out["sent_text"] = None if sent is None else str(sent)
    out["conds"] = post_conds(held)
    sts = ps_states(size)
    out["states"] = sts
    loc, rem_held, rem_sent, tst = [], [], [], []
    for s_ in sts:
        t = [s_[o] for o in sigma]
        tst.append(t)
        a = bool(user(BasicState(s_)))
        b = bool(held(BasicState(t)))
        c = None if not isinstance(sent, PostSelect) else bool(sent(BasicState(t)))
        loc.append(a)
        rem_held.append(b)
        rem_sent.append(c)
        if a != b and not any(o[0] == "postselect-not-preserved" for o in out["oracle"]):
            out["oracle"].append(("postselect-not-preserved",
                                  f"local processor (heralds {case['heralds']}) post-selection {user} "
                                  f"{'accepts' if a else 'rejects'} the output {s_}; the converted processor's "
                                  f"post-selection {held} says the opposite on the corresponding state {t}"))
        if c is not None and a != c and not any(o[0] == "postselect-sent-differs" for o in out["oracle"]):
            out["oracle"].append(("postselect-sent-differs",
                                  f"post-selection {user} of the local processor (heralds {case['heralds']}) is "
                                  f"transmitted as {sent}: on the output {s_} / {t} they disagree"))
    if sent is None or not isinstance(sent, PostSelect):
        out["oracle"].append(("postselect-not-sent", f"post-selection {user} configured, payload carries {sent!r}"))
    out.update(local=loc, held=rem_held, sent=rem_sent, tstates=tst)
    return out


def ps_request(case):
    return {"part": "ps", "expr": case["expr"], "m": case["size"] - len(case["heralds"]), "size": case["size"],
            "heralds": case["heralds"], "states": ps_states(case["size"])}


def ps_judge(chk, case):
    """-> (real, failures [(kind, sig, what)])"""
    real = ps_real(case)
    rep = chk.lean.ask(ps_request(case))
    fl = []
    if "build_err" in real:
        if "err" not in rep:
            fl.append(("broken", "ps-model-accepts-refused", f"the local processor cannot be built "
                       f"({real['build_err']}), the model answers {json.dumps(rep)[:200]}"))
        else:
            real["flags"].add("ps:malformed-refused")
        return real, fl
    if "err" in rep:
        fl.append(("broken", "ps-model-refuses", f"the model refuses ({rep['err']}) a processor the code builds"))
        return real, fl
    if "convert_err" in real:
        fl.append(("violation", "from-local-raises", f"from_local_processor / prepare_job_payload raised "
                   f"{real['convert_err']} for heralds {case['heralds']} post-selection {ps_text(case['expr'])!r}"))
        return real, fl
    for sig, what in real["oracle"]:
        fl.append(("violation", sig, what))
    if not real["relabelling_confirmed"]:
        fl.append(("broken", "ps-relabelling-unconfirmed", f"the circuit / heralds of the converted processor are not "
                   f"the local ones under the relabelling {real['sigma']}"))
    if rep["relabel"] != real["sigma"]:
        fl.append(("broken", "ps-model-relabelling", f"model relabelling {rep['relabel']}, expected {real['sigma']}"))
    if rep["tstates"] != real["tstates"]:
        fl.append(("broken", "ps-model-states", "the model relabels the states differently"))
    if rep["local"] != real["local"]:
        i = [a == b for a, b in zip(rep["local"], real["local"])].index(False)
        fl.append(("broken", "ps-model-eval", f"{real['user_text']} on {real['states'][i]}: code "
                   f"{real['local'][i]}, model {rep['local'][i]}"))
    for key in ("held", "sent"):
        if any(v is None for v in real[key]):
            continue
        for mk in ("remote", "denote"):
            if rep[mk] != real[key]:
                i = [a == b for a, b in zip(rep[mk], real[key])].index(False)
                fl.append(("broken", f"ps-model-{mk}-{key}", f"converted post-selection {real[key + '_text']} on "
                           f"{real['tstates'][i]}: code {real[key][i]}, model ({mk}) {rep[mk][i]}"))
                break
    if (rep["conds"] or []) != real["conds"]:
        fl.append(("broken", "ps-model-conds", f"condition mode sets: code {real['conds']} ({real['held_text']}), "
                   f"model {rep['conds']}"))
    # what was exercised
    fg = real["flags"]
    fg.add("ps:converted")
    hm = [k for k, _ in case["heralds"]]
    if hm and sorted(hm) != list(range(case["size"] - len(hm), case["size"])):
        fg.add("ps:heralds-inside")
    if real["sigma"] == list(range(case["size"])):
        fg.add("ps:identity-relabelling")
    if case["expr"] is None:
        fg.add("ps:empty")
    for e in ps_walk(case["expr"]):
        if e[0] == "not":
            fg.add("ps:negation")
        elif e[0] in ("xor", "or"):
            fg.add("ps:" + e[0])
        if e[0] != "c" and any(x[0] != "c" for x in (e[1] if e[0] != "not" else [e[1]])):
            fg.add("ps:nested")
        if e[0] == "c":
            if any(k in hm for k in e[1]):
                fg.add("ps:cond-on-herald-mode")
            inv = {o: j for j, o in enumerate(real["sigma"])}
            img = [inv.get(k, k) for k in e[1]]
            if img != sorted(img):
                fg.add("ps:mode-order-changed")
    if all(v is not None for v in real["sent"]):
        fg.add("ps:payload-compared")
    if any(real["local"]):
        fg.add("ps:accepts-some")
    if not all(real["local"]):
        fg.add("ps:rejects-some")
    return real, fl


def ps_shrink(chk, case, sig):
    def fails(c):
        try:
            return any(f[1] == sig for f in ps_judge(chk, c)[1])
        except Exception:
            return False
    cur = copy.deepcopy(case)
    for _ in range(40):
        cands = []
        for e in list(ps_walk(cur["expr"]))[1:]:
            cands.append(dict(cur, expr=e))
        for i in range(len(cur["heralds"])):
            cands.append(dict(cur, heralds=cur["heralds"][:i] + cur["heralds"][i + 1:]))
        for i in range(len(cur["bs"])):
            if len(cur["bs"]) > 1:
                cands.append(dict(cur, bs=cur["bs"][:i] + cur["bs"][i + 1:]))
        for c in cands:
            if fails(c):
                cur = copy.deepcopy(c)
                break
        else:
            break
    return cur


def ps_handle(chk, case, do_shrink=True):
    real, fl = ps_judge(chk, case)
    for f in real["flags"]:
        chk.branch(f)
    chk.count("ps:size", case["size"])
    chk.count("ps:heralds", len(case["heralds"]))
    chk.case(("ps", case["size"], json.dumps(case["heralds"]), ps_text(case["expr"])),
             "local" in real and any(real["local"]) and not all(real["local"]),
             {"ps_case": case} if case["expr"] is not None and case["heralds"] else None)
    seen = set()
    for kind, sig, what in fl:
        if sig in seen:
            continue
        seen.add(sig)
        already = sum(1 for f in chk.failures if f[1] == sig)
        if already >= 3:
            continue                      # the same finding again: three witnesses are enough
        small = ps_shrink(chk, case, sig) if do_shrink and already == 0 else case
        chk.fail(kind, sig, what, {"ps_case": small})


def run_ps_part(chk):
    rng = chk.rng
    n = chk.pick(160, 1600)
    max_size = chk.pick(6, 7)
    for _ in range(n):
        ps_handle(chk, ps_gen_case(rng, max_size))


# ---------------------------------------------------------------------------------------------------------------
# wave 9: the shot / sample estimators (Model/C16Est.lean, driver part "est")
# ---------------------------------------------------------------------------------------------------------------
EST_REQUIRED = ["est:zero", "est:one", "est:simulate", "est:heralds", "est:stale-input", "est:converted",
                "est:remote-built", "est:filter-unset", "est:filter-zero", "est:closed-form-compared",
                "est:threshold-platform", "est:platform-transmittance", "est:k-equals-2", "est:k-equals-n"]


def est_gen_case(rng, max_size):
    size = rng.randint(2, max_size)
    nh = min(rng.choice([0, 0, 1, 1, 2]), size - 1)
    hm = rng.sample(range(size), nh)
    heralds = [[k, rng.choice([0, 1, 1])] for k in hm]        # add_herald asserts expected in {0, 1}
    free = size - nh
    tr = rng.choice([None, None, 2, 6, 10, 50, 100])
    # the lossy simulation drops rare terms: observed with 5 photons at 1..3 % transmittance (the all-detected term is
    # lost, estimate_required_shots answers None where ~3e7 shots would do) — the simulation's precision, not judged
    most = 4 if tr == 2 else 5
    while True:
        user = [rng.choice([0, 0, 1, 1, 1, 2]) for _ in range(free)]
        if sum(user) + sum(v for _, v in heralds) <= most:
            break
    nu = sum(user)
    r = rng.random()
    if r < 0.15:
        flt = None
    elif r < 0.3:
        flt = 0
    elif r < 0.55:
        flt = nu                                            # boundary: exactly the photons of the user's input
    elif r < 0.7:
        flt = nu + 1                                        # boundary: one more than the input holds
    else:
        flt = rng.randint(0, nu + 2)
    bs = [[rng.randrange(size - 1), rng.choice([0.3, 0.7, 1.1, 1.9])] for _ in range(rng.randint(1, 3))]
    case = {"size": size, "heralds": heralds, "user": user, "filter": flt, "bs": bs,
            "T": tr, "threshold": rng.random() < 0.2,
            "converted": rng.random() < 0.4, "late_herald": None,
            "nsamples": rng.choice([1, 10, 100, 1000, 12345]), "nshots": rng.choice([0, 1, 10, 1000, 100000, 1234567])}
    if not case["converted"] and rng.random() < 0.25:
        rest = [k for k in range(size) if k not in hm]
        if len(rest) > 1:
            # a herald added AFTER with_input: the stored state does not carry its photons
            case["late_herald"] = [rng.choice(rest), rng.choice([0, 1, 1])]
    return case


def est_stored(case):
    """the state the processor stores, computed from the scenario (never read back from the processor): user photons
    on the non-herald modes, herald photons on theirs; a converted processor has its heralds after the user's modes"""
    size, heralds, user = case["size"], case["heralds"], case["user"]
    if case["converted"]:
        return list(user) + [v for _, v in heralds]
    hd = {k: v for k, v in heralds}
    it = iter(user)
    return [hd[k] if k in hd else next(it) for k in range(size)]


def est_all_heralds(case):
    hs = [list(h) for h in case["heralds"]]
    if case["late_herald"] is not None:
        hs.append(list(case["late_herald"]))
    if case["converted"]:
        free = case["size"] - len(hs)
        hs = [[free + i, v] for i, (_, v) in enumerate(hs)]
    return hs


def est_real(case):
    """-> dict: what the real code answers (no Lean involved)"""
    import perceval as pcvl
    from perceval import BasicState
    from perceval.runtime import remote_processor as rp_mod
    from perceval.runtime.rpc_handler import RPCHandler
    out = {}
    quiet()
    install_transport()
    pf = {"commands": list(METHODS)}
    if case["threshold"]:
        pf["threshold_only"] = True
    _NET[0] = FakeNet(pf)
    if case["T"] is not None:
        _NET[0]._details["perfs"] = {"Transmittance (%)": case["T"]}
    handler = RPCHandler("sim:verif", "https://verif.invalid", "none", None)
    size = case["size"]
    try:
        if case["converted"]:
            p = pcvl.Processor("SLOS", size)
            for k, th in case["bs"]:
                p.add(k, pcvl.BS(theta=th))
            for k, v in case["heralds"]:
                p.add_herald(k, v)
            if case["filter"] is not None:
                p.min_detected_photons_filter(case["filter"])
            p.with_input(BasicState(case["user"]))
            rp = pcvl.RemoteProcessor.from_local_processor(p, rpc_handler=handler)
        else:
            rp = pcvl.RemoteProcessor(rpc_handler=handler, m=size)
            for k, th in case["bs"]:
                rp.add(k, pcvl.BS(theta=th))
            for k, v in case["heralds"]:
                rp.add_herald(k, v)
            if case["filter"] is not None:
                rp.min_detected_photons_filter(case["filter"])
            rp.with_input(BasicState(case["user"]))
            if case["late_herald"] is not None:
                rp.add_herald(*case["late_herald"])
    except Exception as e:
        out["build_err"] = f"{type(e).__name__}: {e}"
        return out
    # did the estimate simulate?  (a recording subclass of the local Processor the estimator builds: same behaviour)
    runs = []
    real_proc = rp_mod.Processor

    class Recording(real_proc):
        def probs(self, *a, **kw):
            runs.append(1)
            return super().probs(*a, **kw)
    rp_mod.Processor = Recording
    try:
        for key, fn, arg in (("required", rp.estimate_required_shots, case["nsamples"]),
                             ("expected", rp.estimate_expected_samples, case["nshots"])):
            before = len(runs)
            try:
                v = fn(arg)
                out[key] = None if v is None else (int(v) if float(v) == int(v) else float(v))
            except Exception as e:
                out[key] = {"exc": type(e).__name__, "msg": str(e)[:200]}
            out[key + "_simulated"] = len(runs) > before
    finally:
        rp_mod.Processor = real_proc
    return out


def est_closed_form(case, k):
    """exact probability that at least k of the n stored photons are detected given that at least one is, each photon
    surviving independently with the platform's transmittance (photon-counting detectors, unitary circuit)"""
    from fractions import Fraction
    from math import comb
    t = Fraction(6, 100) if case["T"] is None else Fraction(case["T"], 100)
    n = sum(est_stored(case))
    tail = sum(comb(n, j) * t ** j * (1 - t) ** (n - j) for j in range(k, n + 1))
    return tail / (1 - (1 - t) ** n)


def est_request(case):
    hs = est_all_heralds(case)
    return {"part": "est", "m": case["size"] - len(hs), "size": case["size"], "heralds": hs,
            "input": est_stored(case), "filter": case["filter"], "nsamples": case["nsamples"],
            "nshots": case["nshots"]}


def est_judge(chk, case):
    """-> (real, model reply, flags, failures [(kind, sig, what)])"""
    real = est_real(case)
    rep = chk.lean.ask(est_request(case))
    fl, flags = [], set()
    if "build_err" in real:
        flags.add("est:build-refused")
        return real, rep, flags, fl
    if "err" in rep:
        fl.append(("broken", "est-model-refuses", f"the driver refuses the case: {rep['err']}"))
        return real, rep, flags, fl
    n = sum(est_stored(case))
    hsum = sum(v for _, v in est_all_heralds(case))
    k = n if case["filter"] is None else case["filter"] + hsum       # the user-level reading of the docstring
    stale = case["late_herald"] is not None
    desc = (f"{'converted' if case['converted'] else 'remote-built'} processor, {case['size']} modes, heralds "
            f"{case['heralds']}{' then ' + str(case['late_herald']) + ' after with_input' if stale else ''}, input "
            f"{case['user']}, min_detected_photons_filter {case['filter']}, transmittance {case['T']}%")
    # ---- the direct oracle on the real code
    req, exp = real["required"], real["expected"]
    if isinstance(req, dict) or isinstance(exp, dict):
        fl.append(("violation", "est-estimator-raises", f"{desc}: estimate_required_shots -> {req}, "
                   f"estimate_expected_samples -> {exp}"))
        return real, rep, flags, fl
    if not (0 <= exp <= case["nshots"]):
        fl.append(("violation", "est-samples-above-shots", f"{desc}: estimate_expected_samples({case['nshots']}) = "
                   f"{exp}: more samples than shots (a max_samples derived from it exceeds max_shots)"))
    unreachable = case["filter"] is not None and k > n
    # with threshold detectors the simulated probability may be 0 for a reachable filter (two photons on one mode
    # click once): there only "unreachable => None" is required
    if (req is None) != unreachable and (unreachable or not case["threshold"]):
        fl.append(("violation", "est-none-wrong", f"{desc}: the filter plus the herald photons asks for {k} photons, "
                   f"the transmitted input holds {n}; estimate_required_shots({case['nsamples']}) = {req}"))
    if unreachable and exp != 0:
        fl.append(("violation", "est-none-wrong", f"{desc}: no output can pass the filter, yet "
                   f"estimate_expected_samples({case['nshots']}) = {exp}"))
    if not unreachable and k < 2:
        if req != case["nsamples"] or exp != case["nshots"]:
            fl.append(("violation", "est-estimate-wrong", f"{desc}: every shot with a detection passes the filter "
                       f"(threshold {k}); estimate_required_shots({case['nsamples']}) = {req}, "
                       f"estimate_expected_samples({case['nshots']}) = {exp}"))
    if not unreachable and k >= 2 and not case["threshold"]:
        p = est_closed_form(case, k)
        want_e, want_r = float(case["nshots"] * p), float(case["nsamples"] / p)
        flags.add("est:closed-form-compared")
        if req is None or abs(exp - want_e) > 0.5 + 1e-6 * want_e or abs(req - want_r) > 0.5 + 1e-6 * want_r:
            fl.append(("violation", "est-estimate-wrong", f"{desc}: P(at least {k} of {n} photons detected | at "
                       f"least one) = {float(p):.9g}: expected samples {want_e:.6g} / required shots {want_r:.6g}; the "
                       f"code answers {exp} / {req}"))
    # ---- model vs code
    g = rep["interest"]
    gname = g if isinstance(g, str) else "simulate"
    flags.add("est:" + gname)
    want = {"zero": (None, 0), "one": (case["nsamples"], case["nshots"])}
    if gname in want:
        if (req, exp) != want[gname] or real["required_simulated"] or real["expected_simulated"]:
            fl.append(("broken", "est-exit-differs", f"{desc}: model exit '{gname}' (closed answers {want[gname]}), "
                       f"code answers {(req, exp)} (simulated: {real['required_simulated']})"))
    else:
        if g["simulate"] != k or not (real["required_simulated"] and real["expected_simulated"]):
            fl.append(("broken", "est-exit-differs", f"{desc}: model simulates from {g['simulate']} photons, harness "
                       f"reads {k}; the code simulated: {real['required_simulated']}/{real['expected_simulated']}"))
        if rep["required"] != {"simulated": g["simulate"]} or rep["expected"] != {"simulated": g["simulate"]}:
            fl.append(("broken", "est-model-inconsistent", f"driver reply {json.dumps(rep)}"))
        if k == 2:
            flags.add("est:k-equals-2")
        if k == n:
            flags.add("est:k-equals-n")
    if hsum > 0:
        flags.add("est:heralds")
    if stale:
        flags.add("est:stale-input")
    flags.add("est:converted" if case["converted"] else "est:remote-built")
    if case["filter"] is None:
        flags.add("est:filter-unset")
    if case["filter"] == 0:
        flags.add("est:filter-zero")
    if case["threshold"] and gname == "simulate":
        flags.add("est:threshold-platform")
    if case["T"] is not None:
        flags.add("est:platform-transmittance")
    return real, rep, flags, fl


def est_shrink(chk, case, sig):
    def fails(c):
        try:
            return any(f[1] == sig for f in est_judge(chk, c)[3])
        except Exception:
            return False
    cur = copy.deepcopy(case)
    for _ in range(30):
        cands = []
        if cur["late_herald"] is not None:
            cands.append(dict(cur, late_herald=None))
        if cur["converted"]:
            cands.append(dict(cur, converted=False))
        if cur["threshold"]:
            cands.append(dict(cur, threshold=False))
        if cur["T"] is not None:
            cands.append(dict(cur, T=None))
        if len(cur["bs"]) > 1:
            cands.append(dict(cur, bs=cur["bs"][:1]))
        for i, (k, v) in enumerate(cur["heralds"]):
            if v > 0:
                cands.append(dict(cur, heralds=cur["heralds"][:i] + [[k, v - 1]] + cur["heralds"][i + 1:]))
        for i, v in enumerate(cur["user"]):
            if v > 0:
                cands.append(dict(cur, user=cur["user"][:i] + [v - 1] + cur["user"][i + 1:]))
        if cur["filter"]:
            cands.append(dict(cur, filter=cur["filter"] - 1))
        for c in cands:
            if fails(c):
                cur = copy.deepcopy(c)
                break
        else:
            break
    return cur


def est_handle(chk, case, do_shrink=True):
    real, rep, flags, fl = est_judge(chk, case)
    for f in flags:
        chk.branch(f)
    chk.count("est:size", case["size"])
    chk.count("est:exit", rep.get("interest") if isinstance(rep.get("interest"), str) else "simulate")
    chk.case(("est", json.dumps(case, sort_keys=True)), "build_err" not in real, None)
    seen = set()
    for kind, sig, what in fl:
        if sig in seen:
            continue
        seen.add(sig)
        already = sum(1 for f in chk.failures if f[1] == sig)
        if already >= 3:
            continue
        small = est_shrink(chk, case, sig) if do_shrink and already == 0 else case
        chk.fail(kind, sig, what, {"est_case": small})


def run_est_part(chk):
    rng = chk.rng
    n = chk.pick(150, 1200)
    max_size = chk.pick(5, 6)
    for _ in range(n):
        est_handle(chk, est_gen_case(rng, max_size))


def load_corpus():
    out = []
    for p in sorted(glob.glob(os.path.join(core.VERIF, "corpus", "C16", "*.json"))):
        d = json.load(open(p))
        if "scenario" in d:
            out.append(d["scenario"])
    return out


def load_part_corpus(key):
    out = []
    for p in sorted(glob.glob(os.path.join(core.VERIF, "corpus", "C16", "*.json"))):
        d = json.load(open(p))
        if key in d:
            out.append(d[key])
    return out


def run(chk: core.Check):
    chk.rule = ("random sessions: platform (constraint set, command list) x processor (remote-built with add/set_circuit "
                "and heralds, or local processor with circuit, catalog gates, heralds anywhere, ports, post-selection, "
                "noise, filter, input converted by from_local_processor) x 3..N public calls (setters, circuit "
                "changes between requests of the same processor: P.set_value, set_circuit via processor or experiment, "
                "add of a component; prepare_job_payload with kwargs, Sampler, iterations incl. ones that must be refused (input "
                "state breaking the photon window / the size, unknown or non-numeric circuit parameter) alone and next to "
                "every other key in either order, job creation for 3 methods, execute_async / execute_sync / __call__ with "
                "positional/keyword arguments while the transport under the real RPCHandler (handler name incl. characters "
                "to quote, base URL with / without trailing slash or path prefix, token incl. None and '', proxies, "
                "time-out) answers 200 with a job id, loses the answer after delivery, is unreachable, times out on "
                "connection, answers 400 / 401 / 500 / 502 / 422 with or without a JSON error, answers 201, or answers 200 "
                "with a body that has no job_id / is not JSON / is a list; every emitted HTTP request compared with the "
                "model's (count, verb, URL, Authorization, time-out, proxies, platform_name) and the posted document with "
                "the job's request after canonical JSON; jobs executed after the user changed the filter / "
                "parameters / iterations or created other jobs; an input state left behind by a later add_herald; the "
                "circuit of every payload compared with the exact matrix of the model's component list); distinct = "
                "distinct (start, heralds, constraints, commands, op "
                "sequence) signatures; non-trivial = at least one payload was produced and compared")
    chk.assumptions = [
        "post-selections and noise models are symbols in the model; the correspondence resolves them on the real "
        "objects (post-selection evaluated on all states with <=2 photons per mode). The circuit is compared twice: "
        "as a symbol with the model's relabelling (user's matrix recomputed with numpy from the scenario's specs) and "
        "as a MATRIX: the driver computes, exactly over Q[i], the matrix of the model's component list (nested "
        "circuit for add, unpacked circuit for set_circuit, PERM / components / inverted PERM for a converted local "
        "processor) from the own matrices of the user's elementary components (fresh objects, exact dyadic values "
        "of the floats Perceval computes for ONE component, current parameter values) and the circuit of every "
        "payload is compared with it at 1e-9; a converted local processor is one elementary component of the model "
        "(its own matrix: C10's subject); Experiment's simplify() is assumed not to change the matrix",
        "the request of a job is expected to be the one built when the job was created (repaired code, "
        "fixes/C16-job-snapshot.diff): the user changes the photon filter / set_parameter / clear_parameters / adds "
        "or clears iterations between job creation and execution, in any interleaving with other jobs, and the "
        "request received is compared with the creation-time one (direct oracle 'job-request-not-as-created')",
        "an input state left behind by a later add_herald is OUTSIDE the statement (the processor the user built "
        "holds a state of an obsolete layout, the local simulation reads the same state): the oracle only requires "
        "that it is transmitted as stored; acceptance / refusal by the photon window is compared with the model",
        "a job is executed at most once after a successful send (double execute_async is C17's finding); a job whose "
        "creation request failed on the network IS executed again (must be refused, nothing re-sent)",
        "the REAL RPCHandler runs (injected by the user or built by RemoteProcessor from name / token / url / "
        "proxies) over a scripted transport installed at requests.adapters.HTTPAdapter.send (real requests sessions, "
        "request preparation, JSON encoding and exception classes; no redirects, no environment proxies / netrc): "
        "every HTTP request the client emits is seen with its method, URL, headers, body bytes, time-out and proxies. "
        "A job-creation POST answered with a 2xx status or whose answer is never read counts as a remote job; a "
        "second POST after one that was NOT taken by the platform is reported as a model/code difference only, not as "
        "a violation. The job's own request is read from RemoteJob._request_data for the byte comparison (skipped and "
        "counted if that attribute does not exist)",
        "an iteration is judged (size, photon window with herald photons, parameter names/values) against the user's "
        "processor as it is when the iteration is added — a later add_herald / set_circuit is not re-judged",
        "add_herald only on existing modes, at least one mode of interest kept; BasicState inputs only",
        "the circuit the user means is recomputed from the scenario's specs with fresh objects (base circuit / local "
        "processor, appended components, parameter values set so far), never read back from the processor under test; "
        "add(k, component) only on herald-free modes of a processor without post-selection",
    ]
    chk.required_branches = ["convert", "convert-heralds", "convert-heralds-inside", "convert-heralds-input",
                             "remote-built", "remote-herald", "payload", "execute-sent", "filter-zero",
                             "filter-unset-rejected", "prepare-rejected-constraints", "clamp-lowered",
                             "clamp-lowered-by-one",
                             "handle-params-rejected", "execute-typeerror", "iterator-sent", "iteration-rejected",
                             "primitive-converted", "primitive-none-or-constraints", "mapping-delta", "kw-collision",
                             "noise-after-convert", "input-after-convert", "input-before-convert",
                             # a long-lived RemoteProcessor changed between two requests built from it
                             "retune-between-payloads", "retune-between-jobs", "retune-own-handle",
                             "set-circuit-between-payloads", "exp-set-circuit-between-payloads",
                             "add-comp-between-payloads", "set-circuit-between-jobs", "exp-set-circuit-between-jobs",
                             "input-between-payloads", "filter-between-payloads", "noise-between-payloads",
                             "post-between-payloads", "herald-between-payloads", "circuit-change-on-converted",
                             # an iteration that must be refused, in every combination with the other keys
                             "iter-refused:input-photons", "iter-refused:input-size", "iter-refused:cparams-name",
                             "iter-refused:cparams-value",
                             "iter-refused:input_state:alone", "iter-refused:input_state:with-cparams",
                             "iter-refused:input_state:with-other", "iter-refused:input_state:before-cparams",
                             "iter-refused:input_state:after-cparams",
                             "iter-refused:circuit_params:with-input", "iter-refused:circuit_params:before-input",
                             "iter-refused:circuit_params:after-input",
                             "iter-refused:later-iteration-of-a-scan",
                             "iter-accepted:input+cparams", "iterator-sent:input+cparams",
                             # the network fails on the creation request; other execution entry points
                             "execute-answer-lost", "execute-not-delivered", "execute-sync",
                             "execute-refused-after-failed-transport",
                             # the circuit as a matrix: exact matrix of the model's component list vs the circuit sent
                             "matrix-compared", "matrix:prepare", "matrix:job", "matrix:converted",
                             "matrix:converted-perm", "matrix:converted-then-add",
                             "matrix:converted-then-set-circuit", "matrix:after-add", "matrix:after-set-circuit",
                             "matrix:retuned", "matrix:remote-heralds",
                             # an input state left behind by a later add_herald (transmitted as stored)
                             "stale-input-sent", "stale-input-mismatch",
                             # the user changes the parameters / the iterations between job creation and execution
                             "sent-after-change", "sent-after:filter", "sent-after:param",
                             "sent-after:clear_params", "sent-after:add_iters", "sent-after:clear_iters",
                             # the HTTP layer: the real RPCHandler over a scripted transport
                             "handler-injected", "handler-built-by-processor", "handler-timeout-set",
                             "http:get", "http:post", "http:get-quoted-name", "http:double-slash",
                             "post-checked", "post-body-compared", "posted-compared", "posted-compared:not-taken",
                             "transport-exception-reaches-user"] + ["net:" + k for k in NET_FAILURES] + [
                             # add with list / dict / port-name mappings, on herald modes, next to a post-selection;
                             # clear_input_and_circuit; set_parameters / thresholded_output
                             "mapped-add", "mapped-add-perm", "mapped-add:list", "mapped-add:dict",
                             "mapped-add:dict:port", "mapped-add-spans-herald", "add-next-to-postselection",
                             "add-refused-by-postselection", "add-refused:UnavailableModeException",
                             "add-refused:InvalidMappingException", "add-refused:AssertionError", "port-added",
                             "add-mapped-between-payloads", "matrix:after-mapped-add-perm", "matrix:after-clear",
                             "cleared", "cleared:no-modes", "cleared-then-add", "cleared-then-set-circuit",
                             "clear-refused-size", "clear-between-payloads", "set-parameters",
                             "set-parameters-refused", "thresholded-set", "thresholded-refused",
                             "payload-parameters-compared"] + PS_REQUIRED + EST_REQUIRED
    chk.lean = core.LeanDriver("C16")
    for scen in load_corpus():
        handle(chk, scen, corpus=True)
    rng = chk.rng
    n = chk.pick(800, 8000)
    max_m = chk.pick(6, 8)
    max_ops = chk.pick(14, 22)
    batch = 100
    done = 0
    while done < n:
        scens, sess = [], []
        for _ in range(min(batch, n - done)):
            scen = gen_scenario(rng, max_m, max_ops)
            try:
                ses = Session(scen).run()
            except Discard:
                chk.branch("discarded")
                continue
            scens.append(scen)
            sess.append(ses)
        reps = chk.lean.ask_many([s.lean_request() for s in sess])
        for scen, ses, rep in zip(scens, sess, reps):
            handle(chk, scen, rep, ses)
        done += batch
    # the post-selection as a predicate (drawn after the sessions: the sessions of a seed stay the ones of earlier rounds)
    for case in load_part_corpus("ps_case"):
        ps_handle(chk, case)
    run_ps_part(chk)
    # the shot / sample estimators (wave 9; drawn last: the earlier parts of a seed stay what they were)
    for case in load_part_corpus("est_case"):
        est_handle(chk, case)
    run_est_part(chk)
    if chk.branches.get("discarded", 0) > 0.03 * n:
        raise RuntimeError(f"{chk.branches['discarded']} of {n} generated scenarios were discarded (generator out of "
                           f"its valid domain)")


def replay(chk, data):
    chk.lean = core.LeanDriver("C16")
    chk.rule = "replay of one stored scenario"
    if "ps_case" in data["replay"]:
        ps_handle(chk, data["replay"]["ps_case"], do_shrink=False)
        return
    if "est_case" in data["replay"]:
        est_handle(chk, data["replay"]["est_case"], do_shrink=False)
        return
    handle(chk, data["replay"]["scenario"], do_shrink=False)
